#!/venv/bin/python
"""tools/gen_round_table.py <suffix>  -> markdown table of the seeds seeded/<PROP>-<suffix> from their meta.json (as left by tools/seed_matrix.py)."""
import glob, json, os, sys
VERIF = os.path.dirname(os.path.dirname(os.path.abspath(__file__)))
suf = sys.argv[1]
print("| seed | change (abridged) | own check reports | other checks | analysis-error |")
print("|------|-------------------|-------------------|--------------|----------------|")
for f in sorted(glob.glob(os.path.join(VERIF, "seeded", f"C*-{suf}", "meta.json"))):
    m = json.load(open(f))
    sid = os.path.basename(os.path.dirname(f))
    c = m.get("checks", {})
    v = c.get("violations", {})
    own = ", ".join(v.get(m["property"], [])) or "**none**"
    oth = ", ".join(sorted(p for p in v if p != m["property"])) or "-"
    ae = ", ".join(sorted(c.get("analysis_error", {}))) or "-"
    s = " ".join(m.get("summary", "").split()).replace("|", "/")
    print(f"| {sid} | {s[:230]} | {own} | {oth} | {ae} |")
