#!/venv/bin/python
"""tools/show_inlined.py <patch> [function name ...] : applies the patch to a scratch copy of /repo/src, builds the program model (forwarders
collapsed, extracted helpers inlined) and prints the inlining log and the normalised source of the named functions."""
import ast, os, shutil, subprocess, sys, tempfile
sys.path.insert(0, os.path.dirname(os.path.dirname(os.path.abspath(__file__))))
from sa.model import Repo
tmp = tempfile.mkdtemp(prefix="sa-inl-")
try:
    shutil.copytree("/repo/src", os.path.join(tmp, "src"))
    subprocess.run(["git", "init", "-q"], cwd=tmp)
    r = subprocess.run(["git", "apply", "--whitespace=nowarn", os.path.abspath(sys.argv[1])], cwd=tmp, capture_output=True, text=True)
    if r.returncode:
        sys.exit("patch does not apply: " + r.stderr)
    repo = Repo(tmp)
    for h, c, l in repo.inlined:
        print(f"inlined {h} into {c} (line {l})")
    for m in repo.modules.values():
        for n in ast.walk(m.tree):
            if isinstance(n, ast.FunctionDef) and n.name in sys.argv[2:]:
                print(f"---- {m.name}:{n.name}")
                print(ast.unparse(n))
finally:
    shutil.rmtree(tmp, ignore_errors=True)
