#!/venv/bin/python
"""Rewrites 'Appendix C' of DESIGN.md (between its markers) from the docstrings of sa/props/cXX.py, so that the rule inventory in the
design document is always the one the code implements.  Usage: tools/gen_rules_appendix.py"""
import ast
import os

VERIF = os.path.dirname(os.path.dirname(os.path.abspath(__file__)))
BEGIN, END = "<!-- RULES-APPENDIX-BEGIN -->", "<!-- RULES-APPENDIX-END -->"


def main():
    parts = [BEGIN, "", "## Appendix C. Rule inventory as implemented (generated from the docstrings of `sa/props/cXX.py` by `tools/gen_rules_appendix.py`)", "",
             "Section 4 is the plan; this appendix is what the code checks today, including every rule added after a seeded change or a defect",
             "hunt. Rule ids are the ones printed in violations and stored in evidence.", ""]
    for i in range(1, 21):
        p = os.path.join(VERIF, "sa", "props", f"c{i:02d}.py")
        doc = ast.get_docstring(ast.parse(open(p).read())) or ""
        parts += [f"### C{i:02d}", "", "```", doc.rstrip(), "```", ""]
    parts.append(END)
    block = "\n".join(parts)
    dp = os.path.join(VERIF, "DESIGN.md")
    s = open(dp).read()
    if BEGIN in s and END in s:
        s = s[:s.index(BEGIN)] + block + s[s.index(END) + len(END):]
    else:
        s = s.rstrip("\n") + "\n\n---------------------------------------------------------------------------------------------------\n\n" + block + "\n"
    open(dp, "w").write(s)
    print("DESIGN.md: appendix C rewritten")


if __name__ == "__main__":
    main()
