#!/venv/bin/python
"""Evaluate a seeded change against the checks WITHOUT touching /repo:
   tools/try_seed.py <patch.diff> [PROP ...]     (default: all claimed properties)
Copies /repo/src to a scratch dir, applies the patch there (git apply), runs each check with --repo <scratch>."""
import json, os, shutil, subprocess, sys, tempfile
VERIF = os.path.dirname(os.path.dirname(os.path.abspath(__file__)))
patch = os.path.abspath(sys.argv[1])
props = [p.upper() for p in sys.argv[2:]] or [c["property_id"] for c in json.load(open(os.path.join(VERIF, "MANIFEST.json")))["checks"]]
tmp = tempfile.mkdtemp(prefix="sa-seed-")
try:
    shutil.copytree("/repo/src", os.path.join(tmp, "src"))
    subprocess.run(["git", "init", "-q"], cwd=tmp)
    r = subprocess.run(["git", "apply", "--whitespace=nowarn", patch], cwd=tmp, capture_output=True, text=True)
    if r.returncode != 0:
        print("PATCH DOES NOT APPLY:", r.stderr.strip()[:400]); sys.exit(3)
    fired = []
    for p in props:
        q = subprocess.run([sys.executable, "-B", "-m", "sa.run", p, "--repo", tmp, "--no-evidence"], cwd=VERIF, capture_output=True, text=True)
        lines = [l for l in q.stdout.splitlines() if l.startswith(("VIOLATION", "  rule", "ANALYSIS-ERROR"))]
        if q.returncode != 0:
            fired.append(p)
            print(f"--- {p} exit={q.returncode}")
            for l in lines[:6]:
                print("   ", l[:400])
    print("FIRED:", fired if fired else "none")
finally:
    shutil.rmtree(tmp, ignore_errors=True)
