#!/bin/bash
# tools/validate_rewrites.sh [KINDS]  : shows that the whole-tree rewrites of sa/rewrites.py really are behaviour-preserving as far as
# the project's own tests can tell: applies them (default: all together) to a scratch worktree of /repo and runs the pinned suite there;
# the passing set must equal the baseline.  Not part of any check (it executes repo code); it validates the checker's test material.
K=${1:-DEHGKOCTRMF}
WT=$(mktemp -d /tmp/rwwt.XXXXXX); rmdir "$WT"
git -C /repo worktree add -q --detach "$WT" HEAD || exit 3
trap 'git -C /repo worktree remove --force "$WT" >/dev/null 2>&1' EXIT
/venv/bin/python - "$WT" "$K" <<'PY'
import sys
sys.path.insert(0, "/verif")
from sa import rewrites
rewrites.transform(sys.argv[1], sys.argv[2])
PY
(cd "$WT" && PYTHONPATH="$WT/src" /venv/bin/python -m pytest -q -p no:cacheprovider --timeout=900 --junitxml="$WT/_junit.xml" >/dev/null 2>&1)
/venv/bin/python - "$WT/_junit.xml" "$K" <<'PY'
import json, sys, xml.etree.ElementTree as ET
base = set(json.load(open('/root/.vp/BASELINE.json'))['stable_pass'])
ok = set()
for tc in ET.parse(sys.argv[1]).getroot().iter('testcase'):
    if not any(c.tag in ('failure', 'error', 'skipped') for c in tc):
        ok.add(f"{tc.get('classname')}::{tc.get('name')}")
miss = sorted(base - ok)
print(f"rewrites {sys.argv[2]}: {len(base) - len(miss)}/{len(base)} baseline tests pass on the rewritten tree", *(["MISSING " + m for m in miss[:8]]))
sys.exit(1 if miss else 0)
PY
