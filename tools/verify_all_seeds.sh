#!/bin/bash
# tools/verify_all_seeds.sh [jobs]  : re-runs tools/verify_seed.sh for every seed under seeded/ against the CURRENT /repo HEAD
# (fresh scratch worktrees, removed afterwards) and writes seeded/VERIFIED.txt
cd "$(dirname "$0")/.."
J=${1:-4}
ls -d seeded/C*-* | xargs -P "$J" -I{} bash -c 'r=$(bash tools/verify_seed.sh {} 2>&1 | tr "\n" ";"); echo "{}: $r"' | sort > seeded/VERIFIED.txt
echo "HEAD $(git -C /repo log --format=%h -1)" >> seeded/VERIFIED.txt
grep -c "demo without patch: exit 0;demo with patch:    exit 1;suite with patch: 156/156" seeded/VERIFIED.txt
