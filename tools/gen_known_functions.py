#!/venv/bin/python
"""Writes sa/known_functions.txt: the inventory of function / method names (module:qualname) of /repo as of the tree the rules were
written against. A callee that is NOT in this inventory is new code (an extracted helper): no rule can have been written about it, so the
def-use engine looks through it (inlines it) by default - see ir._Eval.e_Call.  Re-run only after a `fix:` commit that adds a function."""
import os, sys
sys.path.insert(0, os.path.dirname(os.path.dirname(os.path.abspath(__file__))))
from sa.model import Repo
r = Repo("/repo")
names = sorted(f.fq for f in r.all_functions())
names += sorted(f"const {m.name}:{c}" for m in r.modules.values() for c in m.constants)
open(os.path.join(os.path.dirname(os.path.dirname(os.path.abspath(__file__))), "sa", "known_functions.txt"), "w").write("\n".join(names) + "\n")
print(len(names), "functions")
