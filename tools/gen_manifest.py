#!/venv/bin/python
"""Regenerates /verif/MANIFEST.json from sa/manifest_data.py and validates it against the schema."""
import json, os, sys
sys.path.insert(0, os.path.dirname(os.path.dirname(os.path.abspath(__file__))))
from sa.manifest_data import CLAIMS, NOT_APPLICABLE, ENGINES, NOTES

props = [json.loads(l) for l in open("/verif/properties.jsonl")]
ids = [p["id"] for p in props]
m = {
    "version": 1,
    "setup_cmd": "/venv/bin/python -B -m sa.setup_check",
    "hooks": {
        "guard": "ELEXMODEL_VERIF",
        "enable": "none needed: the checks are static analyses that parse /repo/src on every run; no hook or instrumentation commit exists in /repo",
        "baseline_off_cmd": "cd /repo && /venv/bin/python -m pytest -ra -q -p no:cacheprovider --timeout=900 --continue-on-collection-errors",
        "source_commits": [],
        "add_only": True,
    },
    "engines": ENGINES,
    "checks": [],
    "notes": NOTES,
    "not_applicable": [],
}
for pid in ids:
    if pid in CLAIMS:
        c = CLAIMS[pid]
        m["checks"].append({
            "property_id": pid,
            "quick_cmd": f"./check {pid} --tier quick",
            "thorough_cmd": f"./check {pid} --tier thorough",
            "evidence_file": f"/verif/evidence/{pid}.json",
            "replay_cmd_template": f"./check {pid} --replay {{path}}",
            "engine": "sa",
            "level_claimed": {"category": "other", "text": c["level"], "design_ref": c.get("design_ref", f"DESIGN.md section 4, {pid}")},
            "level_note": c["note"],
            "technique": c["technique"],
        })
    else:
        m["not_applicable"].append({"property_id": pid, "reason": NOT_APPLICABLE.get(pid, "check under construction; not claimed yet")})
import jsonschema
jsonschema.validate(m, json.load(open("/root/.vp/MANIFEST.schema.json")))
json.dump(m, open("/verif/MANIFEST.json", "w"), indent=1)
print("MANIFEST.json:", len(m["checks"]), "checks,", len(m["not_applicable"]), "not applicable")
