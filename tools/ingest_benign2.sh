#!/bin/bash
# tools/ingest_benign2.sh CXX : copies the deliverables of a round-2 refactoring agent (/tmp/wt10/CXX/_refactor) to /verif/benign2/CXX
P=$1; S=/tmp/wt10/$P/_refactor; D=/verif/benign2/$P
[ -f $S/patch3.diff ] || { echo "$P: not complete"; exit 1; }
mkdir -p $D; cp $S/patch1.diff $S/patch2.diff $S/patch3.diff $S/meta.json $D/ 2>/dev/null; cp $S/diffcheck.py $D/; [ -f $S/compare.py ] && cp $S/compare.py $D/
for n in 1 2 3; do git -C /repo apply --check $D/patch$n.diff 2>/dev/null || echo "$P/patch$n does not apply to /repo"; done
echo "$P ingested"
