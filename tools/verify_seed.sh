#!/bin/bash
# tools/verify_seed.sh <seed-dir containing patch.diff + demo>   : confirms in a scratch worktree of /repo that
#  (1) the demo passes without the patch, (2) fails with it, (3) the 156 baseline tests pass with it.
set -u
SEED=$(realpath "$1"); WT=$(mktemp -d /tmp/seedwt.XXXXXX); rmdir "$WT"
git -C /repo worktree add -q --detach "$WT" HEAD || exit 3
trap 'git -C /repo worktree remove --force "$WT" >/dev/null 2>&1' EXIT
DEMO=$(ls "$SEED" | grep -E '^(demo|test_demo).*\.py$' | head -1)
mkdir -p "$WT/_seed"; cp "$SEED/$DEMO" "$WT/_seed/"
run_demo() { if [[ "$DEMO" == test_* ]]; then (cd "$WT" && PYTHONPATH="$WT/src" /venv/bin/python -m pytest -q -p no:cacheprovider "_seed/$DEMO" >/dev/null 2>&1); else (cd "$WT" && PYTHONPATH="$WT/src" /venv/bin/python "_seed/$DEMO" >/dev/null 2>&1); fi; echo $?; }
echo "demo without patch: exit $(run_demo)"
git -C "$WT" apply --whitespace=nowarn "$SEED/patch.diff" || { echo "patch does not apply"; exit 3; }
echo "demo with patch:    exit $(run_demo)"
(cd "$WT" && PYTHONPATH="$WT/src" /venv/bin/python -m pytest -q -p no:cacheprovider --timeout=900 --continue-on-collection-errors --junitxml="$WT/_junit.xml" >/dev/null 2>&1)
/venv/bin/python - "$WT/_junit.xml" <<'PY'
import json, sys, xml.etree.ElementTree as ET
base=set(json.load(open('/root/.vp/BASELINE.json'))['stable_pass'])
ok=set()
for tc in ET.parse(sys.argv[1]).getroot().iter('testcase'):
    if not any(c.tag in ('failure','error','skipped') for c in tc): ok.add(f"{tc.get('classname')}::{tc.get('name')}")
miss=sorted(base-ok)
# a baseline test that is flaky on the unchanged tree (unseeded sample in MockLiveDataHandler) gets one more try on its own
import os, subprocess
wt=os.path.dirname(sys.argv[1]); retried=[]
for m in list(miss)[:5]:
    cls,name=m.split("::",1); node=cls.replace(".","/")+".py::"+name
    r=subprocess.run(["/venv/bin/python","-m","pytest","-q","-p","no:cacheprovider",node],cwd=wt,env=dict(os.environ,PYTHONPATH=wt+"/src"),capture_output=True)
    if r.returncode==0:
        miss.remove(m); retried.append(m)
print(f"suite with patch: {len(base)-len(miss)}/{len(base)} baseline tests pass", *(["MISSING "+m for m in miss[:5]]), *(["(passed on a second try: "+", ".join(retried)+")"] if retried else []))
PY
