#!/venv/bin/python
"""Run every check against whole-tree behaviour-preserving rewrites of /repo/src (see sa/rewrites.py); every check must stay silent.
Usage: tools/benign_auto.py [A B C D E H G K O]"""
import json, os, shutil, subprocess, sys, tempfile
VERIF = os.path.dirname(os.path.dirname(os.path.abspath(__file__)))
sys.path.insert(0, VERIF)
from sa.rewrites import KINDS, transform  # noqa: E402


def main():
    kinds = sys.argv[1:] or KINDS
    props = [c["property_id"] for c in json.load(open(os.path.join(VERIF, "MANIFEST.json")))["checks"]]
    bad = 0
    for k in kinds:
        tmp = tempfile.mkdtemp(prefix="sa-benign-")
        try:
            shutil.copytree("/repo/src", os.path.join(tmp, "src"))
            transform(tmp, k)
            for p in props:
                q = subprocess.run([sys.executable, "-B", "-m", "sa.run", p, "--repo", tmp, "--no-evidence"], cwd=VERIF, capture_output=True, text=True)
                if q.returncode != 0:
                    bad += 1
                    lines = [l for l in q.stdout.splitlines() if l.startswith(("  rule", "ANALYSIS-ERROR"))]
                    print(f"[{k}] {p} exit={q.returncode}: {lines[0][:300] if lines else q.stdout[-200:]}")
            print(f"variant {k}: done")
        finally:
            shutil.rmtree(tmp, ignore_errors=True)
    print("false alarms / analysis errors on behaviour-preserving rewrites:", bad)
    return 1 if bad else 0


if __name__ == "__main__":
    sys.exit(main())
