#!/venv/bin/python
"""Whole-tree behaviour-preserving rewrites of /repo/src (scratch copy), then every check must stay silent:
   A  re-print every module from its AST (formatting / comments / line numbers change)
   B  A + rename every function-local variable (not parameters, not names used in strings, nested scopes or as globals)
   C  A + a logging statement at the top of every function body
   D  A + scope-aware renaming of locals in every function, also those with lambdas / comprehensions / local functions
Usage: tools/benign_auto.py [A|B|C ...]"""
import ast, json, os, shutil, subprocess, sys, tempfile
VERIF = os.path.dirname(os.path.dirname(os.path.abspath(__file__)))


class Renamer(ast.NodeTransformer):
    def visit_FunctionDef(self, node):
        self.generic_visit(node)
        # only top-level-of-function renames, skip functions with nested defs / lambdas using free names
        params = {a.arg for a in node.args.posonlyargs + node.args.args + node.args.kwonlyargs}
        if node.args.vararg: params.add(node.args.vararg.arg)
        if node.args.kwarg: params.add(node.args.kwarg.arg)
        nested = [n for n in ast.walk(node) if n is not node and isinstance(n, (ast.FunctionDef, ast.Lambda, ast.ListComp, ast.SetComp, ast.DictComp, ast.GeneratorExp))]
        if nested:
            return node
        strings = " ".join(n.value for n in ast.walk(node) if isinstance(n, ast.Constant) and isinstance(n.value, str))
        stored = {n.id for n in ast.walk(node) if isinstance(n, ast.Name) and isinstance(n.ctx, ast.Store)}
        globals_ = {x for n in ast.walk(node) if isinstance(n, (ast.Global, ast.Nonlocal)) for x in n.names}
        ren = {n: n + "_rn" for n in stored if n not in params and n not in globals_ and n not in strings and not n.startswith("_")}
        for n in ast.walk(node):
            if isinstance(n, ast.Name) and n.id in ren:
                n.id = ren[n.id]
        return node


SCOPES = (ast.FunctionDef, ast.Lambda, ast.ListComp, ast.SetComp, ast.DictComp, ast.GeneratorExp)


def _own_walk(node):
    """nodes of a scope without descending into nested scopes (the nested scope node itself is yielded)"""
    stack = list(ast.iter_child_nodes(node))
    while stack:
        n = stack.pop()
        yield n
        if not isinstance(n, SCOPES):
            stack.extend(ast.iter_child_nodes(n))


def _bound(scope):
    out = set()
    if isinstance(scope, (ast.FunctionDef, ast.Lambda)):
        a = scope.args
        out |= {x.arg for x in a.posonlyargs + a.args + a.kwonlyargs}
        if a.vararg: out.add(a.vararg.arg)
        if a.kwarg: out.add(a.kwarg.arg)
    for n in _own_walk(scope):
        if isinstance(n, ast.Name) and isinstance(n.ctx, (ast.Store, ast.Del)):
            out.add(n.id)
    return out


class DeepRenamer(ast.NodeTransformer):
    """B2: scope-aware renaming of the locals of every outermost function, including their uses as free variables in
    nested lambdas / comprehensions / local functions (names rebound in a nested scope are left alone)."""

    def visit_FunctionDef(self, node):
        params = _bound(ast.Lambda(args=node.args, body=ast.Constant(value=None)))
        mine = _bound(node) - params
        nested_bound = set()
        for n in ast.walk(node):
            if n is not node and isinstance(n, SCOPES):
                nested_bound |= _bound(n)
        strings = " ".join(n.value for n in ast.walk(node) if isinstance(n, ast.Constant) and isinstance(n.value, str))
        globals_ = {x for n in ast.walk(node) if isinstance(n, (ast.Global, ast.Nonlocal)) for x in n.names}
        ren = {n: n + "_q" for n in mine if n not in nested_bound and n not in globals_ and n not in strings and not n.startswith("_")}
        for n in ast.walk(node):
            if isinstance(n, ast.Name) and n.id in ren:
                n.id = ren[n.id]
        return node


class Logger(ast.NodeTransformer):
    def visit_FunctionDef(self, node):
        self.generic_visit(node)
        stmt = ast.parse("print('', end='')").body[0]
        i = 1 if node.body and isinstance(node.body[0], ast.Expr) and isinstance(node.body[0].value, ast.Constant) else 0
        node.body.insert(i, stmt)
        return node


def transform(root, kind):
    for dp, _, fns in os.walk(os.path.join(root, "src")):
        for fn in fns:
            if not fn.endswith(".py"):
                continue
            p = os.path.join(dp, fn)
            src = open(p).read()
            tree = ast.parse(src)
            if kind == "B":
                tree = Renamer().visit(tree)
            if kind == "D":
                tree = DeepRenamer().visit(tree)
            if kind == "C":
                tree = Logger().visit(tree)
            ast.fix_missing_locations(tree)
            out = ast.unparse(tree) + "\n"
            compile(out, p, "exec")
            open(p, "w").write(out)


def main():
    kinds = sys.argv[1:] or ["A", "B", "C", "D"]
    props = [c["property_id"] for c in json.load(open(os.path.join(VERIF, "MANIFEST.json")))["checks"]]
    bad = 0
    for k in kinds:
        tmp = tempfile.mkdtemp(prefix="sa-benign-")
        try:
            shutil.copytree("/repo/src", os.path.join(tmp, "src"))
            transform(tmp, k)
            for p in props:
                q = subprocess.run([sys.executable, "-B", "-m", "sa.run", p, "--repo", tmp, "--no-evidence"], cwd=VERIF, capture_output=True, text=True)
                if q.returncode != 0:
                    bad += 1
                    lines = [l for l in q.stdout.splitlines() if l.startswith(("  rule", "ANALYSIS-ERROR"))]
                    print(f"[{k}] {p} exit={q.returncode}: {lines[0][:300] if lines else q.stdout[-200:]}")
            print(f"variant {k}: done")
        finally:
            shutil.rmtree(tmp, ignore_errors=True)
    print("false alarms / analysis errors on behaviour-preserving rewrites:", bad)
    return 1 if bad else 0


if __name__ == "__main__":
    sys.exit(main())
