#!/venv/bin/python
"""tools/try_benign.py [PROP ...] : every behaviour-preserving refactoring under benign/<PROP>/patch*.diff (written by independent sub-agents,
each verified by them with the full suite and an exact differential check) is applied to a scratch copy of /repo/src and ALL 20 checks are
run on it: each must exit 0. Prints every alarm / analysis error; exit 1 if there is any."""
import concurrent.futures as cf, glob, json, os, shutil, subprocess, sys, tempfile
VERIF = os.path.dirname(os.path.dirname(os.path.abspath(__file__)))
props = [c["property_id"] for c in json.load(open(os.path.join(VERIF, "MANIFEST.json")))["checks"]]
sel = [a.upper() for a in sys.argv[1:]]
patches = sorted(p for p in glob.glob(os.path.join(VERIF, os.environ.get("BENIGN_DIR", "benign"), "*", "patch*.diff")) if not sel or os.path.basename(os.path.dirname(p)) in sel)


def run(patch):
    tmp = tempfile.mkdtemp(prefix="sa-ben-")
    out = []
    try:
        shutil.copytree("/repo/src", os.path.join(tmp, "src"))
        subprocess.run(["git", "init", "-q"], cwd=tmp)
        r = subprocess.run(["git", "apply", "--whitespace=nowarn", patch], cwd=tmp, capture_output=True, text=True)
        if r.returncode != 0:
            return patch, [("-", 3, "patch does not apply: " + r.stderr.strip()[:200])]
        for p in props:
            q = subprocess.run([sys.executable, "-B", "-m", "sa.run", p, "--repo", tmp, "--no-evidence"], cwd=VERIF, capture_output=True, text=True)
            if q.returncode != 0:
                lines = [l.strip() for l in q.stdout.splitlines() if l.strip().startswith(("rule", "ANALYSIS-ERROR"))]
                out.append((p, q.returncode, " | ".join(x[:230] for x in lines[:3])))
        return patch, out
    finally:
        shutil.rmtree(tmp, ignore_errors=True)


bad = 0
with cf.ThreadPoolExecutor(max_workers=6) as ex:
    for patch, out in ex.map(run, patches):
        name = os.path.relpath(patch, os.path.join(VERIF, "benign"))
        if not out:
            print(f"{name}: silent")
        for p, rc, txt in out:
            bad += 1
            print(f"{name}: {p} exit={rc} {txt}")
print(f"{len(patches)} refactorings; alarms / analysis errors: {bad}")
sys.exit(1 if bad else 0)
