#!/venv/bin/python
"""Runs the repo's pinned suite and compares the passing set with /root/.vp/BASELINE.json (stable_pass)."""
import json, subprocess, sys, tempfile, os, xml.etree.ElementTree as ET
repo = sys.argv[1] if len(sys.argv) > 1 else "/repo"
out = tempfile.mktemp(suffix=".xml")
subprocess.run(["/venv/bin/python", "-m", "pytest", "-q", "-p", "no:cacheprovider", "--timeout=900",
                "--continue-on-collection-errors", f"--junitxml={out}"], cwd=repo, stdout=subprocess.DEVNULL, stderr=subprocess.DEVNULL)
base = set(json.load(open("/root/.vp/BASELINE.json"))["stable_pass"])
passed = set()
for tc in ET.parse(out).getroot().iter("testcase"):
    if not any(c.tag in ("failure", "error", "skipped") for c in tc):
        passed.add(f"{tc.get('classname')}::{tc.get('name')}")
os.remove(out)
missing = sorted(base - passed)
print(f"baseline {len(base)}; passed {len(passed)}; baseline tests not passing: {len(missing)}")
for m in missing: print("  MISSING", m)
sys.exit(1 if missing else 0)
