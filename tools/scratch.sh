#!/bin/bash
# tools/scratch.sh <patch> <dir> : scratch copy of /repo/src under <dir> with the patch applied (for interactive debugging of a check: --repo <dir>)
P=$(realpath "$1"); rm -rf "$2"; mkdir -p "$2"; cp -r /repo/src "$2/src"; (cd "$2" && git init -q && git apply --whitespace=nowarn "$P")
