#!/bin/bash
# tools/verify_benign.sh <PROP> <patchfile> : in a scratch worktree of /repo HEAD, runs benign/<PROP>/diffcheck.py before and after the
# patch and compares the two pickles exactly (the agents' own differential check), then the pinned suite on the patched tree.
set -u
PROP=$1; PATCH=$(realpath "$2"); WT=$(mktemp -d /tmp/benwt.XXXXXX); rmdir "$WT"
git -C /repo worktree add -q --detach "$WT" HEAD || exit 3
trap 'git -C /repo worktree remove --force "$WT" >/dev/null 2>&1' EXIT
mkdir -p "$WT/_refactor"; cp /verif/benign/$PROP/diffcheck.py "$WT/_refactor/"
run() { (cd "$WT" && PYTHONPATH="$WT/src" /venv/bin/python _refactor/diffcheck.py "$1" >/dev/null 2>"$1.err") || { echo "diffcheck run failed: $(tail -2 $1.err)"; }; }
run "$WT/_refactor/a.pkl"
git -C "$WT" apply --whitespace=nowarn "$PATCH" || { echo "patch does not apply"; exit 3; }
run "$WT/_refactor/b.pkl"
(cd "$WT" && PYTHONPATH="$WT/src" /venv/bin/python _refactor/diffcheck.py --compare _refactor/a.pkl _refactor/b.pkl 2>&1 | tail -3); echo "compare exit: $?"
if [ "${3:-}" != "nosuite" ]; then
PYTHONPATH="$WT/src" /venv/bin/python /verif/tools/run_suite.py "$WT" | head -4
fi
