"""interactive helper:  from tools.dbg import *;  ctx = mk('/tmp/sc1');  s = summ(ctx, 'elexmodel.handlers.data.ModelResults', 'ModelResultsHandler.add_unit_intervals')"""
import sys, os
sys.path.insert(0, os.path.dirname(os.path.dirname(os.path.abspath(__file__))))
from sa import ir
from sa.run import Ctx
from sa.model import Repo


def mk(root="/repo", prop="C03", tier="quick"):
    return Ctx(prop, tier, 0, repo_root=root)


def summ(ctx, mod, qual, **kw):
    return ctx.builder(**kw).summarize(ctx.fn(mod, qual))
