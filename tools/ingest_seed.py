#!/venv/bin/python
"""tools/ingest_seed.py <worktree> <PROP> <suffix> [round-note]
Copies <worktree>/_seed/{patch.diff, demo*.py, meta.json} of a seeding sub-agent to seeded/<PROP>-<suffix>/, rewrites the worktree
path in the demonstration, verifies the change in a fresh scratch worktree (tools/verify_seed.sh: demo without / with the patch, suite
with the patch) and records the result in meta.json. Prints which checks report it (tools/try_seed.py)."""
import json, os, re, shutil, subprocess, sys
VERIF = os.path.dirname(os.path.dirname(os.path.abspath(__file__)))
wt, prop, suffix = sys.argv[1].rstrip("/"), sys.argv[2].upper(), sys.argv[3]
note = sys.argv[4] if len(sys.argv) > 4 else ""
src = os.path.join(wt, "_seed")
dst = os.path.join(VERIF, "seeded", f"{prop}-{suffix}")
os.makedirs(dst, exist_ok=True)
# the patch is re-taken from the worktree so that it is exactly what the tree contains
diff = subprocess.run(["git", "-C", wt, "diff", "--", "src"], capture_output=True, text=True).stdout
# .. unless the agent's own _seed/patch.diff differs (worktrees share one git stash: a stash/pop race can swap hunks between them) - then
# the agent's file is what it confirmed
own = os.path.join(src, "patch.diff")
if os.path.isfile(own) and open(own).read().strip() != diff.strip():
    print("NOTE: worktree diff differs from _seed/patch.diff; the agent's patch.diff is used")
    diff = open(own).read()
open(os.path.join(dst, "patch.diff"), "w").write(diff)
demo = next(f for f in sorted(os.listdir(src)) if re.match(r"(demo|test_demo).*\.py$", f))
txt = open(os.path.join(src, demo)).read().replace(wt, "/repo")
open(os.path.join(dst, demo), "w").write(txt)
agent = json.load(open(os.path.join(src, "meta.json")))
json.dump(agent, open(os.path.join(dst, "meta.agent.json"), "w"), indent=1, sort_keys=True)
r = subprocess.run(["bash", os.path.join(VERIF, "tools", "verify_seed.sh"), dst], capture_output=True, text=True)
results = [l for l in r.stdout.splitlines() if l.strip()]
meta = {"property": prop, "origin": note or "independent sub-agent (given the property text, a scratch worktree and one-sentence descriptions of the earlier changes to avoid; nothing from /verif)",
        "summary": agent.get("summary", ""), "needs_to_manifest": agent.get("needs_to_manifest", ""),
        "demonstration": f"{demo} (run with PYTHONPATH=<tree>/src from the tree root)",
        "verified_by_me": {"how": "tools/verify_seed.sh in a fresh scratch worktree of /repo HEAD (removed afterwards)", "results": results}}
json.dump(meta, open(os.path.join(dst, "meta.json"), "w"), indent=1, sort_keys=True)
print("\n".join(results))
q = subprocess.run([sys.executable, os.path.join(VERIF, "tools", "try_seed.py"), os.path.join(dst, "patch.diff")], capture_output=True, text=True)
print(q.stdout[-1500:])
