#!/venv/bin/python
"""Run every claimed check against every seeded change under /verif/seeded/*/patch.diff (scratch copies of /repo/src, never
/repo itself) and record, per seed, which checks report a violation (rule ids), which end in ANALYSIS-ERROR and which stay silent.

  tools/seed_matrix.py            -> prints the matrix, rewrites seeded/<id>/meta.json["checks"] and seeded/MATRIX.json
  tools/seed_matrix.py --no-write -> prints only
A seed is `detected` when the check of its own property exits 1 with a VIOLATION (exit 2 is not a detection)."""
import concurrent.futures as cf
import json
import os
import shutil
import subprocess
import sys
import tempfile

VERIF = os.path.dirname(os.path.dirname(os.path.abspath(__file__)))
SEEDED = os.path.join(VERIF, "seeded")
KNOWN = {(k["rule"], k["key"]) for k in json.load(open(os.path.join(VERIF, "known_findings.json")))["findings"] if k.get("status") == "open"}


def run_seed(sid, props):
    patch = os.path.join(SEEDED, sid, "patch.diff")
    tmp = tempfile.mkdtemp(prefix="sa-seed-")
    out = {"violations": {}, "analysis_error": {}, "silent": []}
    try:
        shutil.copytree("/repo/src", os.path.join(tmp, "src"))
        r = subprocess.run(["git", "apply", "--whitespace=nowarn", patch], cwd=tmp, capture_output=True, text=True)
        if r.returncode != 0:
            return sid, {"error": "patch does not apply: " + r.stderr.strip()[:300]}
        for p in props:
            q = subprocess.run([sys.executable, "-B", "-m", "sa.run", p, "--repo", tmp, "--no-evidence", "--json"], cwd=VERIF,
                               capture_output=True, text=True)
            line = next((l for l in q.stdout.splitlines() if l.startswith("{")), None)
            data = json.loads(line) if line else {"obligations": [], "error": q.stdout[-200:]}
            if q.returncode == 1:
                out["violations"][p] = sorted({o["rule"] for o in data["obligations"] if o["verdict"] == "violation"
                                               and (o["rule"], o["key"]) not in KNOWN})
            elif q.returncode == 2:
                out["analysis_error"][p] = (data.get("error") or "").splitlines()[0][:200] if data.get("error") else "exit 2"
            else:
                out["silent"].append(p)
        return sid, out
    finally:
        shutil.rmtree(tmp, ignore_errors=True)


def main():
    write = "--no-write" not in sys.argv
    props = [c["property_id"] for c in json.load(open(os.path.join(VERIF, "MANIFEST.json")))["checks"]]
    seeds = sorted(d for d in os.listdir(SEEDED) if os.path.isfile(os.path.join(SEEDED, d, "patch.diff")))
    only = next((a.split("=", 1)[1] for a in sys.argv if a.startswith("--only=")), None)  # e.g. --only=-f : the seeds of one round
    res = {}
    if only:
        seeds = [d for d in seeds if only in d]
        try:
            res = json.load(open(os.path.join(SEEDED, "MATRIX.json")))
        except OSError:
            res = {}
    with cf.ThreadPoolExecutor(max_workers=8) as ex:
        for sid, out in ex.map(lambda s: run_seed(s, props), seeds):
            res[sid] = out
    missed = []
    for sid in seeds:
        out = res[sid]
        mp = os.path.join(SEEDED, sid, "meta.json")
        meta = json.load(open(mp)) if os.path.isfile(mp) else {}
        home = meta.get("property") or sid.split("-")[0]
        if "error" in out:
            print(f"{sid:8s} ERROR {out['error']}")
            missed.append(sid)
            continue
        det = home in out["violations"]
        if not det:
            missed.append(sid)
        print(f"{sid:8s} home={home} {'DETECTED' if det else 'MISSED  '} by-own-check; violations: "
              + (", ".join(f"{p}[{'/'.join(r)}]" for p, r in sorted(out['violations'].items())) or "-")
              + ("; analysis-error: " + ", ".join(sorted(out["analysis_error"])) if out["analysis_error"] else ""))
        if write:
            meta["property"] = home
            meta["checks"] = {"detected_by_own_check": det, "violations": out["violations"], "analysis_error": out["analysis_error"],
                              "silent": len(out["silent"])}
            json.dump(meta, open(mp, "w"), indent=1, sort_keys=True)
    if write:
        json.dump(res, open(os.path.join(SEEDED, "MATRIX.json"), "w"), indent=1, sort_keys=True)
    print(f"{len(seeds)} seeded changes; not detected by their own property's check: {missed or 'none'}")
    return 1 if missed else 0


if __name__ == "__main__":
    sys.exit(main())
