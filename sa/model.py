"""E1 - program model: modules, classes (C3 MRO), functions, imports, module constants.

Pure `ast`; nothing under the analysed repository is imported or executed.
"""
from __future__ import annotations

import ast
import copy
import os
import sys


class AnalysisError(Exception):
    """The analysis cannot decide (anchor vanished, construct not understood). Exit code 2, never a pass."""


PKG = "elexmodel"


class FuncInfo:
    def __init__(self, module, cls, node, parent=None):
        self.module = module
        self.cls = cls  # ClassInfo or None
        self.node = node
        self.parent = parent  # enclosing FuncInfo for nested defs
        self.name = node.name
        self.nested = {}
        if cls is not None:
            self.qualname = f"{cls.name}.{node.name}"
        elif parent is not None:
            self.qualname = f"{parent.qualname}.<locals>.{node.name}"
        else:
            self.qualname = node.name

    @property
    def fq(self):
        return f"{self.module.name}:{self.qualname}"

    @property
    def params(self):
        a = self.node.args
        return [x.arg for x in a.posonlyargs + a.args]

    @property
    def kwonly(self):
        return [x.arg for x in self.node.args.kwonlyargs]

    @property
    def has_varkw(self):
        return self.node.args.kwarg is not None

    @property
    def has_vararg(self):
        return self.node.args.vararg is not None

    def defaults(self):
        """param name -> default AST node"""
        a = self.node.args
        pos = a.posonlyargs + a.args
        out = {}
        for p, d in zip(pos[len(pos) - len(a.defaults):], a.defaults):
            out[p.arg] = d
        for p, d in zip(a.kwonlyargs, a.kw_defaults):
            if d is not None:
                out[p.arg] = d
        return out

    def where(self, node=None):
        n = node if node is not None else self.node
        src = getattr(n, "_src", None)
        if src is not None:
            return f"{src[0]}:{src[1]} {self.qualname}"
        return f"{self.module.relpath}:{getattr(n, 'lineno', '?')} {self.qualname}"

    def __repr__(self):
        return f"<Func {self.fq}>"


class ClassInfo:
    def __init__(self, module, node):
        self.module = module
        self.node = node
        self.name = node.name
        self.methods = {}
        self.base_exprs = node.bases
        self.bases = []  # resolved ClassInfo (repo classes only)
        self.external_bases = []  # dotted names of non-repo bases

    @property
    def fq(self):
        return f"{self.module.name}:{self.name}"

    def mro(self):
        return _c3(self)

    def lookup(self, name, after=None):
        """First definition of method `name` in the MRO (optionally strictly after class `after`)."""
        seen_after = after is None
        for c in self.mro():
            if not seen_after:
                if c is after:
                    seen_after = True
                continue
            if name in c.methods:
                return c.methods[name]
        return None

    def __repr__(self):
        return f"<Class {self.fq}>"


def _c3(cls):
    def merge(seqs):
        res = []
        seqs = [list(s) for s in seqs if s]
        while seqs:
            for s in seqs:
                cand = s[0]
                if not any(cand in t[1:] for t in seqs):
                    break
            else:
                raise AnalysisError(f"inconsistent MRO for {cls.fq}")
            res.append(cand)
            seqs = [[x for x in s if x is not cand] for s in seqs]
            seqs = [s for s in seqs if s]
        return res

    return [cls] + merge([_c3(b) for b in cls.bases] + [list(cls.bases)])


def _forward_target(fn, is_method):
    """`def m(self, a, b=1): [docstring]; return self.t(a, b)` (or `return t(a, b)` at module level) -> 't': a function that does nothing
    but hand its own parameters, in order, to one other function."""
    if fn.decorator_list or not isinstance(fn, ast.FunctionDef):
        return None
    body = list(fn.body)
    if body and isinstance(body[0], ast.Expr) and isinstance(body[0].value, ast.Constant) and isinstance(body[0].value.value, str):
        body = body[1:]
    if len(body) != 1 or not isinstance(body[0], ast.Return) or not isinstance(body[0].value, ast.Call):
        return None
    call = body[0].value
    a = fn.args
    if a.vararg or a.kwarg or a.kwonlyargs or a.posonlyargs or call.keywords:
        return None
    params = [x.arg for x in a.args]
    if is_method:
        if not params or params[0] != "self":
            return None
        f = call.func
        if not (isinstance(f, ast.Attribute) and isinstance(f.value, ast.Name) and f.value.id == "self"):
            return None
        target, params = f.attr, params[1:]
    else:
        if not isinstance(call.func, ast.Name):
            return None
        target = call.func.id
    if [x.id if isinstance(x, ast.Name) else None for x in call.args] != params:
        return None
    return target


def collapse_forwarders(trees):
    """Normalisation applied to the parsed package before anything is analysed: a function that only forwards its parameters to another
    function of the same class / module WHICH NOBODY ELSE REFERS TO is the same program as that function under the forwarder's name
    (what an 'extract the body into _impl' refactoring produces). The pair is folded back: the forwarder gets the body, the target goes."""
    uses = {}
    for t in trees.values():
        for n in ast.walk(t):
            k = n.attr if isinstance(n, ast.Attribute) else (n.id if isinstance(n, ast.Name) else None)
            if k is not None:
                uses[k] = uses.get(k, 0) + 1
    # uses of a name that ARE such forwarding calls (the same method name can be split in several classes of a family)
    fwd = {}
    for t in trees.values():
        for scope, is_method in [(t, False)] + [(n, True) for n in ast.walk(t) if isinstance(n, ast.ClassDef)]:
            for st in scope.body:
                if isinstance(st, ast.FunctionDef):
                    tg = _forward_target(st, is_method)
                    if tg is not None:
                        fwd[tg] = fwd.get(tg, 0) + 1
    uses = {k: v - fwd.get(k, 0) + (1 if fwd.get(k) else 0) for k, v in uses.items()}  # all forwarding uses count as the one allowed use
    for t in trees.values():
        scopes = [(t, False)] + [(n, True) for n in ast.walk(t) if isinstance(n, ast.ClassDef)]
        for scope, is_method in scopes:
            changed = True
            while changed:
                changed = False
                defs = {st.name: st for st in scope.body if isinstance(st, ast.FunctionDef)}
                for name, fn in list(defs.items()):
                    tgt = _forward_target(fn, is_method)
                    if tgt is None or tgt == name or tgt not in defs or uses.get(tgt, 0) != 1:
                        continue
                    target = defs[tgt]
                    if target.decorator_list or ast.dump(target.args) != ast.dump(fn.args):
                        continue
                    doc = fn.body[:-1]
                    tbody = list(target.body)
                    if doc and tbody and isinstance(tbody[0], ast.Expr) and isinstance(tbody[0].value, ast.Constant) and isinstance(tbody[0].value.value, str):
                        tbody = tbody[1:]
                    fn.body = doc + tbody
                    scope.body = [st for st in scope.body if st is not target]
                    changed = True
                    break


class Module:
    def __init__(self, name, path, relpath, source, tree=None):
        self.name = name
        self.path = path
        self.relpath = relpath
        self.source = source
        self.lines = source.splitlines()
        self.tree = tree if tree is not None else ast.parse(source, filename=path)
        self.imports = {}  # local alias -> dotted target ("numpy", "elexmodel.handlers.s3", "elexmodel.x.Y")
        self.functions = {}
        self.classes = {}
        self.constants = {}  # module-level NAME = <expr>  (last assignment wins)
        self.all_functions = []  # incl. methods and nested
        for p in ast.walk(self.tree):
            for c in ast.iter_child_nodes(p):
                c._parent = p
        self._index()

    def _index(self):
        for st in self.tree.body:
            if isinstance(st, ast.Import):
                for a in st.names:
                    self.imports[a.asname or a.name.split(".")[0]] = a.name if a.asname else a.name.split(".")[0]
            elif isinstance(st, ast.ImportFrom):
                base = st.module or ""
                if st.level:
                    parts = self.name.split(".")
                    base = ".".join(parts[: len(parts) - st.level] + ([st.module] if st.module else []))
                for a in st.names:
                    self.imports[a.asname or a.name] = f"{base}.{a.name}"
            elif isinstance(st, (ast.FunctionDef, ast.AsyncFunctionDef)):
                fi = FuncInfo(self, None, st)
                self.functions[st.name] = fi
                self._add_func(fi)
            elif isinstance(st, ast.ClassDef):
                ci = ClassInfo(self, st)
                self.classes[st.name] = ci
                for m in st.body:
                    if isinstance(m, (ast.FunctionDef, ast.AsyncFunctionDef)):
                        fi = FuncInfo(self, ci, m)
                        ci.methods[m.name] = fi
                        self._add_func(fi)
            elif isinstance(st, ast.Assign):
                for t in st.targets:
                    if isinstance(t, ast.Name):
                        self.constants[t.id] = st.value
            elif isinstance(st, ast.AnnAssign) and isinstance(st.target, ast.Name) and st.value is not None:
                self.constants[st.target.id] = st.value

    def _add_func(self, fi):
        self.all_functions.append(fi)
        for n in ast.walk(fi.node):
            if n is fi.node:
                continue
            if isinstance(n, (ast.FunctionDef, ast.AsyncFunctionDef)) and _enclosing_func(n) is fi.node:
                sub = FuncInfo(self, None, n, parent=fi)
                fi.nested[n.name] = sub
                self._add_func(sub)

    def src(self, node):
        try:
            return ast.get_source_segment(self.source, node) or ast.unparse(node)
        except Exception:
            return ast.unparse(node)


def _enclosing_func(n):
    p = getattr(n, "_parent", None)
    while p is not None and not isinstance(p, (ast.FunctionDef, ast.AsyncFunctionDef, ast.Lambda)):
        p = getattr(p, "_parent", None)
    return p


def enclosing_stmt(n):
    while n is not None and not isinstance(n, ast.stmt):
        n = getattr(n, "_parent", None)
    return n


class Repo:
    def __init__(self, root=None):
        self.root = root or os.environ.get("VERIF_REPO", "/repo")
        self.src_root = os.path.join(self.root, "src")
        self.modules = {}
        self.parse_errors = []
        pk = os.path.join(self.src_root, PKG)
        if not os.path.isdir(pk):
            raise AnalysisError(f"package directory {pk} not found")
        parsed = {}
        for dp, dns, fns in os.walk(pk):
            dns[:] = sorted(d for d in dns if d != "__pycache__")
            for fn in sorted(fns):
                if not fn.endswith(".py"):
                    continue
                path = os.path.join(dp, fn)
                rel = os.path.relpath(path, self.root)
                modname = os.path.relpath(path, self.src_root)[:-3].replace(os.sep, ".")
                if modname.endswith(".__init__"):
                    modname = modname[: -len(".__init__")]
                with open(path, encoding="utf-8") as f:
                    src = f.read()
                try:
                    parsed[modname] = (path, rel, src, ast.parse(src, filename=path))
                except SyntaxError as e:
                    raise AnalysisError(f"{rel}: does not parse: {e}")
        collapse_forwarders({k: v[3] for k, v in parsed.items()})
        from .inline import inline_new_helpers, tag_sources, reposition, unroll_object_loops, loops_to_comprehensions
        trees = {k: v[3] for k, v in parsed.items()}
        tag_sources({k: (v[1], v[3]) for k, v in parsed.items()})
        from .inline import continue_guards_to_conditionals, lower_conditional_values, expand_dispatch_dicts
        self.normal_form_errors = []

        def _pass(name, fn):
            # every step of a pass replaces statements by equivalent ones, so a pass that stops half-way (a shape it did not expect) leaves a
            # valid program: the failure is recorded and the remaining passes still run - one odd construct must not take all checks down
            try:
                return fn(trees)
            except Exception as e:  # noqa: BLE001
                self.normal_form_errors.append(f"{name}: {type(e).__name__}: {e}")
                return []
        self.inlined = _pass("inline_new_helpers", inline_new_helpers)  # extracted helpers go back into their callers
        self.unguarded = _pass("continue_guards", continue_guards_to_conditionals)  # `if c: continue` + rest: the conditional block
        self.unrolled = _pass("unroll_object_loops", unroll_object_loops)  # loops over a literal collection of objects: one body per object
        self.comprehended = _pass("loops_to_comprehensions", loops_to_comprehensions)  # list-building loops: the comprehension
        self.dispatched = _pass("expand_dispatch_dicts", expand_dispatch_dicts)  # `if k in D: D[k](..)`: the explicit alternatives
        self.lowered = _pass("lower_conditional_values", lower_conditional_values)  # `return a if c else b`: the if / else statement
        touched = {c.split(":")[0] for _, c, _ in self.inlined} | {c.split(":")[0] for c, _ in self.unrolled + self.comprehended + self.unguarded + self.lowered + self.dispatched}
        for modname, (path, rel, src, tree) in parsed.items():
            if modname in touched or self.normal_form_errors:
                # positions are used to order constructs: give the normalised module consistent ones (the original file and line of
                # every statement stay on the nodes as _src and are what reports print)
                try:
                    src, tree = reposition(tree)
                except Exception as e:  # noqa: BLE001
                    self.normal_form_errors.append(f"reposition {modname}: {type(e).__name__}: {e}")
            self.modules[modname] = Module(modname, path, rel, src, tree)
        self._link()

    # ---- lookup helpers -------------------------------------------------------------------
    def mod(self, name):
        m = self.modules.get(name)
        if m is None:
            raise AnalysisError(f"module {name} not found in {self.src_root}")
        return m

    def cls(self, modname, clsname):
        c = self.mod(modname).classes.get(clsname)
        if c is None:
            raise AnalysisError(f"class {clsname} not found in {modname}")
        return c

    def func(self, modname, qual):
        m = self.mod(modname)
        if "." in qual:
            cn, fn = qual.split(".", 1)
            c = m.classes.get(cn)
            f = c.methods.get(fn) if c else None
        else:
            f = m.functions.get(qual)
        if f is None and "." in qual and c is not None:
            # the method may have been moved up (base class, mixin) - it is still what `self.<name>` of this class runs ..
            for base in c.mro()[1:]:
                if fn in base.methods:
                    f = base.methods[fn]
                    break
        if f is None and "." in qual:
            # .. or out to a module-level function of the same name (a method that did not use self)
            f = m.functions.get(qual.split(".", 1)[1])
        if f is None:
            raise AnalysisError(f"function {qual} not found in {modname} (anchor vanished)")
        return f

    def all_functions(self):
        for m in self.modules.values():
            yield from m.all_functions

    def all_classes(self):
        for m in self.modules.values():
            yield from m.classes.values()

    def subclasses(self, cls):
        return [c for c in self.all_classes() if cls in c.mro() and c is not cls]

    def resolve_dotted(self, dotted):
        """dotted name -> ('module', Module) | ('class', ClassInfo) | ('func', FuncInfo) | ('const', Module, name) | ('ext', dotted)"""
        parts = dotted.split(".")
        for i in range(len(parts), 0, -1):
            mn = ".".join(parts[:i])
            if mn in self.modules:
                m = self.modules[mn]
                rest = parts[i:]
                if not rest:
                    return ("module", m)
                head = rest[0]
                if head in m.classes:
                    c = m.classes[head]
                    if len(rest) == 1:
                        return ("class", c)
                    f = c.lookup(rest[1])
                    if f is not None and len(rest) == 2:
                        return ("func", f)
                    return ("ext", dotted)
                if head in m.functions and len(rest) == 1:
                    return ("func", m.functions[head])
                if head in m.constants and len(rest) == 1:
                    return ("const", m, head)
                if head in m.imports:
                    return self.resolve_dotted(".".join([m.imports[head]] + rest[1:]))
                return ("ext", dotted)
        return ("ext", dotted)

    def resolve_name(self, module, name):
        """Resolve a bare name used in `module`."""
        if name in module.classes:
            return ("class", module.classes[name])
        if name in module.functions:
            return ("func", module.functions[name])
        if name in module.imports:
            return self.resolve_dotted(module.imports[name])
        if name in module.constants:
            return ("const", module, name)
        return None

    def resolve_expr(self, module, expr):
        """Resolve Name / Attribute chains statically (imports, classes, functions)."""
        chain = attr_chain(expr)
        if chain is None:
            return None
        head = self.resolve_name(module, chain[0])
        if head is None:
            return None
        for a in chain[1:]:
            if head[0] == "module":
                m = head[1]
                sub = f"{m.name}.{a}"
                if sub in self.modules:
                    head = ("module", self.modules[sub])
                else:
                    r = self.resolve_name(m, a)
                    if r is None:
                        return ("ext", f"{m.name}.{a}")
                    head = r
            elif head[0] == "class":
                f = head[1].lookup(a)
                if f is None:
                    return None
                head = ("func", f)
            elif head[0] == "ext":
                head = ("ext", head[1] + "." + a)
            else:
                return None
        return head

    def _link(self):
        for c in self.all_classes():
            for b in c.base_exprs:
                r = self.resolve_expr(c.module, b)
                if r and r[0] == "class":
                    c.bases.append(r[1])
                else:
                    ch = attr_chain(b)
                    c.external_bases.append(".".join(ch) if ch else ast.unparse(b))

    def const_value(self, modname, name):
        """Evaluate a module constant made of literals (dict/list/str/num), following `**name` and calls of
        defaultdict(list, **x)."""
        m = self.mod(modname)
        if name not in m.constants:
            raise AnalysisError(f"constant {name} not found in {modname}")
        return self._lit(m, m.constants[name])

    def _lit(self, m, node):
        if isinstance(node, ast.Constant):
            return node.value
        if isinstance(node, (ast.List, ast.Tuple)):
            return [self._lit(m, e) for e in node.elts]
        if isinstance(node, ast.Set):
            return set(self._lit(m, e) for e in node.elts)
        if isinstance(node, ast.Dict):
            out = {}
            for k, v in zip(node.keys, node.values):
                if k is None:
                    out.update(self._lit(m, v))
                else:
                    out[self._lit(m, k)] = self._lit(m, v)
            return out
        if isinstance(node, ast.Name) and node.id in m.constants:
            return self._lit(m, m.constants[node.id])
        if isinstance(node, ast.Call):
            fn = attr_chain(node.func)
            if fn and fn[-1] == "defaultdict":
                out = {}
                for kw in node.keywords:
                    if kw.arg is None:
                        out.update(self._lit(m, kw.value))
                    else:
                        out[kw.arg] = self._lit(m, kw.value)
                return out
            if fn and fn[-1] == "dict" and not node.args:
                return {kw.arg: self._lit(m, kw.value) for kw in node.keywords}
        if isinstance(node, ast.UnaryOp) and isinstance(node.op, ast.USub):
            return -self._lit(m, node.operand)
        raise AnalysisError(f"{m.relpath}:{getattr(node, 'lineno', '?')}: constant expression not literal: {ast.unparse(node)}")


def attr_chain(expr):
    out = []
    while isinstance(expr, ast.Attribute):
        out.append(expr.attr)
        expr = expr.value
    if isinstance(expr, ast.Name):
        out.append(expr.id)
        return list(reversed(out))
    return None


def site_packages():
    for p in sys.path:
        if p.endswith("site-packages") and os.path.isdir(p):
            return p
    return None


def external_signature(dotted_module, clsname, fname):
    """Read a third-party signature from installed *source* (no import)."""
    sp = site_packages()
    if sp is None:
        raise AnalysisError("site-packages not found")
    path = os.path.join(sp, *dotted_module.split(".")) + ".py"
    if not os.path.isfile(path):
        raise AnalysisError(f"source of {dotted_module} not readable at {path}")
    tree = ast.parse(open(path, encoding="utf-8").read())
    for st in tree.body:
        if isinstance(st, ast.ClassDef) and st.name == clsname:
            for m in st.body:
                if isinstance(m, ast.FunctionDef) and m.name == fname:
                    a = m.args
                    pos = [x.arg for x in a.posonlyargs + a.args]
                    dflt = {}
                    for p, d in zip(pos[len(pos) - len(a.defaults):], a.defaults):
                        dflt[p] = d
                    return {
                        "params": pos,
                        "kwonly": [x.arg for x in a.kwonlyargs],
                        "varkw": a.kwarg is not None,
                        "vararg": a.vararg is not None,
                        "defaults": dflt,
                        "path": path,
                        "line": m.lineno,
                    }
    raise AnalysisError(f"{clsname}.{fname} not found in {path}")
