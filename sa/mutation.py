"""Caller-owned objects: which parameters does a function mutate in place (directly or through callees)?

Uses the def-use IR: after forward substitution a mutation of an alias of parameter p shows up as a
('setitem' | 'setattr' | 'mut', obj, ..) term whose root object is ('param', p). Aliasing through assignment is
therefore exact per path; aliasing through calls uses per-function summaries (mutated params, returned aliases),
iterated to a fixpoint over the resolved call graph.
"""
from __future__ import annotations

import ast

from . import ir
from .model import FuncInfo

WRAP = ("setitem", "setattr", "mut")


class Mutation:
    def __init__(self, ctx):
        self.ctx = ctx
        self.b = ctx.builder()
        self._sum = {}
        self.mut = {}  # FuncInfo -> {param: [(where, why)]}
        self.ret_alias = {}  # FuncInfo -> {param: set of tuple positions (None = whole)}
        self._computing = set()

    def summary(self, f):
        if f not in self._sum:
            self._sum[f] = self.b.summarize(f)
        return self._sum[f]

    # ---------------------------------------------------------------------------------------
    def roots(self, t, f, depth=0):
        """Parameters of f whose object identity term t may carry (following in-place wrappers, phis, calls that
        return an alias of an argument)."""
        out = set()
        if depth > 12 or not isinstance(t, tuple):
            return out
        k = t[0]
        if k == "param":
            out.add(t[1])
        elif k in WRAP:
            out |= self.roots(t[1], f, depth + 1)
        elif k == "phi":
            c, a, b = t[1], t[2], t[3]
            # nullness refinement: in the branch where x is None, x is not an object that can be mutated
            none = ("const", None)
            if c[0] == "cmp" and c[3] == none and c[1] == "is not" and b == c[2]:
                out |= self.roots(a, f, depth + 1)
            elif c[0] == "cmp" and c[3] == none and c[1] == "is" and a == c[2]:
                out |= self.roots(b, f, depth + 1)
            else:
                out |= self.roots(a, f, depth + 1) | self.roots(b, f, depth + 1)
        elif k == "ifexp":
            out |= self.roots(t[2], f, depth + 1) | self.roots(t[3], f, depth + 1)
        elif k == "loopout":
            out |= self.roots(t[3], f, depth + 1) | self.roots(t[4], f, depth + 1)
        elif k == "loopin":
            if t[3] is not None:
                out |= self.roots(t[3], f, depth + 1)
        elif k == "sub" and t[1][0] == "call" and t[2][0] == "const" and isinstance(t[2][1], int):
            out |= self._call_roots(t[1], f, t[2][1], depth)
        elif k == "call":
            out |= self._call_roots(t, f, None, depth)
        return out

    def _call_roots(self, call, f, pos, depth):
        out = set()
        for g, binding in self.callees(call, f):
            ra = self.returns_alias(g)
            for q, positions in ra.items():
                if pos in positions or None in positions and pos is None:
                    a = binding.get(q)
                    if a is not None:
                        out |= self.roots(a, f, depth + 1)
        return out

    def callees(self, call, f):
        """Resolved repo callees of a call term (via the AST node it was built from) with parameter bindings."""
        loc = self.b.loc.get(call)
        if loc is None or not isinstance(loc[1], ast.Call):
            return []
        func, node = loc
        out = []
        for g in self.ctx.resolver.resolve_call(func, node):
            if not isinstance(g, FuncInfo):
                continue
            target = g
            method = g.cls is not None and g.params[:1] in (["self"], ["cls"])
            bind = ir.bind_args(target, call[2], call[3], method=method)
            if bind is None:
                bind = {}
            if method and call[1][0] == "attr":
                bind[g.params[0]] = call[1][1]
            out.append((g, bind))
        return out

    def returns_alias(self, f):
        if f in self.ret_alias:
            return self.ret_alias[f]
        self.ret_alias[f] = {}
        if f in self._computing:
            return {}
        self._computing.add(f)
        s = self.summary(f)
        res = {}
        for pc, t, n in s.returns:
            if t[0] == "tuple":
                for i, e in enumerate(t[1]):
                    for p in self.roots(e, f):
                        res.setdefault(p, set()).add(i)
            else:
                for p in self.roots(t, f):
                    res.setdefault(p, set()).add(None)
        self._computing.discard(f)
        self.ret_alias[f] = res
        return res

    def mutated(self, f):
        """{param: [(where, description)]} for parameters f mutates in place."""
        if f in self.mut:
            return self.mut[f]
        self.mut[f] = {}
        s = self.summary(f)
        res = {}
        terms = [t for _, _, t, _ in s.assigns] + [t for _, t, _ in s.returns] + [t for _, t, _ in s.effects]
        seen = set()
        for top in terms:
            for t in ir.walk(top):
                if t in seen:
                    continue
                seen.add(t)
                if t[0] in WRAP:
                    for p in self.roots(t[1], f):
                        loc = self.b.loc.get(t)
                        where = loc[0].where(loc[1]) if loc else f.where()
                        what = {"setitem": "item/column assignment", "setattr": "attribute / .loc assignment",
                                "mut": f"in-place method .{t[2]}()" if t[0] == "mut" else ""}[t[0]]
                        res.setdefault(p, []).append((where, f"{what}: {ir.show(t, maxdepth=3)[:120]}", t))
                elif t[0] == "call":
                    for g, bind in self.callees(t, f):
                        if g is f:
                            continue
                        gm = self.mutated(g)
                        for q, why in gm.items():
                            a = bind.get(q)
                            if a is None:
                                continue
                            for p in self.roots(a, f):
                                loc = self.b.loc.get(t)
                                where = loc[0].where(loc[1]) if loc else f.where()
                                for w in why:
                                    res.setdefault(p, []).append((where, f"passed to {g.qualname}({q}) which mutates it: {w[1]} at {w[0]}", w[2]))
        self.mut[f] = res
        return res
