"""E8 - finite abstract domains for the call logic.

(1) value-set mode: element-wise evaluation of numpy-style expressions over *sets* of tagged scalars
    ('b', bool) / ('i', int) / ('f', float) with '?' = unknown; relational atoms are fixed by an environment and the
    caller enumerates all their assignments (complete finite table).
(2) region mode (class Regions): a real value is abstracted to its position relative to a finite, sorted set of
    constants (e.g. -0.005, 0, +0.005): open intervals and the points themselves. Comparisons against the constants
    are exact on this domain; element-wise np.where / np.maximum / np.minimum / masks are interpreted per element.
"""
from __future__ import annotations

from fractions import Fraction

from . import ir
from .model import AnalysisError

TOP = "?"
IDENT_METHODS = {"flatten", "reshape", "copy", "ravel", "squeeze", "to_numpy"}
IDENT_ATTRS = {"T", "values"}


def B(x):
    return ("b", bool(x))


def I(x):  # noqa: E743
    return ("i", int(x))


def _num(v):
    return int(v[1]) if v[0] in ("b", "i") else v[1]


class ValueSets:
    def __init__(self, env=None, builder=None):
        self.env = env or {}
        self.builder = builder

    def ev(self, t):
        """-> frozenset of tagged scalars, or TOP"""
        if t in self.env:
            v = self.env[t]
            return v if isinstance(v, frozenset) or v == TOP else frozenset([v])
        k = t[0]
        if k == "const":
            v = t[1]
            if isinstance(v, bool):
                return frozenset([B(v)])
            if isinstance(v, int):
                return frozenset([I(v)])
            if isinstance(v, float):
                return frozenset([("f", v)])
            if v is None:
                return frozenset([("n", None)])
            return TOP
        if k == "cmp":
            a, b = self.ev(t[2]), self.ev(t[3])
            if t[1] in ("is", "is not") and t[3] == ("const", None):
                key = ("isnone", t[2])
                if key in self.env:
                    isn = self.env[key]
                    return frozenset([B(isn if t[1] == "is" else not isn)])
                return frozenset([B(True), B(False)])
            if a == TOP or b == TOP:
                return frozenset([B(True), B(False)])
            out = set()
            for x in a:
                for y in b:
                    xv, yv = _num(x), _num(y)
                    out.add(B({"<": xv < yv, ">": xv > yv, "<=": xv <= yv, ">=": xv >= yv, "==": xv == yv, "!=": xv != yv}[t[1]]))
            return frozenset(out)
        if k == "bin":
            a, b = self.ev(t[2]), self.ev(t[3])
            if a == TOP or b == TOP:
                return TOP
            out = set()
            for x in a:
                for y in b:
                    if t[1] in ("&", "|", "^") and x[0] == "b" and y[0] == "b":
                        out.add(B({"&": x[1] and y[1], "|": x[1] or y[1], "^": x[1] != y[1]}[t[1]]))
                    elif t[1] in ("+", "-", "*"):
                        xv, yv = _num(x), _num(y)
                        r = {"+": xv + yv, "-": xv - yv, "*": xv * yv}[t[1]]
                        out.add(("f", r) if isinstance(r, float) else I(r))
                    elif t[1] in ("&", "|", "^"):
                        xv, yv = _num(x), _num(y)
                        if not isinstance(xv, int) or not isinstance(yv, int):
                            return TOP  # e.g. a None that an `x if .. else None` lets through: unknown, not a crash
                        out.add(I({"&": xv & yv, "|": xv | yv, "^": xv ^ yv}[t[1]]))
                    else:
                        return TOP
            return frozenset(out)
        if k == "un":
            a = self.ev(t[2])
            if a == TOP:
                return TOP
            out = set()
            for x in a:
                if t[1] in ("~", "not") and x[0] == "b":
                    out.add(B(not x[1]))
                elif t[1] == "~" and x[0] == "i":
                    out.add(I(-x[1] - 1))
                elif t[1] == "-" and x[0] in ("i", "b"):
                    out.add(I(-_num(x)))
                elif t[1] == "not":
                    out.add(B(not _num(x)))
                else:
                    return TOP
            return frozenset(out)
        if k == "attr":
            if t[2] in IDENT_ATTRS:
                return self.ev(t[1])
            return TOP
        if k == "sub":
            return self.ev(t[1])
        if k == "call":
            f = t[1]
            if f[0] == "attr":
                if f[2] in IDENT_METHODS:
                    return self.ev(f[1])
                if f[2] == "astype" and t[2]:
                    a = self.ev(f[1])
                    to = t[2][0]
                    if a == TOP:
                        if to == ("global", "bool"):
                            return frozenset([B(True), B(False)])
                        return TOP
                    if to == ("global", "int"):
                        return frozenset(I(_num(x)) for x in a)
                    if to == ("global", "bool"):
                        return frozenset(B(bool(_num(x))) for x in a)
                    return TOP
            if f[0] == "global" and f[1].endswith("isclose") and len(t[2]) >= 2:
                a, b = self.ev(t[2][0]), self.ev(t[2][1])
                if a == TOP or b == TOP:
                    return frozenset([B(True), B(False)])
                return frozenset(B(_num(x) == _num(y)) for x in a for y in b)
            if f[0] == "global" and f[1].endswith("where") and len(t[2]) == 3:
                c, a, b = (self.ev(x) for x in t[2])
                return self._choose(c, a, b)
            return TOP
        if k == "phi" or k == "ifexp":
            c = self.ev(t[1])
            a, b = self.ev(t[2]), self.ev(t[3])
            return self._choose(c, a, b)
        if k == "setitem":
            obj, mask, val = self.ev(t[1]), self.ev(t[2]), self.ev(t[3])
            return self._choose(mask, val, obj)
        if k == "bool":
            vals = [self.ev(x) for x in t[2]]
            if any(v == TOP for v in vals):
                return frozenset([B(True), B(False)])
            out = set()

            def rec(i, acc):
                if i == len(vals):
                    out.add(B(acc))
                    return
                for x in vals[i]:
                    xv = bool(_num(x))
                    rec(i + 1, (acc and xv) if t[1] == "and" else (acc or xv))

            rec(0, t[1] == "and")
            return frozenset(out)
        return TOP

    def _choose(self, c, a, b):
        if c == TOP:
            ct = {True, False}
        else:
            ct = {bool(_num(x)) for x in c}
        if ct == {True}:
            return a
        if ct == {False}:
            return b
        if a == TOP or b == TOP:
            return TOP
        return a | b


# ---------------------------------------------------------------------------------------------
class Regions:
    """Abstraction of a real number relative to sorted constants c_1 < .. < c_k:
    regions 0..2k: (−inf,c1) {c1} (c1,c2) {c2} .. {ck} (ck,+inf). Even index = open interval, odd = point."""

    def __init__(self, consts):
        self.c = sorted(set(Fraction(str(x)) for x in consts))
        self.n = 2 * len(self.c) + 1

    def of_const(self, v):
        v = Fraction(str(v))
        for i, c in enumerate(self.c):
            if v == c:
                return 2 * i + 1
            if v < c:
                return 2 * i
        return 2 * len(self.c)

    def name(self, r):
        k = len(self.c)
        if r % 2 == 1:
            return "{" + str(float(self.c[r // 2])) + "}"
        lo = "-inf" if r == 0 else str(float(self.c[r // 2 - 1]))
        hi = "+inf" if r == 2 * k else str(float(self.c[r // 2]))
        return f"({lo},{hi})"

    def cmp_const(self, r, op, v):
        """truth of  x op v  for every x in region r (v must be one of the constants): True / False"""
        rv = self.of_const(v)
        if rv % 2 == 0:
            raise AnalysisError(f"comparison against {v} which is not a boundary constant of the region domain")
        if op == "<":
            return r < rv
        if op == "<=":
            return r <= rv
        if op == ">":
            return r > rv
        if op == ">=":
            return r >= rv
        if op == "==":
            return r == rv
        if op == "!=":
            return r != rv
        raise AnalysisError(f"operator {op}")

    def max_const(self, r, v):
        """region of max(x, v) for x in r, v a boundary constant"""
        rv = self.of_const(v)
        return max(r, rv)

    def min_const(self, r, v):
        rv = self.of_const(v)
        return min(r, rv)

    def all_regions(self):
        return list(range(self.n))


class RegionEval:
    """Element-wise evaluation of a term for ONE abstract element: real-valued sub-terms evaluate to a region index,
    boolean ones to bool, small integers (call codes) to int. `env` maps atom terms to ('r', region) / ('b', bool) /
    ('i', int). Anything not understood raises AnalysisError (never a guess)."""

    def __init__(self, regions, env, fold=None):
        self.R = regions
        self.env = env
        self.fold = fold or (lambda t: None)

    def ev(self, t):
        if t in self.env:
            return self.env[t]
        f = self.fold(t)
        if f is not None:
            return self.ev(f)
        k = t[0]
        if k == "const":
            v = t[1]
            if isinstance(v, bool):
                return ("b", v)
            if isinstance(v, (int, float)):
                return ("c", v)  # a constant: region decided on use
            raise AnalysisError(f"constant {v!r} in call logic")
        if k == "attr" and t[2] in IDENT_ATTRS:
            return self.ev(t[1])
        if k == "sub":
            # x[mask] / x[idx]: element-wise view of the same element
            return self.ev(t[1])
        if k == "call":
            f = t[1]
            if f[0] == "attr" and f[2] in IDENT_METHODS:
                return self.ev(f[1])
            name = f[1].split(".")[-1] if f[0] == "global" else (f[2] if f[0] == "attr" else None)
            if name == "where" and len(t[2]) == 3:
                c = self.ev(t[2][0])
                if c[0] != "b":
                    raise AnalysisError("np.where condition is not boolean")
                return self._val(self.ev(t[2][1] if c[1] else t[2][2]))
            if name in ("maximum", "minimum") and len(t[2]) == 2:
                a, b = self._val(self.ev(t[2][0])), self._val(self.ev(t[2][1]))
                # exact only if one side is a boundary point
                if a[1] % 2 == 1 or b[1] % 2 == 1 or a[1] != b[1]:
                    return ("r", max(a[1], b[1]) if name == "maximum" else min(a[1], b[1]))
                return a
            if name == "clip" and len(t[2]) == 3 and t[2][1][0] == "const" and t[2][2][0] == "const" \
                    and isinstance(t[2][1][1], (int, float)) and isinstance(t[2][2][1], (int, float)):
                # clipping to limits that lie strictly outside all boundary constants keeps every region where it is
                lo_, hi_ = self.R.of_const(t[2][1][1]), self.R.of_const(t[2][2][1])
                if lo_ == 0 and hi_ == self.R.n - 1:
                    return self._val(self.ev(t[2][0]))
                raise AnalysisError("np.clip limits inside the region domain")
            if name == "isclose" and len(t[2]) >= 2:
                a, b = self.ev(t[2][0]), self.ev(t[2][1])
                if a[0] == "i" and b[0] == "c":
                    return ("b", a[1] == b[1])
                raise AnalysisError("np.isclose on values outside the call-code domain")
            raise AnalysisError(f"call {ir.show(t, maxdepth=2)} not interpretable in the region domain")
        if k == "cmp":
            a, b = self.ev(t[2]), self.ev(t[3])
            op = t[1]
            if a[0] == "c" and b[0] == "r":
                a, b = b, a
                op = {"<": ">", ">": "<", "<=": ">=", ">=": "<=", "==": "==", "!=": "!="}[op]
            if a[0] == "r" and b[0] == "c":
                return ("b", self.R.cmp_const(a[1], op, b[1]))
            if a[0] == "i" and b[0] == "c":
                return ("b", {"<": a[1] < b[1], ">": a[1] > b[1], "==": a[1] == b[1], "!=": a[1] != b[1],
                              "<=": a[1] <= b[1], ">=": a[1] >= b[1]}[op])
            raise AnalysisError(f"comparison {ir.show(t, maxdepth=3)} not decidable on the region domain")
        if k == "bin" and t[1] in ("&", "|"):
            a, b = self.ev(t[2]), self.ev(t[3])
            if a[0] == "b" and b[0] == "b":
                return ("b", (a[1] and b[1]) if t[1] == "&" else (a[1] or b[1]))
            raise AnalysisError("& / | on non-boolean values")
        if k == "un" and t[1] in ("~", "not"):
            a = self.ev(t[2])
            if a[0] == "b":
                return ("b", not a[1])
            raise AnalysisError("~ on a non-boolean value")
        if k == "setitem":
            # x[mask] = v   (element-wise)
            m = self.ev(t[2])
            if m[0] != "b":
                raise AnalysisError("mask assignment with a non-boolean mask")
            return self._val(self.ev(t[3] if m[1] else t[1]))
        if k == "phi":
            c = self.ev(t[1])
            if c[0] != "b":
                raise AnalysisError("branch condition not boolean")
            return self.ev(t[2] if c[1] else t[3])
        raise AnalysisError(f"term {ir.show(t, maxdepth=3)} not interpretable in the region domain")

    def _val(self, v):
        if v[0] == "c":
            return ("r", self.R.of_const(v[1]))
        return v
