"""E2 - call resolution and call graph.

Types are ('cls', ClassInfo) for repo classes and ('ext', dotted) for third-party classes. Receivers are typed by
local construction (`qr = QuantileRegressionSolver()`), by attribute initialisation (`self.featurizer = Featurizer(..)`),
by constructor-argument propagation (`ConfigHandler(.., s3_client=s3.S3JsonUtil(..))` -> `self.s3_client`),
by parameter annotation, and `self` by the class under analysis (MRO lookup + overriding subclasses).
"""
from __future__ import annotations

import ast

from .model import ClassInfo, FuncInfo, attr_chain


class Resolver:
    def __init__(self, repo):
        self.repo = repo
        self.attr_types = {}  # (ClassInfo, attr) -> set of types
        self.param_types = {}  # (FuncInfo, param) -> set of types (from call sites of constructors / annotations)
        self._local_cache = {}
        self.unresolved = []  # (FuncInfo, ast.Call, reason)
        self._infer()

    # ---------------------------------------------------------------------------------------
    def _ctor_type(self, module, call):
        """Type constructed by a Call expression, if its callee is a class."""
        if not isinstance(call, ast.Call):
            return None
        r = self.repo.resolve_expr(module, call.func)
        if r is None:
            return None
        if r[0] == "class":
            return ("cls", r[1])
        if r[0] == "ext":
            last = r[1].split(".")[-1]
            if last[:1].isupper():
                return ("ext", r[1])
        return None

    def _ann_type(self, module, ann):
        if ann is None:
            return None
        if isinstance(ann, ast.Constant) and isinstance(ann.value, str):
            try:
                ann = ast.parse(ann.value, mode="eval").body
            except SyntaxError:
                return None
        r = self.repo.resolve_expr(module, ann)
        if r is None:
            return None
        if r[0] == "class":
            return ("cls", r[1])
        if r[0] == "ext" and r[1].split(".")[-1][:1].isupper():
            return ("ext", r[1])
        return None

    def _infer(self):
        repo = self.repo
        # annotations
        for f in repo.all_functions():
            a = f.node.args
            for p in a.posonlyargs + a.args + a.kwonlyargs:
                t = self._ann_type(f.module, p.annotation)
                if t is not None:
                    self.param_types.setdefault((f, p.arg), set()).add(t)
        # iterate to a fixpoint: constructor args -> param types -> attribute types -> local types
        for _ in range(4):
            self._local_cache.clear()
            changed = False
            for f in repo.all_functions():
                for call in _calls(f.node):
                    ct = self._ctor_type(f.module, call)
                    if ct is None or ct[0] != "cls":
                        continue
                    init = ct[1].lookup("__init__")
                    if init is None:
                        continue
                    params = init.params[1:]
                    pairs = list(zip(params, call.args)) + [(k.arg, k.value) for k in call.keywords if k.arg]
                    for p, argexpr in pairs:
                        for t in self.types_of(f, argexpr):
                            s = self.param_types.setdefault((init, p), set())
                            if t not in s:
                                s.add(t)
                                changed = True
            for f in repo.all_functions():
                if f.cls is None:
                    continue
                for n in ast.walk(f.node):
                    if isinstance(n, ast.Assign):
                        for tg in n.targets:
                            if (isinstance(tg, ast.Attribute) and isinstance(tg.value, ast.Name) and tg.value.id == "self"):
                                for t in self.types_of(f, n.value):
                                    s = self.attr_types.setdefault((f.cls, tg.attr), set())
                                    if t not in s:
                                        s.add(t)
                                        changed = True
            if not changed:
                break
        self._local_cache.clear()

    # ---------------------------------------------------------------------------------------
    def local_types(self, f):
        if f in self._local_cache:
            return self._local_cache[f]
        out = {}
        self._local_cache[f] = out
        for (ff, p), ts in self.param_types.items():
            if ff is f:
                out.setdefault(p, set()).update(ts)
        for n in ast.walk(f.node):
            if isinstance(n, ast.Assign) and len(n.targets) == 1 and isinstance(n.targets[0], ast.Name):
                for t in self.types_of(f, n.value, _locals=out):
                    out.setdefault(n.targets[0].id, set()).add(t)
            elif isinstance(n, ast.With):
                pass
        return out

    def types_of(self, f, expr, self_cls=None, _locals=None):
        """Set of types an expression may have (empty = unknown)."""
        if isinstance(expr, ast.Call):
            ct = self._ctor_type(f.module, expr)
            if ct is not None:
                return {ct}
            # method returning self-typed values are not tracked
            return set()
        if isinstance(expr, ast.Name):
            if expr.id == "self" and (f.cls or (f.parent and f.parent.cls)):
                return {("cls", self_cls or f.cls or f.parent.cls)}
            loc = _locals if _locals is not None else self.local_types(f)
            return set(loc.get(expr.id, ()))
        if isinstance(expr, ast.Attribute):
            base = self.types_of(f, expr.value, self_cls, _locals)
            out = set()
            for t in base:
                if t[0] == "cls":
                    for c in t[1].mro():
                        out |= self.attr_types.get((c, expr.attr), set())
                    for c in self.repo.subclasses(t[1]):
                        out |= self.attr_types.get((c, expr.attr), set())
            return out
        if isinstance(expr, ast.IfExp):
            return self.types_of(f, expr.body, self_cls, _locals) | self.types_of(f, expr.orelse, self_cls, _locals)
        return set()

    # ---------------------------------------------------------------------------------------
    def resolve_call(self, f, call, self_cls=None):
        """-> list of FuncInfo (repo callees) and ('ext', dotted) entries. Empty list = unresolved."""
        fn = call.func
        repo = self.repo
        owner = f.cls or (f.parent.cls if f.parent else None)
        # super().m(..)
        if (isinstance(fn, ast.Attribute) and isinstance(fn.value, ast.Call) and isinstance(fn.value.func, ast.Name)
                and fn.value.func.id == "super"):
            base = self_cls or owner
            if base is None or owner is None:
                return []
            m = base.lookup(fn.attr, after=owner)
            return [m] if m else [("ext", f"super.{fn.attr}")]
        if isinstance(fn, ast.Name):
            # nested def?
            g = f
            while g is not None:
                if fn.id in g.nested:
                    return [g.nested[fn.id]]
                g = g.parent
            r = repo.resolve_name(f.module, fn.id)
            return self._from_resolved(r)
        if isinstance(fn, ast.Attribute):
            # self.m(..)
            if isinstance(fn.value, ast.Name) and fn.value.id == "self" and owner is not None:
                base = self_cls or owner
                out = []
                m = base.lookup(fn.attr)
                if m is not None:
                    out.append(m)
                for c in repo.subclasses(base):
                    if fn.attr in c.methods and c.methods[fn.attr] not in out:
                        out.append(c.methods[fn.attr])
                if out:
                    return out
                # attribute holding a callable? unknown
                return []
            # module / class attribute chains
            r = repo.resolve_expr(f.module, fn)
            if r is not None and r[0] in ("func", "class"):
                return self._from_resolved(r)
            # typed receiver
            ts = self.types_of(f, fn.value, self_cls)
            out = []
            for t in ts:
                if t[0] == "cls":
                    m = t[1].lookup(fn.attr)
                    if m is not None and m not in out:
                        out.append(m)
                else:
                    e = ("ext", f"{t[1]}.{fn.attr}")
                    if e not in out:
                        out.append(e)
            if out:
                return out
            if r is not None and r[0] == "ext":
                return [("ext", r[1])]
            ch = attr_chain(fn)
            if ch is not None and ch[0] not in _local_names(f):
                return [("ext", ".".join(ch))]
            return []
        if (isinstance(fn, ast.Subscript) and isinstance(fn.value, ast.Call) and isinstance(fn.value.func, ast.Name)
                and fn.value.func.id == "globals"):
            # globals()[name](..): any module-level function of this module with a matching arity
            n = len(call.args)
            return [g for g in f.module.functions.values() if len(g.params) == n]
        return []

    def _from_resolved(self, r):
        if r is None:
            return []
        if r[0] == "func":
            return [r[1]]
        if r[0] == "class":
            init = r[1].lookup("__init__")
            return [init] if init else [("ext", r[1].fq + ".__init__")]
        if r[0] == "ext":
            return [("ext", r[1])]
        return []


def _calls(node):
    for n in ast.walk(node):
        if isinstance(n, ast.Call):
            yield n


def _local_names(f):
    out = set(f.params) | set(f.kwonly)
    for n in ast.walk(f.node):
        if isinstance(n, ast.Name) and isinstance(n.ctx, ast.Store):
            out.add(n.id)
    return out


class CallGraph:
    def __init__(self, repo, resolver=None):
        self.repo = repo
        self.res = resolver or Resolver(repo)
        self.edges = {}  # FuncInfo -> list of (ast.Call, callee)
        self.unresolved = []
        for f in repo.all_functions():
            lst = []
            for call in _own_calls(f):
                cs = self.res.resolve_call(f, call)
                if not cs:
                    self.unresolved.append((f, call))
                for c in cs:
                    lst.append((call, c))
            # nested defs and lambdas execute in the context of f: count as edges f -> nested
            for sub in f.nested.values():
                lst.append((sub.node, sub))
            self.edges[f] = lst

    def callees(self, f):
        return [c for _, c in self.edges.get(f, []) if isinstance(c, FuncInfo)]

    def reachable(self, roots):
        seen = []
        stack = list(roots)
        while stack:
            f = stack.pop()
            if f in seen:
                continue
            seen.append(f)
            stack.extend(self.callees(f))
        return seen

    def callers_of(self, target):
        out = []
        for f, lst in self.edges.items():
            for call, c in lst:
                if c is target:
                    out.append((f, call))
        return out

    def ext_calls(self, f):
        return [(call, c[1]) for call, c in self.edges.get(f, []) if not isinstance(c, FuncInfo)]

    def paths(self, root, target, limit=200):
        """All acyclic call paths root -> target as lists of (caller, call node)."""
        out = []

        def dfs(f, path, seen):
            if len(out) >= limit:
                return
            for call, c in self.edges.get(f, []):
                if not isinstance(c, FuncInfo):
                    continue
                if c is target:
                    out.append(path + [(f, call)])
                elif c not in seen:
                    dfs(c, path + [(f, call)], seen | {c})

        dfs(root, [], {root})
        return out


def _own_calls(f):
    """Call nodes lexically in f but not inside nested defs (lambdas are included: they run in f's context)."""
    out = []

    def rec(n):
        for c in ast.iter_child_nodes(n):
            if isinstance(c, (ast.FunctionDef, ast.AsyncFunctionDef, ast.ClassDef)):
                continue
            if isinstance(c, ast.Call):
                out.append(c)
            rec(c)

    rec(f.node)
    return out
