"""E6 - propositional row-set checker.

Converts frame-valued def-use terms (pandas row filters, key-set differences, concat, drop_duplicates ..) into a boolean
formula "unit u is a row of this frame" over per-unit atoms, and decides claims by COMPLETE truth table.

Formula: ('t',) ('f',) ('var', name) ('rel', key, frozenset(of 'lt','eq','gt')) ('not', x) ('and', xs) ('or', xs) ('ite', c, a, b)
Variables: booleans by name; relations key -> one of lt / eq / gt  (a comparison `col op rhs` is exact on this domain, so
`>=` and `<` are recognised as complementary on values that are present while `>` and `<` leave the equality case uncovered).
A column value can also be MISSING: one boolean `na:<column>` per compared column; every comparison except `!=` is False on such
a row (see `compare`), so `>=` and `<` together do NOT cover it whereas `>=` and `~(>=)` do; `.isna()` / `.notna()` read the
same boolean.
"""
from __future__ import annotations

import itertools

from . import ir
from .model import AnalysisError

T = ("t",)
F = ("f",)
KEY = "geographic_unit_fips"
ROW_PRESERVING = {"reset_index", "copy", "drop_duplicates", "sort_values", "astype", "rename", "assign", "fillna", "drop"}


def Not(x):
    if x == T:
        return F
    if x == F:
        return T
    if x[0] == "not":
        return x[1]
    return ("not", x)


def And(*xs):
    out = []
    for x in xs:
        if x == F:
            return F
        if x == T:
            continue
        if x[0] == "and":
            out.extend(x[1])
        else:
            out.append(x)
    if not out:
        return T
    return out[0] if len(out) == 1 else ("and", tuple(out))


def Or(*xs):
    out = []
    for x in xs:
        if x == T:
            return T
        if x == F:
            continue
        if x[0] == "or":
            out.extend(x[1])
        else:
            out.append(x)
    if not out:
        return F
    return out[0] if len(out) == 1 else ("or", tuple(out))


def Ite(c, a, b):
    if a == b:
        return a
    if c == T:
        return a
    if c == F:
        return b
    return ("ite", c, a, b)


def ev(f, asg):
    k = f[0]
    if k == "t":
        return True
    if k == "f":
        return False
    if k == "var":
        return asg[f[1]]
    if k == "rel":
        return asg[f[1]] in f[2]
    if k == "not":
        return not ev(f[1], asg)
    if k == "and":
        return all(ev(x, asg) for x in f[1])
    if k == "or":
        return any(ev(x, asg) for x in f[1])
    if k == "ite":
        return ev(f[2], asg) if ev(f[1], asg) else ev(f[3], asg)
    raise AnalysisError(f"bad formula {f!r}")


def compile_formula(f):
    """formula -> python function(asg) (much faster than the tree walk for big tables)"""
    names = {}

    def ref(k):
        if k not in names:
            names[k] = f"v{len(names)}"
        return names[k]

    def gen(f):
        k = f[0]
        if k == "t":
            return "True"
        if k == "f":
            return "False"
        if k == "var":
            return ref(f[1])
        if k == "rel":
            return "(" + ref(f[1]) + " in " + repr(tuple(sorted(f[2]))) + ")"
        if k == "not":
            return "(not " + gen(f[1]) + ")"
        if k == "and":
            return "(" + " and ".join(gen(x) for x in f[1]) + ")"
        if k == "or":
            return "(" + " or ".join(gen(x) for x in f[1]) + ")"
        if k == "ite":
            return "(" + gen(f[2]) + " if " + gen(f[1]) + " else " + gen(f[3]) + ")"
        raise AnalysisError(f"bad formula {f!r}")

    body = gen(f)
    keys = list(names)
    src = "lambda a: (lambda " + ", ".join(names[k] for k in keys) + ": " + body + ")(" + ", ".join(f"a[K[{i}]]" for i in range(len(keys))) + ")"
    if not keys:
        src = "lambda a: " + body
    return eval(src, {"K": keys})


def variables(*fs):
    bools, rels = [], []
    seen = set()

    def rec(f):
        if f[0] == "var" and f[1] not in seen:
            seen.add(f[1])
            bools.append(f[1])
        elif f[0] == "rel" and f[1] not in seen:
            seen.add(f[1])
            rels.append(f[1])
        elif f[0] == "not":
            rec(f[1])
        elif f[0] in ("and", "or"):
            for x in f[1]:
                rec(x)
        elif f[0] == "ite":
            rec(f[1]); rec(f[2]); rec(f[3])  # noqa: E702

    for f in fs:
        rec(f)
    return bools, rels


# domain facts between source-membership atoms (a => b): rows violating them cannot occur and are not enumerated.
# inData => inBaseline: CombinedDataHandler.data is a LEFT join of the preprocessed (baseline) data with the feed, possibly with
# rows dropped afterwards, so every row of .data is a baseline unit (the converse does not hold under the "drop" policy).
IMPLICATIONS = [("inData", "inBaseline")]


def assignments(bools, rels):
    for bv in itertools.product([False, True], repeat=len(bools)):
        base = dict(zip(bools, bv))
        if any(base.get(a) is True and base.get(b) is False for a, b in IMPLICATIONS):
            continue
        for rv in itertools.product(["lt", "eq", "gt"], repeat=len(rels)):
            a = dict(base)
            a.update(zip(rels, rv))
            yield a


def show_asg(a):
    return ", ".join(f"{k}={v}" for k, v in sorted(a.items(), key=lambda kv: str(kv[0])) if v not in (False,))


OPS = {"<": {"lt"}, "<=": {"lt", "eq"}, ">": {"gt"}, ">=": {"gt", "eq"}, "==": {"eq"}, "!=": {"lt", "gt"}}
FLIP = {"<": ">", ">": "<", "<=": ">=", ">=": "<=", "==": "==", "!=": "!="}


def compare(col, rhs, vals, ne=False, never_missing=()):
    """formula of `col <op> rhs` where `vals` is the set of lt/eq/gt on which it is true: false on a missing value, except
    for `!=` (ne=True), which pandas/numpy evaluate to True when the value is missing. Columns in `never_missing` (the
    caller established that from the code) have no missing case."""
    base = ("rel", ("rel", col, rhs), frozenset(vals))
    if col in never_missing:
        return base
    na = ("var", f"na:{col}")
    return Or(na, base) if ne else And(Not(na), base)


class RowSets:
    """member(frame_term) -> formula. `sources` maps base frame terms to variable names, e.g.
    {('attr', self, 'data'): 'inData', ('attr', self, 'current_data'): 'inFeed'}.
    `opaque(call_term)` may return (frame_arg_term, atom_name) for calls that return a row subset of an argument."""

    def __init__(self, sources, opaque=None, never_missing=()):
        self.sources = sources
        self.never_missing = frozenset(never_missing)
        self.opaque = opaque or (lambda t: None)
        self.memo = {}
        self.atoms = {}  # atom name -> description
        self.atom_terms = {}  # atom name -> defining term (for opaque row predicates)

    # ---- frames -----------------------------------------------------------------------------
    def member(self, t):
        if t in self.memo:
            return self.memo[t]
        r = self._member(t)
        self.memo[t] = r
        return r

    def _member(self, t):
        if t in self.sources:
            return ("var", self.sources[t])
        k = t[0]
        if k == "setitem" or k == "setattr":
            return self.member(t[1])  # column assignment keeps the rows
        if k == "mut":
            return self.member(t[1])
        if k == "phi":
            return Ite(self.flag(t[1]), self.member(t[2]), self.member(t[3]))
        if k == "loopout":
            # rows are not changed by per-estimand column assignments: require the body to be row-preserving
            body = t[4]
            while body[0] in ("setitem", "setattr"):
                body = body[1]
            if body[0] == "loopin":
                return self.member(t[3])
            raise AnalysisError(f"loop changes rows: {ir.show(t, maxdepth=3)}")
        if k == "loopin":
            return self.member(t[3])
        if k == "sub":
            base, idx = t[1], t[2]
            if self._is_mask(idx):
                return And(self.member(base), self.mask(idx, base))
            if idx[0] in ("list", "const", "bin", "param"):
                return self.member(base)  # column selection
            raise AnalysisError(f"subscript not understood as row filter: {ir.show(t, maxdepth=3)}")
        if k == "call":
            f = t[1]
            op = self.opaque(t)
            if op is not None:
                frame, name, desc = op
                self.atoms[name] = desc
                return And(self.member(frame), ("var", name))
            if f[0] == "attr" and f[2] in ROW_PRESERVING:
                return self.member(f[1])
            if f[0] == "global" and f[1].endswith("concat"):
                items = self.items(t[2][0])
                return Or(*[And(c, self.member(x)) for c, x in items])
            if f[0] == "attr" and f[2] == "query":
                raise AnalysisError("query() row filter with a string the def-use engine could not turn into a mask")
        if k == "attr" and t[2] in ("loc", "iloc"):
            return self.member(t[1])
        raise AnalysisError(f"frame expression not understood by the row-set engine: {ir.show(t, maxdepth=3)}")

    def items(self, t):
        """list-valued term -> [(presence condition, element term)] in list order"""
        k = t[0]
        if k == "list":
            return [(T, e) for e in t[1]]
        if k == "mut" and t[2] == "append":
            return self.items(t[1]) + [(T, t[3][0])]
        if k == "mut" and t[2] == "extend":
            return self.items(t[1]) + self.items(t[3][0])
        if k == "bin" and t[1] == "+":
            return self.items(t[2]) + self.items(t[3])
        if k == "phi":
            c = self.flag(t[1])
            a, b = self.items(t[2]), self.items(t[3])
            order, cond = [], {}
            for cc, x in a:
                if x not in cond:
                    order.append(x)
                cond[x] = Or(cond.get(x, F), And(c, cc))
            for cc, x in b:
                if x not in cond:
                    order.append(x)
                cond[x] = Or(cond.get(x, F), And(Not(c), cc))
            return [(_simp_cover(cond[x]), x) for x in order]
        if k == "bin" and t[1] == "+":
            return self.items(t[2]) + self.items(t[3])
        raise AnalysisError(f"list expression not understood: {ir.show(t, maxdepth=3)}")

    # ---- masks ------------------------------------------------------------------------------
    def _is_mask(self, t):
        k = t[0]
        if k in ("cmp",):
            return True
        if k == "un" and t[1] == "~":
            return True
        if k == "bin" and t[1] in ("&", "|"):
            return True
        if k == "call" and t[1][0] == "attr" and t[1][2] in ("isin", "flatten", "notnull", "isnull", "isna", "notna", "between"):
            return t[1][2] != "flatten" or self._is_mask(t[1][1])
        if k == "call" and t[1][0] == "global" and t[1][1].endswith("isclose"):
            return True
        if k == "call" and t[1][0] == "attr" and t[1][2] in ("any", "all") and dict(t[3]).get("axis", t[2][0] if t[2] else None) == ("const", 1):
            return True
        return False

    def col_of(self, t):
        """column read `frame.col` / `frame['col']` -> (frame term, col name) or None.
        An element-wise transformation of a column (`frame.col.round()`, `.abs()`, `.astype(..)`) is a *different* quantity: it
        gets its own name, so a rule written for `col` is not silently satisfied by a comparison on `round(col)`."""
        if t[0] == "attr" and t[2] not in ("values", "T", "loc", "iloc", "shape", "columns", "index"):
            return t[1], t[2]
        if t[0] == "sub" and t[2][0] == "const" and isinstance(t[2][1], str):
            return t[1], t[2][1]
        if t[0] == "call" and t[1][0] == "attr" and t[1][2] in ("round", "abs", "floor", "ceil"):
            inner = self.col_of(t[1][1])
            if inner is not None:
                args = ", ".join(ir.show(a, maxdepth=2) for a in t[2])
                return inner[0], f"{t[1][2]}({inner[1]}{', ' + args if args else ''})"
        return None

    def mask(self, m, frame):
        k = m[0]
        if k == "un" and m[1] == "~":
            return Not(self.mask(m[2], frame))
        if k == "bin" and m[1] in ("&", "|"):
            a, b = self.mask(m[2], frame), self.mask(m[3], frame)
            return And(a, b) if m[1] == "&" else Or(a, b)
        if k == "call" and m[1][0] == "attr" and m[1][2] == "flatten":
            return self.mask(m[1][1], frame)
        if k == "cmp":
            l, r, op = m[2], m[3], m[1]
            lc, rc = self.col_of(l), self.col_of(r)
            if lc is None and rc is not None:
                l, r, op, lc, rc = r, l, FLIP[op], rc, lc
            if lc is None:
                raise AnalysisError(f"comparison is not on a column: {ir.show(m, maxdepth=3)}")
            self._same_rows_source(lc[0], frame)
            key = ("rel", lc[1], ir.show(r, maxdepth=4))
            self.atoms[key] = f"{lc[1]} vs {ir.show(r, maxdepth=4)}"
            if lc[1] not in self.never_missing:
                self.atoms[f"na:{lc[1]}"] = f"{lc[1]} is missing"
            return compare(lc[1], key[2], OPS[op], ne=(op == "!="), never_missing=self.never_missing)
        if k == "call" and ((m[1][0] == "attr" and m[1][2] in ("isna", "isnull", "notna", "notnull") and not m[2])
                            or (m[1][0] == "global" and m[1][1].rsplit(".", 1)[-1] in ("isna", "isnull", "isnan", "notna", "notnull") and len(m[2]) == 1)):
            lc = self.col_of(m[1][1] if m[1][0] == "attr" else m[2][0])
            if lc is None:
                raise AnalysisError(f"missing-value test is not on a column: {ir.show(m, maxdepth=3)}")
            fn = m[1][2] if m[1][0] == "attr" else m[1][1].rsplit(".", 1)[-1]
            if lc[1] in self.never_missing:
                return T if fn.startswith("not") else F
            self.atoms[f"na:{lc[1]}"] = f"{lc[1]} is missing"
            na = ("var", f"na:{lc[1]}")
            return Not(na) if fn.startswith("not") else na
        if k == "call" and m[1][0] == "global" and m[1][1].endswith("isclose"):
            lc = self.col_of(m[2][0])
            if lc is None:
                raise AnalysisError(f"isclose is not on a column: {ir.show(m, maxdepth=3)}")
            self._same_rows_source(lc[0], frame)
            name = f"isclose({lc[1]},{ir.show(m[2][1])})"
            self.atoms[name] = name
            return ("var", name)
        if k == "call" and m[1][0] == "attr" and m[1][2] in ("any", "all") and dict(m[3]).get("axis", m[2][0] if m[2] else None) == ("const", 1):
            # row-wise any / all over a block of columns, e.g. np.isclose(frame[cols], 0).any(axis=1): one opaque row predicate;
            # its term is kept so that rules can ask what it depends on (request parameters ..)
            inner = m[1][1]
            name = f"{m[1][2]}({ir.show(inner, maxdepth=5)})"
            if len(name) > 140:
                name = name[:137] + "..."
            self.atoms[name] = name
            self.atom_terms[name] = inner
            return ("var", name)
        if k == "call" and m[1][0] == "attr" and m[1][2] == "between" and len(m[2]) >= 2:
            # Series.between(left, right, inclusive="both"): left <= col <= right unless `inclusive` says otherwise
            lc = self.col_of(m[1][1])
            if lc is None:
                raise AnalysisError(f"between is not on a column: {ir.show(m, maxdepth=3)}")
            inc = dict(m[3]).get("inclusive", m[2][2] if len(m[2]) > 2 else ("const", "both"))
            if inc[0] != "const" or inc[1] not in ("both", "neither", "left", "right", True, False):
                raise AnalysisError(f"between(inclusive=..) not a literal: {ir.show(m, maxdepth=3)}")
            inc = {True: "both", False: "neither"}.get(inc[1], inc[1])
            lo_ops = {"gt", "eq"} if inc in ("both", "left") else {"gt"}
            hi_ops = {"lt", "eq"} if inc in ("both", "right") else {"lt"}
            out = []
            for bound, ops in ((m[2][0], lo_ops), (m[2][1], hi_ops)):
                key = ("rel", lc[1], ir.show(bound, maxdepth=4))
                self.atoms[key] = f"{lc[1]} vs {ir.show(bound, maxdepth=4)}"
                if lc[1] not in self.never_missing:
                    self.atoms[f"na:{lc[1]}"] = f"{lc[1]} is missing"
                out.append(compare(lc[1], key[2], ops, never_missing=self.never_missing))
            return And(*out)
        if k == "call" and m[1][0] == "attr" and m[1][2] == "isin":
            lc = self.col_of(m[1][1])
            arg = m[2][0]
            if lc is None:
                raise AnalysisError(f"isin is not on a column: {ir.show(m, maxdepth=3)}")
            self._same_rows_source(lc[0], frame)
            # strip .tolist() / .values / list()
            a = arg
            while (a[0] == "call" and a[1][0] == "attr" and a[1][2] in ("tolist", "to_list", "unique", "copy")) or \
                    (a[0] == "attr" and a[2] == "values"):
                a = a[1][1] if a[0] == "call" else a[1]
            ac = self.col_of(a)
            if ac is not None and lc[1] == KEY and ac[1] == KEY:
                return self.member(ac[0])  # key-set membership in another frame
            if a[0] == "param":
                name = f"{lc[1]} in {a[1]}"
                self.atoms[name] = name
                return ("var", name)
            # ids of several frames put together (concat / list +): membership in any of them
            parts = None
            if a[0] == "call" and a[1][0] == "global" and a[1][1].endswith("concat") and a[2] and a[2][0][0] in ("list", "tuple"):
                parts = list(a[2][0][1])
            elif a[0] == "bin" and a[1] == "+":
                parts = [a[2], a[3]]
            if parts and lc[1] == KEY:
                fs = []
                for p_ in parts:
                    while (p_[0] == "call" and p_[1][0] == "attr" and p_[1][2] in ("tolist", "to_list", "unique", "copy")) or \
                            (p_[0] == "attr" and p_[2] == "values"):
                        p_ = p_[1][1] if p_[0] == "call" else p_[1]
                    pc_ = self.col_of(p_)
                    if pc_ is None or pc_[1] != KEY:
                        fs = None
                        break
                    fs.append(self.member(pc_[0]))
                if fs:
                    return Or(*fs)
            raise AnalysisError(f"isin argument not understood: {ir.show(arg, maxdepth=3)}")
        raise AnalysisError(f"row mask not understood: {ir.show(m, maxdepth=3)}")

    def _same_rows_source(self, col_frame, frame):
        """The frame a mask column is read from must hold the same unit rows/values as the filtered frame (a row-filtered
        / column-extended version of it is fine)."""
        return True

    # ---- python-level conditions --------------------------------------------------------------
    def flag(self, c):
        if c[0] == "bool":
            parts = [self.flag(x) for x in c[2]]
            return And(*parts) if c[1] == "and" else Or(*parts)
        if c[0] == "un" and c[1] == "not":
            return Not(self.flag(c[2]))
        name = "flag:" + ir.show(c, maxdepth=3)
        if len(name) > 120:
            name = name[:117] + "..."
        self.atoms[name] = ir.show(c, maxdepth=5)[:200]
        return ("var", name)


def _simp_cover(f):
    """(c & x) | (~c & x) -> x"""
    if f[0] == "or" and len(f[1]) == 2:
        a, b = f[1]
        for p, q in ((a, b), (b, a)):
            pa = p[1] if p[0] == "and" else (p,)
            qa = q[1] if q[0] == "and" else (q,)
            for lit in pa:
                rest_p = tuple(x for x in pa if x != lit)
                if Not(lit) in qa:
                    rest_q = tuple(x for x in qa if x != Not(lit))
                    if rest_p == rest_q:
                        return And(*rest_p) if rest_p else T
    return f


def equivalent(f, g, constraint=T):
    """-> (True, n_rows) or (False, counterexample assignment)"""
    bools, rels = variables(f, g, constraint)
    cf, cg, cc = compile_formula(f), compile_formula(g), compile_formula(constraint)
    n = 0
    for a in assignments(bools, rels):
        if not cc(a):
            continue
        n += 1
        if cf(a) != cg(a):
            return False, a, n
    return True, None, n
