"""Source of MANIFEST.json (tools/gen_manifest.py). One entry per claimed property."""

ENGINES = [
    {"name": "sa", "path": "sa/", "serves_properties": [], "kind_free_text":
     "repository-specific static analysis on Python ast: program model + C3 MRO (model.py), resolved call graph "
     "(callgraph.py), statement CFG with dominators and must-hold guards (cfg.py), def-use term IR (ir.py), "
     "rational-function normaliser (symexpr.py), effects/sinks (effects.py); a program normal form applied before analysis "
     "(inline.py: extracted helpers inlined, loops over literal object collections unrolled, guard clauses = conditionals, "
     "one branch polarity) and semantic views (colwrites.py, frames.where_form) so that rules decide what the code does, not how it "
     "is spelled; one rule module per property (props/)"},
]

NOTES = ("All checks are static: they parse /repo/src/elexmodel on every run (no import, no execution of repo code, no "
         "solver). Exit 2 + ANALYSIS-ERROR = the analysis could not decide (anchor vanished, construct not understood); "
         "that is never reported as a pass or as a violation. Genuine defects found are in known_findings.json: 37 were "
         "repaired by 'fix:' commits in /repo (entries 'fixed', which suppress nothing); six are open (K1 C01, K2 C08, K3 C07, K4 C16, "
         "K5 C11, K6 C14: each needs a design decision or would break pinned tests) and are printed as KNOWN-FINDING by their checks, "
         "which exit 0 and still report any other violation. DESIGN.md section 5 has the witnesses; section 13 the refactoring corpus "
         "on which every check has to stay silent.")

CLAIMS = {}
NOT_APPLICABLE = {}

CLAIMS["C20"] = {
    "technique": "AST + CFG + def-use terms: try/except shape, retry-call binding against the solver signature read from "
                 "installed source, argument-by-argument agreement of first and retry call, warning-filter and who-may-call rules",
    "level": "Decides for every fit site and both failure kinds the code-shape conditions the property needs: first fit in a "
             "try catching UserWarning and SolverError, handler re-fits without raising, retry call binds to "
             "QuantileRegressionSolver.fit and agrees with the first call on x, y, taus, weights, lambda_, fit_intercept "
             "while passing normalize_weights=False, cvxpy warnings are errors, no conformal-family fit bypasses fit_model, and - because the solver's fit() appends one coefficient vector per quantile (read "
             "from its installed source) - every fit_model call gets a fresh solver and a single scalar quantile, so a failed attempt "
             "leaves nothing behind for the retry to pile onto. "
             "Static because the except branch is never executed by tests and the faults are not reproducible offline.",
    "note": "Trusted: elexsolver/cvxpy semantics (a retry with normalize_weights=False succeeds), cvxpy emits UserWarning from "
            "a module named cvxpy*. Not decided: that the tables are numerically the same after a retry.",
}
CLAIMS["C18"] = {
    "technique": "effects analysis: sink enumeration, all call-graph paths from the entry points to each sink, CFG must-hold "
                 "guards per frame, def-use tracing of save_output flags, dominance for save-before-gate, f-string key templates",
    "level": "Decides, for every combination of save_output flags / environment / estimator / gate outcome, which persistent "
             "writes can happen: each sink reachable from get_estimates, get_national_summary_votes_estimates and "
             "get_historical_evaluation is guarded on every path by the flag (and APP_ENV != local) the property names; the "
             "live-results write dominates the not-enough-subunits raise and the writer itself puts on every path to a normal return "
             "(must-pass-through); every remote key is rooted at "
             "S3_FILE_PATH/election_id with whitespace-free constant parts; one put per returned table.",
    "note": "Trusted: writes reach storage only through elexmodel.handlers.s3 / the listed local sink idioms; "
            "caller-supplied model_parameters do not override save_conformalization. Not decided: behaviour of boto3.",
}

CLAIMS["C12"] = {
    "technique": "who-may-call + provenance: randomness sources in the call-graph closure of the entry points with seed/generator "
                 "traced to the seed setting; CFG dominance for fresh model/handler; set-order consumer classification; "
                 "alias/mutation summaries (def-use IR, fixpoint over the call graph) for caller-owned arguments",
    "level": "Decides for all inputs and call histories the code-shape conditions of reproducibility: no unseeded or globally "
             "seeded randomness (sample, default_rng, generator draws, scipy bootstrap, stdlib random, clocks) is reachable from "
             "get_estimates / the national summary; each run constructs a fresh model and results handler before any use; no "
             "hash-order-dependent iteration reaches data; the DataFrame / list arguments of the entry points are never "
             "mutated in place. A relation between runs cannot be sampled by single-run tests.",
    "note": "Trusted: determinism of cvxpy / numpy / pandas for equal inputs. Not tracked: aliasing of caller frames through "
            "object attributes mutated by a later method; get_historical_evaluation (list(set(..)) there is an observation).",
}
CLAIMS["C14"] = {
    "technique": "def-use terms + CFG dominance + formula normalisation: path condition of the raise as a symbolic comparison, "
                 "running-maximum recogniser, dominance of the gate over model calls, rational-function equality of the minimum "
                 "and training-fraction formulas",
    "level": "Decides the gate clauses for every (alpha list, unit count, estimator): the dedicated error is raised exactly under "
             "rows(reporting frame) < max over requested levels of model.get_minimum_reporting_units, strictly, on every run, "
             "before any model computation; duplicate ids raise ModelClientException; the three estimators' minimum and "
             "training-fraction formulas equal the documented ones; the split keeps max(floor(n_train * fraction), 1) training rows "
             "(never an empty training set - the defect F12, repaired). The arithmetic clause (calibration size and quantile level "
             "valid for all (alpha, n >= minimum)) is NOT decided by analysis: it needs reasoning over unbounded integers/reals; "
             "DESIGN.md appendix B gives a hand proof and rule R6 checks that the code still is the formula that proof is about.",
    "note": "Gate, ordering, formula and never-empty-training-set clauses are decided; numeric validity of the split for all "
            "(alpha, n) rests on the hand proof of appendix B.",
}

CLAIMS["C19"] = {
    "technique": "def-use terms + CFG: the list returned by list_versions is read back as a term (page + recursive call, optional "
                 "filters) and matched clause by clause; tuple pairing of version/buffer/future by def-use; fault handling by "
                 "try/except shape and must-pass-through on the CFG",
    "level": "Decides for every paging pattern, window and failure subset the protocol clauses visible in the code: page kept and "
             "recursive result appended; recursion iff truncated, non-empty and oldest version of the page >= start (or start "
             "unset); both markers from the same response and forwarded into the request; inclusive filters on the combined "
             "list; None for an empty window, propagated to the client; every sample-th version requested; each frame stamped "
             "with its own version's time in the handler's timezone; download errors caught without re-raise, task_done on both "
             "paths. None of this code is executed by the suite.",
    "note": "Trusted: the service lists newest-first with consistent markers (assumption of the property); s3transfer futures. "
            "Calls are treated as expressions (identical call text = same value).",
}

CLAIMS["C08"] = {
    "technique": "typestate (writer sites x CFG must-hold guards) + complete value-set truth table of the loss/gain vectors by "
                 "element-wise abstract evaluation of def-use terms + term matching of the bound formulas + CFG dominance",
    "level": "Decides for all elections, weightings, call/stop lists, both correlation modes and every order/list of requested "
             "aggregates: (a) each model attribute the summary reads is written only under the top-level-aggregate guard, so "
             "the result cannot depend on which finer aggregates were computed or in what order; (b) over the complete finite "
             "table (winner x mode x call code x stop flag, exhaustive) losses/gains are 0/1, losses only at winners, gains only "
             "at losers, called contests zero - which with non-negative weights gives lower <= pred <= upper and the "
             "[base, base+total] range; (c) output formulas, weight order, length check before use, client loop and columns.",
    "note": "Trusted: numpy element-wise semantics; weights non-negative. The order-statistic draws themselves (which contest "
            "is 'lower'/'upper') are abstracted to arbitrary 0/1 values, which over-approximates them.",
}

CLAIMS["C07"] = {
    "technique": "abstract interpretation over a finite region domain: the np.where / mask-assignment chains (def-use terms, helper "
                 "inlined) are evaluated element-wise for every abstract state (7 regions around 0 and +-0.005 x call code x "
                 "stop flag); validation by path conditions of the raises + CFG dominance; pass-through by call-argument terms",
    "level": "Decides the complete decision table instead of the four rows the tests touch: for every sign pattern of prediction, "
             "lower and upper bound, every call code and stop flag (exhaustive enumeration of the abstract states; comparisons are "
             "exact on the domain) left call => pred >= +0.005 and, unless stop-listed, lower >= 0; right call symmetric; "
             "stop-listed & uncalled => interval contains 0; otherwise unchanged; finer aggregates untouched. Contradictory or "
             "unknown calls raise before any vector exists; the lists travel unchanged from the public API to both functions.",
    "note": "Trusted: numpy element-wise semantics (where, maximum, minimum, isclose, boolean masks). The straddle step that makes "
            "lower < pred < upper is C06's rule and is assumed here only to restrict the enumerated states (lower < upper).",
}

CLAIMS["C09"] = {
    "technique": "propositional row-set analysis: pandas row filters / key-set differences / concat of get_units turned into boolean "
                 "formulas over per-unit atoms (comparisons as lt/eq/gt relations) and compared with the documented rules by "
                 "complete truth table; rational-function equality for derived quantities; argument binding by def-use terms",
    "level": "Decides for all feeds, baselines, thresholds (including values exactly at a limit), blocklists, limits and outlier "
             "settings: membership of each of the three frames equals the documented eligibility formula on every row of the truth "
             "table (exhaustive, boundary cases included); first-listed reason wins with the documented names; derived quantities "
             "follow their definitions and every stored quotient is NaN/inf-guarded with 0; defaults and the binding of each "
             "get_units argument; baseline left join and both unreporting policies.",
    "note": "Assumes unique unit ids and non-NaN compared values. The outlier model's own statistics are opaque (only that it "
            "returns a row subset of its input and is gated by its switch is decided).",
}

CLAIMS["C01"] = {
    "technique": "row-set truth table for the unit split + frame algebra (provenance of pandas pipelines over def-use terms, helpers "
                 "inlined) normalised to signed sums of per-group sums + indicator-matrix row bookkeeping for the bootstrap model + "
                 "constant folding of get_aggregate_list over the office/aggregate tables",
    "level": "Decides for every feed / group structure / request: (a) exhaustive truth table - each unit of feed or baseline join is a "
             "row of exactly one frame; (b) the unit table is the unfiltered concat of those frames; (c) at every level and for every "
             "estimator results_e and reporting are S_R + S_U + S_N of the same column per group of the aggregate keys (no U at "
             "classification level, by design), all joins outer and every possibly-missing operand filled with 0 before adding - so "
             "groups existing only through unexpected or only through nonreporting units keep their votes; (d) bootstrap: "
             "results_margin numerator and the turnout divisor are the documented group sums and the divisor is the reported "
             "pred_turnout; (e) merge keys cover every shared column in all office-class x aggregate configurations; (f) every "
             "key used to group unexpected units is recovered, for every office class and every requested aggregate list.",
    "note": "Trusted: pandas semantics summarised in DESIGN.md section 7; unique unit ids; non-NaN keys of baseline units. The "
            "summary of groupby/merge/fillna/assign is specific to the idioms used in this repository; other idioms stop the check "
            "with ANALYSIS-ERROR rather than being guessed.",
}

CLAIMS["C02"] = {
    "technique": "frame algebra (provenance of the aggregate pipelines, helpers / super() inlined) normalised to signed sums of "
                 "per-group sums; row signatures (group universe, order, index) of prediction table vs interval vectors; "
                 "indicator-matrix row bookkeeping for the bootstrap model",
    "level": "Decides for every group structure, level and estimator: pred_e = S_R + S_U (results) + S_N (pred) and the "
             "nonparametric bounds = the same with S_N (lower/upper), each operand filled before adding and rounded; prediction "
             "table and interval vectors have identical group universe, ascending key order and 0..n-1 index for the "
             "nonparametric and gaussian estimators (incl. the gaussian early return), so the positional assignment cannot shift "
             "rows even when a group exists only among unexpected or only among nonreporting units; bootstrap pred_margin is the "
             "documented quotient over the reported pred_turnout; lower/upper land in lower_*/upper_* columns.",
    "note": "Assumes C01.R1 (disjoint frames) and C15.R3 (gaussian: one model per outstanding group), which have their own checks; "
            "pandas ordering semantics as documented (groupby sort=True, outer merge sorts keys).",
}

CLAIMS["C03"] = {
    "technique": "term matching of the five floor sites against round(maximum(x, counted votes of the same nonreporting rows)); frame "
                 "algebra for the gaussian aggregate bounds; column-assignment provenance in the results handler",
    "level": "Decides for all inputs (incl. partial counts above the modelled value, negative corrections, gaussian bounds below "
             "the partial counts): unit prediction and both unit bounds of both conformal estimators are floored at the unit's "
             "counted votes and rounded; gaussian aggregate bounds are max(modelled bound, S_N(results)) + S_R + S_U(results), "
             "filled before adding, rounded, and equal the counted votes when nothing is outstanding, and the floor column read by position from a second table belongs "
             "to the same group (equal row signatures: sorted by the keys, fresh range index); reporting and unexpected "
             "units copy results into prediction and every level's bounds (and results_weights into pred_turnout). Each of the "
             "five sites can be broken without changing a pinned test number.",
    "note": "Not decided: finiteness of modelled values (NaN from degenerate calibration sets) - numeric. Aggregate floor for the "
            "nonparametric estimator follows from R2 + C02.R2 (lemma, not a separate rule).",
}

CLAIMS["C11"] = {
    "technique": "frame algebra + indicator-matrix bookkeeping for the unexpected-unit terms; constant folding for key recovery; "
                 "two-kind taint analysis (row values / category universe) over the def-use terms of compute_bootstrap_errors "
                 "with the code's own sanitisers; guard-agreement rule for the classification key",
    "level": "Decides for every unexpected unit, request and estimator: its counted votes enter counted votes, prediction and both "
             "bounds exactly once per group at every non-classification level (new groups are created and filled), every key it is "
             "grouped by is recovered in all office-class x request configurations, bootstrap numerators and denominators include "
             "its margin / two-party votes exactly once, nothing that is fitted or randomly drawn depends on it (not even through "
             "an extra dummy column), and wherever rows containing unexpected units are keyed by the aggregate list the "
             "classification level is excluded, so the run cannot fail on the unknown classification.",
    "note": "Trusted: get_dummies creates columns for all rows given; filter_to_active_features keeps only levels seen on fitting "
            "rows (C16.R3). 'Leaves every other number unchanged' is decided as absence of data/universe flow, not bit-for-bit.",
}

CLAIMS["C13"] = {
    "technique": "shared-state analysis of the request loops: merge keys per configuration (constant folding), typestate of per-level "
                 "caches (writer/reader attribute sets of the per-level steps, key expressions, copy discipline), who-may-draw from "
                 "persistent generators inside the loops (call graph + run-once guard), name/value dependence of in-place column "
                 "writes on the shared frames (def-use terms)",
    "level": "Decides for every subset and order of levels, aggregates and estimands the ways requests can interfere through state "
             "shared across the loops: cross-estimand joins are keyed on every shared column; every attribute carried from the "
             "per-level unit step to the per-level aggregate step is keyed by the level, stored as a copy and read with the same key, "
             "and the client pairs levels correctly and consumes that state (which is never keyed by the estimand) inside the same "
             "iteration of the estimand loop that produced it; nothing inside the loops advances a persistent generator except behind the "
             "run-once guard, and in-loop resampling builds its generator from the seed each time; each in-place column write on a "
             "shared frame names every request parameter its value depends on. A relation between runs with different request "
             "sets cannot be sampled by the suite's single fixed request.",
    "note": "Trusted: in-place numpy/pandas operators mutate their target. Values computed by the estimators are not compared "
            "numerically; absence of cross-request data flow is what is decided.",
}

CLAIMS["C04"] = {
    "technique": "def-use term of the nonparametric interval function (helpers inlined, solver/featurizer objects distinguished by "
                 "construction site) matched clause by clause against the split-conformal procedure; arithmetic sub-formulas compared "
                 "as rational functions",
    "level": "Decides for every calibration set, alpha and robust setting that the code computes exactly the procedure the statement "
             "defines: scores max(L(x)-r, r-U(x)) on the calibration rows with L/U fitted at (1-+alpha)/2 on the training rows; level "
             "alpha(1+1/n_cal); weighted correction = smallest score whose cumulative normalised baseline weight strictly exceeds the "
             "level, in ascending score order; robust = max with the unweighted quantile; one correction applied symmetrically, "
             "un-normalised, floored, rounded; seeded shuffle, floor(n*frac) training rows, the rest calibration, matrix slices "
             "agreeing with frame slices. The coverage clause follows by the split-conformal theorem (cited, not machine-checked).",
    "note": "Not decided: the probabilistic clause itself (a statement about a distribution of elections) and validity of the level "
            "<= 1 for all (alpha, n) (arithmetic; C14 / appendix B). Solver semantics trusted.",
}

CLAIMS["C05"] = {
    "technique": "def-use terms + rational normal forms for residualisation, baseline, fit arguments and the prediction formula; "
                 "constant folding of the featurizer for empty covariates",
    "level": "Decides, for all sets of reporting and nonreporting units, every step of the closed form: residual = (results - last) / "
             "last on the modelled reporting frame, last = baseline + 1, the median fit is fit_model(tau 0.5, those residuals, "
             "weights = last, active features of the first n_train rows of the intercept design built from [reporting, "
             "nonreporting]), prediction = round(max(p * last + last, partial count)) with p the fitted model on the nonreporting "
             "rows, and with no features / fixed effects the design folds to the single column 'intercept'. The covariate-free "
             "model is never run by the suite.",
    "note": "Not decided: that an intercept-only weighted tau=0.5 quantile regression equals the weighted median (elexsolver "
            "semantics, trusted) and uniqueness of the median.",
}

CLAIMS["C06"] = {
    "technique": "def-use terms of the bootstrap interval functions (rank helper inlined): which rank of which draw matrix is subtracted "
                 "for which bound; straddle caps; factor-wise clipping discipline of the stored draw matrices; single-writer / "
                 "run-once typestate; rank formulas as rational functions with floor / ceil uninterpreted",
    "level": "Decides for every draw matrix, B, alpha and configuration the shape facts from which ordering and nesting follow: lower "
             "= pred - Q(high rank), upper = pred - Q(low rank) of one matrix along the draw axis at unit and aggregate level; "
             "aggregate bounds capped strictly below / above the same prediction; every margin / turnout factor stored in the draw "
             "matrices and point predictions is clipped with the bounds of the matching quantity after its last update and only "
             "then weighted; the draws are produced once (single writer behind the run-once guard, per-level functions draw "
             "nothing), so all levels are quantiles of the same draws; the value the aggregate interval is built around is the "
             "reported prediction (stored vector at the top level, the same R | N | U quotient below it); the ranks are the "
             "statement's own formulas.",
    "note": "Not decided: 0 <= low rank <= high rank <= 1 and monotonicity in alpha for all (alpha, B >= 2) (integer/real arithmetic; "
            "hand proof in DESIGN.md appendix A, not machine-checked) and the numeric range of margins given data (feasible-range "
            "bounds are data dependent). Called / stop-listed contests are C07's domain.",
}

CLAIMS["C17"] = {
    "technique": "def-use term of the vectorised per-unit interpolation normalised with the index expressions as named atoms and "
                 "compared with the statement's formula as a rational function; CFG dominance and shape checks for the early "
                 "returns; structural match of the consumer's filter",
    "level": "Decides for every version history (any number of versions, repeats, zero-vote versions, downward revisions, re-scaled "
             "percentages): both irregularity tests return 101 rows of missing estimates with their own error type before any "
             "estimate is computed; est(p) = (m_i v_i + b_i (p - v_i)) / p with i the last observation <= p (searchsorted right - 1, "
             "clipped), b_i the forward batch margin, and the before-first-observation substitution (v = 0, m = b = first margin); "
             "correction = final margin - est on percents 0..int(max); the percent axis is the re-scaled turnout, computed in a floating-point buffer whatever the dtype of the counts; the value at "
             "0 percent is the following batch's margin; the extrapolation "
             "averages only non-null corrections near an observation. Convexity follows from v_i <= p (choice of i).",
    "note": "Not decided: numeric range for given data. The value at p = 0 (F14) and the floating-point buffer of the re-scaled "
            "percent axis (F13) are decided by their own rules. numpy.searchsorted / divide semantics trusted.",
}

CLAIMS["C16"] = {
    "technique": "def-use terms of the featurizer's methods (helpers inlined) matched clause by clause; constant folding of the sort-key "
                 "lambda over the finite set of name classes it distinguishes; caller slices vs concat order; typestate count of "
                 "prepare_data per featurizer object (construction sites)",
    "level": "Decides for every assignment of levels to reporting / nonreporting / unexpected units: fit and holdout matrices are the "
             "same column list in the same order (intercept, baseline margin terms, rest); active levels are exactly the expanded "
             "levels seen on reporting & expected rows, the first per effect is dropped for the intercept and recorded; a unit with a "
             "level not seen in fitting gets 1/(k+1) on the k fitted levels of that effect; centring uses all rows; unselected "
             "levels are pooled to 'other'; per-state copies only for states with reporting rows; the bootstrap callers slice the "
             "matrix with the bounds of the frames it was built from; prepare_data runs once per featurizer object.",
    "note": "Trusted: get_dummies naming '<effect>_<level>'. Observation (not a rule): the per-effect selection uses startswith(fe) "
            "while the expansion uses startswith(fe + '_'); they differ only if one effect name is a prefix of another. The "
            "conformal callers' slices are decided in C04.R6 / C05.R3.",
}

CLAIMS["C15"] = {
    "technique": "def-use terms of GaussianModel.fit (recursion), of the matching loop and of the bound formulas, matched structurally; "
                 "slice arithmetic and formulas compared as rational functions; frame algebra for the assigned bound columns",
    "level": "Decides for every group structure, level and alpha: the threshold min(10, n_cal), the trigger '< T' and the "
             "complementary selection '>= T'; small groups fall back to the fit one level up on ALL calibration data, large groups "
             "keep their own fit on their own units; counts include groups that exist only among nonreporting units; empty "
             "calibration -> empty model; the matching loop pairs each not-yet-matched group with the models whose last i key "
             "levels are null via the parent keys, with a guarded cross join at the top, accumulating matches; calibration "
             "statistics (baseline-weighted median, beta x bootstrapped sigma at (3+alpha)/4, inflation) and the unit / aggregate "
             "bound formulas with W, SS and the inflation term; the weighted-median definition.",
    "note": "Not decided: finiteness of the bootstrapped scale (numeric) and that exactly one model row survives per group for "
            "every data set beyond what the structure of the loop implies (argument in DESIGN.md C15.R3).",
}

CLAIMS["C10"] = {
    "technique": "information-flow (taint) analysis over def-use terms, interprocedural through resolved callees with frame roles and two "
                 "taint kinds; fit-argument provenance; enumeration of the featurizer's column reads; sibling agreement of the "
                 "historical hiding with the unit split; row-set truth table for excluded units",
    "level": "Non-interference is a property of pairs of runs; it is decided as absence of flow for all inputs: partial counts "
             "(results_*, turnout_factor, percent_expected_vote) of frames containing not-yet-reporting rows never reach a regression "
             "fit, a random draw, a reduction along the row axis, a matrix product or a grouping key in the unit-level code of the "
             "three estimators (frozen, reasoned exceptions only); fit targets / weights come from the reporting frame; the featurizer "
             "reads no results-derived column; historical results are zeroed for every requested estimand exactly on the "
             "nonreporting side of the unit split; non-modelled and unexpected units are in neither model frame (truth table); at group level the "
             "counted-votes floor read by position from a second table is that of the same group (row signatures).",
    "note": "Group sums of the aggregate functions are the property's own exception and are outside the scope. Not followed: aliasing "
            "through object attributes (versioned history). Observation O4 (results_turnout visible in historical runs when turnout is "
            "not an estimand) does not reach any estimate and is not counted.",
}


# ---- amendments made after the seeded changes / defect hunts (applied to the assembled texts above) ---------------------------
_AMEND = {
    "C01": [("(no U at classification level, by design)",
             "(at classification level the code leaves the whole third frame out: right for unexpected units, which have no "
             "classification, but it also drops the non-modelled baseline units whose classification is known - the open known "
             "finding K1, reported at its three call sites)"),
            ("so groups existing only through unexpected or only through nonreporting units keep their votes;",
             "so groups existing only through unexpected or only through nonreporting units keep their votes; the reporting flag is 1 "
             "on the reporting frame and 0 on the other two; missing vote counts of passed-through units count as 0;")],
    "C09": [("baseline left join and both unreporting policies.",
             "baseline left join and both unreporting policies (the zero policy also fills every results-derived column). A compared "
             "column may be MISSING in the truth table (a unit whose expected vote is missing is predicted, not lost: F24); the margin "
             "baseline - which turns the weights into the two party vote - is recomputed even when the file already has it (F25)."),
            ("(exhaustive, boundary cases included)", "(exhaustive, boundary and missing values included)")],
    "C06": [("the ranks are the statement's own formulas.",
             "the ranks are the statement's own formulas; every call / stop adjustment of a contest-level bound is a monotone map of "
             "the bound (evaluated on 7 regions x call code x stop flag), so nested levels stay nested (F29); with fewer than two "
             "estimable contest effects the sampler of contest effects returns before it takes an empty variance (F28).")],
    "C15": [("and the unit / aggregate bound formulas with W, SS and the inflation term;",
             "and the unit / aggregate bound formulas with W, SS and the inflation term in location-scale form mu + sd * z (finite for "
             "sd = 0; handing the scale to ppf is NaN there: F27);")],
    "C16": [("prepare_data runs once per featurizer object.",
             "prepare_data runs once per featurizer object; the interval regressions' fitting rows are the featurizer's fitting rows "
             "(F22); rows whose intercept is zeroed for a separate-state model must get a constant column of their own (today they do "
             "not: open known finding K4).")],
    "C18": [("one put per returned table.",
             "one put per returned table; the client attributes the national summary combines with the stored results (save flag, election "
             "id, office, unit type, model) are assigned only after the previous run's results have been dropped, so a call that fails "
             "midway cannot leave old results next to new settings (F26).")],
    "C10": [("non-modelled and unexpected units are in neither model frame (truth table);",
             "non-modelled and unexpected units are in neither model frame and in no outlier model's input (truth table);")],
    "C11": [("so the run cannot fail on the unknown classification.",
             "so the run cannot fail on the unknown classification; the id parsers that recover its keys are total (no unguarded "
             "index into the split id); every quotient by a group turnout total in the bootstrap aggregate functions maps 0/0 to 0; the "
             "per-contest vectors the national summary reads must be restricted to contests that have baseline units (today a group made "
             "of unexpected units alone counts as a contest: open known finding K5).")],
    "C12": [("(sample, default_rng, generator draws, scipy bootstrap, stdlib random, clocks)",
             "(sample, default_rng, generator draws, scipy bootstrap and distribution.rvs, stdlib random, clocks)")],
    "C14": [("duplicate ids raise ModelClientException;",
             "duplicate ids (counted per unit id, not per identical row, in the combined data before the exclusion rules: F30) raise "
             "ModelClientException;"),
            ("the three estimators' minimum and training-fraction formulas equal the documented ones;",
             "the conformal estimators' minimum and training-fraction formulas equal the documented ones, the bootstrap's minimum is a "
             "positive number that has to account for the width of the design (today the constant 10: open known finding K6);")],
    "C19": [("each frame stamped with its own version's time in the handler's timezone;",
             "each frame stamped, inside the loop that receives it together with its version, with that version's time in the "
             "handler's timezone;")],
    "C05": [("every step of the closed form:",
             "every step of the closed form (after excluding closures that outlive the estimand loop variable they read):")],
    "C02": [("bootstrap pred_margin is the documented quotient over the reported pred_turnout;",
             "bootstrap pred_margin is the documented quotient over the reported pred_turnout, the unit table shows exactly the vectors "
             "the group totals sum, and with several keys the indicator columns are re-ordered by the keys so that column i is row i of "
             "the key-sorted table;")],
}
_AMEND2 = {
    "C01": [("for every office class and every requested aggregate list.",
             "for every office class and every requested aggregate list; (g) the caller's feed frame is never written to, so derived result "
             "columns are those of this call's counts (a feed object refreshed in place and passed again would otherwise report the previous poll).")],
    "C03": [("Each of the five sites can be broken without changing a pinned test number.",
             "Every group with outstanding units keeps a row in the matching of bounds and gaussian models (restated from C15.R3: a group that "
             "falls out is filled with 0 and reports only its reporting units' votes). Each of these sites can be broken without changing a pinned test number.")],
    "C05": [("The covariate-free model is never run by the suite.",
             "The solver call of fit_model is bound against the INSTALLED solver's signature: the caller's tau and weights, the model's own lambda and "
             "intercept setting, and no regularisation of the intercept. The covariate-free model is never run by the suite.")],
    "C08": [("called contests zero - which",
             "called contests zero, and in order-statistic mode a called contest counts as its called outcome in every draw before the national totals "
             "are ranked (F35) - which")],
    "C10": [("is that of the same group (row signatures).",
             "is that of the same group (row signatures); a unit the feed gives no expected vote gets a number when the feed is joined, so that it "
             "cannot carry a NaN into the bootstrap model's clip bounds and from there, through the 0/1 group products, into every group (F32).")],
    "C12": [("are never mutated in place.",
             "are never mutated in place; the local preprocessed file that later runs read back holds the columns that were loaded, not this run's "
             "derived ones (F34); the national-summary table is built from the estimates of that summary call alone.")],
    "C13": [("names every request parameter its value depends on.",
             "names every request parameter its value depends on; no model attribute that is carried from one per-level / per-estimand call to the "
             "next (memo, accumulator) depends on a request-dependent parameter, where parameters are classified through the call sites (the conformal "
             "training fraction is level-dependent).")],
    "C19": [("inclusive filters on the combined list;",
             "inclusive filters on every route from a page's versions to the result; the recursion condition, evaluated with short-circuit order over "
             "(truncated, page empty, start unset, oldest >= start), continues at least while needed and never indexes an empty page - a page of "
             "delete markers neither fails nor ends the listing (F31);")],
    "C11": [("grouped by is recovered in all office-class x request configurations,",
             "grouped by is recovered in all office-class x request configurations - by the parser of that key, whose decision tree is "
             "evaluated over id shapes (county = second part of a <district>_<county> id, else the first; district = the first) and "
             "never indexes a part the id may not have,"),
            ("at every non-classification level (new groups are created and filled),",
             "at every non-classification level (new groups are created and filled; for every return of the gaussian aggregate function, the "
             "shortcut for 'nothing outstanding' included),")],
    "C17": [("before any estimate is computed;",
             "before any estimate is computed, and the impossible-batch return is taken not only for a margin quotient outside [-1, 1] but whenever the "
             "dem or the gop count goes down between two versions (a quotient of two negative differences is back inside the range, F37);")],
    "C18": [("cannot leave old results next to new settings (F26).",
             "cannot leave old results next to new settings (F26), and a run publishes its own results handler on the client only after every model "
             "step has completed, so a request rejected midway leaves no half-filled results for a later summary either (F36).")],
    "C06": [("the ranks are the statement's own formulas;",
             "the ranks are the statement's own formulas; every quotient by a group turnout total is nan_to_num(x / total), so a group with zero "
             "predicted turnout has margin 0, not NaN;")],
}
for _pid, _pairs in _AMEND2.items():
    _AMEND.setdefault(_pid, [])
    _AMEND[_pid] = _AMEND[_pid] + _pairs
for _pid, _pairs in _AMEND.items():
    for _old, _new in _pairs:
        assert _old in CLAIMS[_pid]["level"], (_pid, _old)
        CLAIMS[_pid]["level"] = CLAIMS[_pid]["level"].replace(_old, _new)

# rounds 5 and 6 of seeded changes (DESIGN.md section 11): clauses added to the decided level
_APPEND = {
    "C01": " The keys of pass-through units are parsed from the unit id only on rows taken from the feed (baseline units keep their known county / district).",
    "C02": " A condition the configuration does not decide (a defensive `if column in frame.columns`) is enumerated: each table is the documented sum on every path.",
    "C03": " The gaussian unit and group bounds are finite whatever the fitted scale (restated from C15.R4), so the floor cannot be lost to a NaN.",
    "C05": " The settings container of a request (model_parameters, a mutable default) is never written to, so the covariates of one request cannot reach "
           "a later covariate-free one (restated from C12.R4).",
    "C08": " Prediction and bounds of one summary come from the estimates of the same summary call (restated from C12.R7).",
    "C10": " Which frame a unit below the threshold is a row of (reporting / nonreporting / each exclusion reason) does not depend on its count: complete "
           "truth table over the count-derived atoms of the unit split (turnout-factor limits, outlier flags).",
    "C11": " The numbers of a pass-through unit that the models read are NaN-free (restated from C01.R1), so one extra row cannot spread a NaN to other groups.",
    "C12": " Nothing reachable from the national-summary entry point - which can be called any number of times on the model one run left on the client - draws "
           "from a generator stored on an object, so the n-th summary does not depend on the n-1 before it.",
    "C13": " The interval columns of one level are filled from that level's intervals alone (restated from C02.R5), not from a combination over the requested levels.",
    "C16": " The per-state feature copies are written per state that has a reporting unit (also when the state list is derived or hoisted).",
    "C17": " Every return that hands back estimates - shortcuts included - is dominated by both irregularity tests.",
    "C18": " Write sites are judged by module also when writers are merged or inlined, and no storage key is formatted with a collection.",
    "C19": " The missing download is never dereferenced outside the 'is not None' path, so an empty window stays 'no data' rather than a TypeError.",
    "C20": " Fits made through functools.partial are read with the bound arguments in place.",
}
for _pid, _txt in _APPEND.items():
    CLAIMS[_pid]["level"] = CLAIMS[_pid]["level"].rstrip() + _txt

# round 7 (changes outside the anchored functions)
_APPEND7 = {
    "C01": " Every row of the caller's feed reaches the data handler (no row filter between the entry point's argument and CombinedDataHandler).",
    "C03": " The floored vector is published on the rows it was computed for: the results handler stores the frames of get_units themselves (or plain copies).",
    "C05": " The closed-form vector is published on the rows it was computed for (results handler stores the frames of get_units or plain copies).",
    "C08": " The aggregate steps get the same unit frames in every iteration of the client's loops, so the contest-level quantities the summary reads do not "
           "depend on which other tables were requested, or in which order.",
    "C11": " No row of the feed is filtered away before the data handler sees it (restated from C01.R8).",
    "C12": " Attributes that keep a caller's container by reference (interval levels, estimands) are never changed in place, directly or through an alias.",
    "C13": " The unit frames handed to the model steps inside the client's loops are loop-invariant; a flag written in an except handler counts as state that "
           "depends on the failing call's arguments.",
    "C17": " The history stored by get_versioned_results is the whole download (no version filtered out before the per-unit pass).",
    "C19": " The window bounds reach the listing as the instants the caller named: parsed and converted between timezones, never re-labelled (unless bare) or shifted.",
}
for _pid, _txt in _APPEND7.items():
    CLAIMS[_pid]["level"] = CLAIMS[_pid]["level"].rstrip() + _txt
