"""Whole-tree behaviour-preserving rewrites of a copy of /repo/src (used by tools/benign_auto.py and by the thorough tier's audit):
   A  re-print every module from its AST (formatting / comments / line numbers change)
   B  A + rename every function-local variable (simple functions only)
   C  A + a statement at the top of every function body
   D  A + scope-aware renaming of locals in every function, also those with lambdas / comprehensions / local functions
   E  A + operands of every multiplication swapped
   H  A + every if / else (and conditional expression) inverted: `if not c: B else: A`
   G  A + every comparison flipped (`a < b` -> `b > a`)
   K  A + a temporary before every return
   O  A + methods of every class in reverse order
   T  A + keyword arguments of every call in reverse order
   R  A + the first positional argument of a call hoisted into a temporary when it is itself a call
   M  A + an unrelated method added to every class and an unrelated function to every module
   F  A + every plain f-string written as a concatenation: f"results_{e}" -> "results_" + str(e)
   X  A + every plain method split into a forwarding wrapper and an implementation: def m(self, a): return self._m_impl(a)
   DEHGKOCTRMF  all of them together
Every check must stay silent (exit 0) on each of them."""
import ast
import os

KINDS = ["A", "B", "C", "D", "E", "H", "G", "K", "O", "T", "R", "M", "F", "X", "DEHGKOCTRMF"]


class Renamer(ast.NodeTransformer):
    def visit_FunctionDef(self, node):
        self.generic_visit(node)
        # only top-level-of-function renames, skip functions with nested defs / lambdas using free names
        params = {a.arg for a in node.args.posonlyargs + node.args.args + node.args.kwonlyargs}
        if node.args.vararg: params.add(node.args.vararg.arg)
        if node.args.kwarg: params.add(node.args.kwarg.arg)
        nested = [n for n in ast.walk(node) if n is not node and isinstance(n, (ast.FunctionDef, ast.Lambda, ast.ListComp, ast.SetComp, ast.DictComp, ast.GeneratorExp))]
        if nested:
            return node
        strings = " ".join(n.value for n in ast.walk(node) if isinstance(n, ast.Constant) and isinstance(n.value, str))
        stored = {n.id for n in ast.walk(node) if isinstance(n, ast.Name) and isinstance(n.ctx, ast.Store)}
        globals_ = {x for n in ast.walk(node) if isinstance(n, (ast.Global, ast.Nonlocal)) for x in n.names}
        ren = {n: n + "_rn" for n in stored if n not in params and n not in globals_ and n not in strings and not n.startswith("_")}
        for n in ast.walk(node):
            if isinstance(n, ast.Name) and n.id in ren:
                n.id = ren[n.id]
        return node


SCOPES = (ast.FunctionDef, ast.Lambda, ast.ListComp, ast.SetComp, ast.DictComp, ast.GeneratorExp)


def _own_walk(node):
    """nodes of a scope without descending into nested scopes (the nested scope node itself is yielded)"""
    stack = list(ast.iter_child_nodes(node))
    while stack:
        n = stack.pop()
        yield n
        if not isinstance(n, SCOPES):
            stack.extend(ast.iter_child_nodes(n))


def _bound(scope):
    out = set()
    if isinstance(scope, (ast.FunctionDef, ast.Lambda)):
        a = scope.args
        out |= {x.arg for x in a.posonlyargs + a.args + a.kwonlyargs}
        if a.vararg: out.add(a.vararg.arg)
        if a.kwarg: out.add(a.kwarg.arg)
    for n in _own_walk(scope):
        if isinstance(n, ast.Name) and isinstance(n.ctx, (ast.Store, ast.Del)):
            out.add(n.id)
    return out


class DeepRenamer(ast.NodeTransformer):
    """B2: scope-aware renaming of the locals of every outermost function, including their uses as free variables in
    nested lambdas / comprehensions / local functions (names rebound in a nested scope are left alone)."""

    def visit_FunctionDef(self, node):
        params = _bound(ast.Lambda(args=node.args, body=ast.Constant(value=None)))
        mine = _bound(node) - params
        nested_bound = set()
        for n in ast.walk(node):
            if n is not node and isinstance(n, SCOPES):
                nested_bound |= _bound(n)
        strings = " ".join(n.value for n in ast.walk(node) if isinstance(n, ast.Constant) and isinstance(n.value, str))
        globals_ = {x for n in ast.walk(node) if isinstance(n, (ast.Global, ast.Nonlocal)) for x in n.names}
        # names also bound by something that is not a Name node (def / class / import / except .. as / match) cannot be renamed
        # consistently by rewriting Name nodes only
        other_binders = set()
        for n in ast.walk(node):
            if n is not node and isinstance(n, (ast.FunctionDef, ast.AsyncFunctionDef, ast.ClassDef)):
                other_binders.add(n.name)
            elif isinstance(n, (ast.Import, ast.ImportFrom)):
                other_binders |= {(a.asname or a.name).split(".")[0] for a in n.names}
            elif isinstance(n, ast.ExceptHandler) and n.name:
                other_binders.add(n.name)
        ren = {n: n + "_q" for n in mine if n not in nested_bound and n not in globals_ and n not in strings and not n.startswith("_")
               and n not in other_binders}
        for n in ast.walk(node):
            if isinstance(n, ast.Name) and n.id in ren:
                n.id = ren[n.id]
        return node


class MulSwap(ast.NodeTransformer):
    """E: swap the operands of every multiplication (exactly commutative for numbers, numpy arrays and list * int)."""

    def visit_BinOp(self, node):
        self.generic_visit(node)
        if isinstance(node.op, ast.Mult):
            node.left, node.right = node.right, node.left
        return node


class IfInvert(ast.NodeTransformer):
    """H: `if c: A else: B` -> `if not c: B else: A` for every if with a plain else branch (not an elif chain), and
    `a if c else b` -> `b if not c else a`."""

    def visit_If(self, node):
        self.generic_visit(node)
        if node.orelse and not (len(node.orelse) == 1 and isinstance(node.orelse[0], ast.If)):
            node.test = ast.UnaryOp(op=ast.Not(), operand=node.test)
            node.body, node.orelse = node.orelse, node.body
        return node

    def visit_IfExp(self, node):
        self.generic_visit(node)
        node.test = ast.UnaryOp(op=ast.Not(), operand=node.test)
        node.body, node.orelse = node.orelse, node.body
        return node


class CmpFlip(ast.NodeTransformer):
    """G: `a < b` -> `b > a`, `a == b` -> `b == a` ... for every single-operator comparison."""
    FLIP = {ast.Lt: ast.Gt, ast.Gt: ast.Lt, ast.LtE: ast.GtE, ast.GtE: ast.LtE, ast.Eq: ast.Eq, ast.NotEq: ast.NotEq}

    def visit_Compare(self, node):
        self.generic_visit(node)
        if len(node.ops) == 1 and type(node.ops[0]) in self.FLIP:
            node.left, node.comparators = node.comparators[0], [node.left]
            node.ops = [self.FLIP[type(node.ops[0])]()]
        return node


class RetTemp(ast.NodeTransformer):
    """K: `return e` -> `ret_q = e; return ret_q` (a temporary before every return)."""

    def generic_visit(self, node):
        super().generic_visit(node)
        for field in ("body", "orelse", "finalbody"):
            b = getattr(node, field, None)
            if isinstance(b, list):
                out = []
                for st in b:
                    if isinstance(st, ast.Return) and st.value is not None:
                        out.append(ast.Assign(targets=[ast.Name(id="ret_q", ctx=ast.Store())], value=st.value, lineno=st.lineno))
                        out.append(ast.Return(value=ast.Name(id="ret_q", ctx=ast.Load())))
                    else:
                        out.append(st)
                setattr(node, field, out)
        return node


class MethodReverse(ast.NodeTransformer):
    """O: the methods of every class in reverse order (other class-level statements keep their places)."""

    def visit_ClassDef(self, node):
        self.generic_visit(node)
        idx = [i for i, st in enumerate(node.body) if isinstance(st, ast.FunctionDef) and not st.decorator_list]
        fns = [node.body[i] for i in idx][::-1]
        for i, f in zip(idx, fns):
            node.body[i] = f
        return node


class Logger(ast.NodeTransformer):
    def visit_FunctionDef(self, node):
        self.generic_visit(node)
        stmt = ast.parse("print('', end='')").body[0]
        i = 1 if node.body and isinstance(node.body[0], ast.Expr) and isinstance(node.body[0].value, ast.Constant) else 0
        node.body.insert(i, stmt)
        return node


class KwReverse(ast.NodeTransformer):
    """T: keyword arguments of every call in reverse order (named keywords only; **kwargs keep their place at the end)."""

    def visit_Call(self, node):
        self.generic_visit(node)
        named = [k for k in node.keywords if k.arg is not None]
        star = [k for k in node.keywords if k.arg is None]
        fn = node.func.attr if isinstance(node.func, ast.Attribute) else (node.func.id if isinstance(node.func, ast.Name) else "")
        # callees for which the ORDER of keywords is observable (column / key order of the result) are left alone
        if fn in ("assign", "agg", "aggregate", "DataFrame", "Series", "dict", "OrderedDict", "update", "namedtuple", "rename"):
            return node
        if len(named) > 1 and not star:
            node.keywords = named[::-1]
        return node


class HoistArg(ast.NodeTransformer):
    """R: `x = f(g(..), ..)` -> `arg_q = g(..); x = f(arg_q, ..)` for simple assignments in function bodies whose value is a
    call with a call as FIRST positional argument and a plain name / attribute chain of names as callee."""

    def _simple_callee(self, f):
        while isinstance(f, ast.Attribute):
            f = f.value
        return isinstance(f, ast.Name)

    def generic_visit(self, node):
        super().generic_visit(node)
        for field in ("body", "orelse", "finalbody"):
            b = getattr(node, field, None)
            if not isinstance(b, list) or not isinstance(node, (ast.FunctionDef, ast.If, ast.For, ast.With, ast.Try)):
                continue
            out = []
            for st in b:
                if isinstance(st, ast.Assign) and len(st.targets) == 1 and isinstance(st.targets[0], ast.Name) and isinstance(st.value, ast.Call) \
                        and st.value.args and isinstance(st.value.args[0], ast.Call) and self._simple_callee(st.value.func) \
                        and not any(isinstance(x, (ast.Lambda, ast.NamedExpr, ast.Starred)) for x in ast.walk(st.value)):
                    tmp = ast.Name(id="arg_q", ctx=ast.Store())
                    out.append(ast.Assign(targets=[tmp], value=st.value.args[0], lineno=st.lineno))
                    st.value.args[0] = ast.Name(id="arg_q", ctx=ast.Load())
                out.append(st)
            setattr(node, field, out)
        return node


class AddMethod(ast.NodeTransformer):
    """M: an unrelated helper method added to every class and an unrelated function to every module."""

    def visit_ClassDef(self, node):
        self.generic_visit(node)
        node.body.append(ast.parse("def describe_q(self):\n    return f'{type(self).__name__} with {len(vars(self))} attributes'\n").body[0])
        return node

    def visit_Module(self, node):
        self.generic_visit(node)
        node.body.append(ast.parse("def _unused_helper_q(values):\n    total = 0\n    for v in values:\n        total += v\n    return total\n").body[0])
        return node


class FStringConcat(ast.NodeTransformer):
    """f"a{b}c" -> "a" + str(b) + "c" for f-strings without conversions / format specs (format(b, "") is str(b) for the str, int and
    float values these strings are built from)"""

    def visit_JoinedStr(self, node):
        self.generic_visit(node)
        parts = []
        for v in node.values:
            if isinstance(v, ast.Constant) and isinstance(v.value, str):
                parts.append(v)
            elif isinstance(v, ast.FormattedValue) and v.conversion == -1 and v.format_spec is None:
                parts.append(ast.Call(func=ast.Name(id="str", ctx=ast.Load()), args=[v.value], keywords=[]))
            else:
                return node
        if not parts:
            return node
        if not any(isinstance(p_, ast.Constant) for p_ in parts[:1]) and len(parts) == 1:
            return parts[0]
        out = parts[0]
        for p_ in parts[1:]:
            out = ast.BinOp(left=out, op=ast.Add(), right=p_)
        return out


class SplitMethods(ast.NodeTransformer):
    """def m(self, a, b=1): BODY   ->   def m(self, a, b=1): return self._m_impl(a, b)  +  def _m_impl(self, a, b=1): BODY
    for plain instance methods (no decorators, no *args / **kwargs / keyword-only parameters, not a dunder, no nested use of the method's own
    name, no super() without arguments - which needs the defining method's cell)."""

    def visit_ClassDef(self, node):
        self.generic_visit(node)
        body = []
        for st in node.body:
            body.append(st)
            if not isinstance(st, ast.FunctionDef) or st.decorator_list or st.name.startswith("__"):
                continue
            a = st.args
            if a.vararg or a.kwarg or a.kwonlyargs or a.posonlyargs or not a.args or a.args[0].arg != "self":
                continue
            if any(isinstance(n, ast.Name) and n.id == "super" for n in ast.walk(st)):
                continue
            if any(isinstance(n, (ast.Yield, ast.YieldFrom)) for n in ast.walk(st)):
                continue
            impl = ast.FunctionDef(name=f"{st.name}_impl_", args=a, body=st.body, decorator_list=[], returns=None, type_comment=None, type_params=[])
            call = ast.Call(func=ast.Attribute(value=ast.Name(id="self", ctx=ast.Load()), attr=impl.name, ctx=ast.Load()),
                            args=[ast.Name(id=x.arg, ctx=ast.Load()) for x in a.args[1:]], keywords=[])
            doc = [st.body[0]] if (st.body and isinstance(st.body[0], ast.Expr) and isinstance(st.body[0].value, ast.Constant) and isinstance(st.body[0].value.value, str)) else []
            wrapper = ast.FunctionDef(name=st.name, args=a, body=doc + [ast.Return(value=call)], decorator_list=[], returns=st.returns, type_comment=None, type_params=[])
            body[-1] = wrapper
            body.append(impl)
        node.body = body
        return node


PASSES = {"X": lambda: SplitMethods(), "F": lambda: FStringConcat(), "B": lambda: Renamer(), "D": lambda: DeepRenamer(), "C": lambda: Logger(), "E": lambda: MulSwap(), "H": lambda: IfInvert(),
          "G": lambda: CmpFlip(), "K": lambda: RetTemp(), "O": lambda: MethodReverse(), "T": lambda: KwReverse(), "R": lambda: HoistArg(), "M": lambda: AddMethod()}


def transform(root, kind):
    """`kind` is one letter or several (applied in order; 'A' = re-print only)."""
    for dp, _, fns in os.walk(os.path.join(root, "src")):
        for fn in fns:
            if not fn.endswith(".py"):
                continue
            p = os.path.join(dp, fn)
            src = open(p).read()
            tree = ast.parse(src)
            for k in kind:
                if k in PASSES:
                    tree = PASSES[k]().visit(tree)
                    ast.fix_missing_locations(tree)
                    # re-parse so that parent / position information is consistent for the next pass
                    tree = ast.parse(ast.unparse(tree))
            out = ast.unparse(tree) + "\n"
            compile(out, p, "exec")
            open(p, "w").write(out)
