"""setup_cmd: nothing to build. Parses every source file under /repo/src and confirms that the installed elexsolver
sources (used for callee signatures) are readable."""
import sys

from .model import AnalysisError, Repo, external_signature


def main():
    try:
        r = Repo()
        n = sum(1 for _ in r.all_functions())
        external_signature("elexsolver.QuantileRegressionSolver", "QuantileRegressionSolver", "fit")
        external_signature("elexsolver.OLSRegressionSolver", "OLSRegressionSolver", "fit")
    except AnalysisError as e:
        print("SETUP-ERROR", e)
        return 2
    print(f"setup ok: {len(r.modules)} modules, {n} functions parsed")
    return 0


if __name__ == "__main__":
    sys.exit(main())
