"""Checker self-test: every check is run against scratch copies of /repo/src with one seeded change.

 must-fire mutants: the named property check must report a violation (optionally of a given rule prefix);
 benign variants:   behaviour-preserving rewrites; every listed check must stay silent (exit 0).

Scratch copies live under $TMPDIR (outside /repo and /verif) and are removed in a finally block.
Usage: python -m sa.selftest [PROP ...] [--jobs N] [--list]
"""
from __future__ import annotations

import argparse
import concurrent.futures as cf
import json
import os
import shutil
import subprocess
import sys
import tempfile
import time

VERIF = os.path.dirname(os.path.dirname(os.path.abspath(__file__)))
REPO = os.environ.get("VERIF_REPO", "/repo")


def load_corpus():
    """Textual mutants / benign variants of sa/mutants.py plus the independently seeded changes kept under seeded/<id>/
    (patch.diff, applied with `git apply`): each must be reported by the check of its own property."""
    from .mutants import MUTANTS, BENIGN
    seeds = []
    sd = os.path.join(VERIF, "seeded")
    if os.path.isdir(sd):
        for d in sorted(os.listdir(sd)):
            pf, mf = os.path.join(sd, d, "patch.diff"), os.path.join(sd, d, "meta.json")
            if os.path.isfile(pf) and os.path.isfile(mf):
                prop = json.load(open(mf)).get("property") or d.split("-")[0]
                seeds.append({"id": f"seed-{d}", "prop": prop, "rule": None, "edits": [], "patch": pf})
    # behaviour-preserving refactorings written by independent sub-agents (benign/<PROP>/patch<n>.diff, each verified by its author with the
    # suite and an exact differential check): ALL checks must stay silent on each of them
    refs = []
    bd = os.path.join(VERIF, "benign")
    allp = [c["property_id"] for c in json.load(open(os.path.join(VERIF, "MANIFEST.json")))["checks"]]
    if os.path.isdir(bd):
        for d in sorted(os.listdir(bd)):
            for f in sorted(os.listdir(os.path.join(bd, d))):
                if f.startswith("patch") and f.endswith(".diff"):
                    refs.append({"id": f"refactor-{d}-{f[5:-5]}", "props": allp, "edits": [], "patch": os.path.join(bd, d, f)})
    # round 2 (held out when it was written, section 13 of DESIGN.md): the refactorings that were repaired to silence are part of the corpus;
    # the ones listed in benign2/NOT_SILENT.txt are known not to be (different algorithms / data structures; recorded, not hidden)
    b2 = os.path.join(VERIF, "benign2")
    if os.path.isdir(b2):
        try:
            skip = {l.strip() for l in open(os.path.join(b2, "NOT_SILENT.txt")) if l.strip()}
        except OSError:
            skip = set()
        for d in sorted(os.listdir(b2)):
            if not os.path.isdir(os.path.join(b2, d)):
                continue
            for f in sorted(os.listdir(os.path.join(b2, d))):
                if f.startswith("patch") and f.endswith(".diff") and f"{d}/{f}" not in skip:
                    refs.append({"id": f"refactor2-{d}-{f[5:-5]}", "props": allp, "edits": [], "patch": os.path.join(b2, d, f)})
    # round 4 (small commits around the rules of seed rounds 5-7): all 40 silent, part of the corpus
    b4 = os.path.join(VERIF, "benign4")
    if os.path.isdir(b4):
        for d in sorted(os.listdir(b4)):
            if not os.path.isdir(os.path.join(b4, d)):
                continue
            for f in sorted(os.listdir(os.path.join(b4, d))):
                if f.startswith("patch") and f.endswith(".diff"):
                    refs.append({"id": f"refactor4-{d}-{f[5:-5]}", "props": allp, "edits": [], "patch": os.path.join(b4, d, f)})
    return list(MUTANTS) + seeds, list(BENIGN) + refs


def apply_edits(root, edits):
    for rel, old, new in edits:
        p = os.path.join(root, rel)
        s = open(p, encoding="utf-8").read()
        if s.count(old) < 1:
            return f"anchor text not found in {rel}: {old[:60]!r}"
        s = s.replace(old, new, 1)
        open(p, "w", encoding="utf-8").write(s)
    return None


def run_one(kind, m, props):
    tmp = tempfile.mkdtemp(prefix="sa-mut-")
    try:
        shutil.copytree(os.path.join(REPO, "src"), os.path.join(tmp, "src"))
        if m.get("patch"):  # the patch first: textual edits of a variant may sit on top of a refactoring
            pf = m["patch"] if os.path.isabs(m["patch"]) else os.path.join(VERIF, m["patch"])
            r = subprocess.run(["git", "apply", "--whitespace=nowarn", pf], cwd=tmp, capture_output=True, text=True)
            if r.returncode != 0:
                return {"id": m["id"], "kind": kind, "status": "stale", "detail": "patch does not apply: " + r.stderr.strip()[:200]}
        err = apply_edits(tmp, m["edits"])
        if err:
            return {"id": m["id"], "kind": kind, "status": "stale", "detail": err}
        # the variant must still compile
        for rel, _, _ in m["edits"]:
            try:
                compile(open(os.path.join(tmp, rel)).read(), rel, "exec")
            except SyntaxError as e:
                return {"id": m["id"], "kind": kind, "status": "stale", "detail": f"does not compile: {e}"}
        res = {}
        for prop in props:
            p = subprocess.run([sys.executable, "-B", "-m", "sa.run", prop, "--repo", tmp, "--json", "--no-evidence"],
                               cwd=VERIF, capture_output=True, text=True)
            line = next((l for l in p.stdout.splitlines() if l.startswith("{")), None)
            data = json.loads(line) if line else {"status": 2, "error": p.stdout[-300:] + p.stderr[-300:], "obligations": []}
            known = {(k["rule"], k["key"]) for k in json.load(open(os.path.join(VERIF, "known_findings.json")))["findings"]
                     if k.get("status") == "open" and k.get("property") == prop}
            viol = [o for o in data["obligations"] if o["verdict"] == "violation" and (o["rule"], o["key"]) not in known]
            res[prop] = {"exit": p.returncode, "error": data.get("error"), "violations": viol}
        return {"id": m["id"], "kind": kind, "status": "ran", "res": res, "m": m}
    finally:
        shutil.rmtree(tmp, ignore_errors=True)


def judge(r):
    if r["status"] != "ran":
        return "STALE", r["detail"]
    m = r["m"]
    if r["kind"] == "mutant":
        pr = r["res"][m["prop"]]
        if pr["exit"] == 2:
            return "ERROR", (pr["error"] or "").splitlines()[0][:200] if pr["error"] else "exit 2"
        want = m.get("rule")
        hits = [v for v in pr["violations"] if not want or v["rule"].startswith(want)]
        if hits:
            return "CAUGHT", f"{hits[0]['rule']} @ {hits[0]['where']}: {hits[0]['detail'][:140]}"
        if pr["violations"]:
            return "CAUGHT-OTHER", f"{pr['violations'][0]['rule']}: {pr['violations'][0]['detail'][:140]}"
        return "MISSED", "no violation reported"
    bad = []
    for prop, pr in r["res"].items():
        if pr["exit"] == 2:
            bad.append(f"{prop}: ANALYSIS-ERROR {(pr['error'] or '').splitlines()[0][:160]}")
        elif pr["violations"]:
            v = pr["violations"][0]
            bad.append(f"{prop}: {v['rule']} {v['detail'][:140]}")
    return ("SILENT", "") if not bad else ("FALSE-ALARM", "; ".join(bad))


def main(argv=None):
    ap = argparse.ArgumentParser()
    ap.add_argument("props", nargs="*")
    ap.add_argument("--jobs", type=int, default=16)
    ap.add_argument("--only", default=None, help="substring of mutant id")
    ap.add_argument("--json", default=None)
    a = ap.parse_args(argv)
    MUT, BEN = load_corpus()
    props = [p.upper() for p in a.props]
    jobs = []
    for m in MUT:
        if props and m["prop"] not in props:
            continue
        if a.only and a.only not in m["id"]:
            continue
        jobs.append(("mutant", m, [m["prop"]]))
    for m in BEN:
        ps = [p for p in m["props"] if not props or p in props]
        if not ps or (a.only and a.only not in m["id"]):
            continue
        jobs.append(("benign", m, ps))
    t0 = time.time()
    out = []
    with cf.ThreadPoolExecutor(max_workers=a.jobs) as ex:
        futs = [ex.submit(run_one, k, m, ps) for k, m, ps in jobs]
        for f in futs:
            out.append(f.result())
    tally = {}
    rows = []
    for r in out:
        verdict, detail = judge(r)
        tally[verdict] = tally.get(verdict, 0) + 1
        rows.append((r["id"], r["kind"], verdict, detail))
        flag = "" if verdict in ("CAUGHT", "SILENT") else "  <<<<<<"
        print(f"{verdict:12s} {r['kind']:7s} {r['id']:44s} {detail[:150]}{flag}")
    print(f"-- {len(out)} variants in {time.time() - t0:.1f}s: {tally}")
    if a.json:
        json.dump([{"id": i, "kind": k, "verdict": v, "detail": d} for i, k, v, d in rows], open(a.json, "w"), indent=1)
    return 0 if all(v in ("CAUGHT", "SILENT", "CAUGHT-OTHER") for _, _, v, _ in rows) else 1


if __name__ == "__main__":
    sys.exit(main())
