"""E3 - statement-level control-flow graph, dominators, must-hold guard conditions.

Nodes are AST statements (compound statements contribute their test / iterator as a node). Edges carry a label:
None, ('cond', test_ast, True|False), ('exc', handler), ('loop', 'iter'|'exit').
"""
from __future__ import annotations

import ast


class Node:
    __slots__ = ("kind", "ast", "id")

    def __init__(self, kind, node, i):
        self.kind = kind  # entry exit raise stmt test loop except
        self.ast = node
        self.id = i

    @property
    def lineno(self):
        return getattr(self.ast, "lineno", 0)

    def __repr__(self):
        return f"<{self.kind}#{self.id}@{self.lineno}>"


class CFG:
    def __init__(self, funcnode):
        self.func = funcnode
        self.nodes = []
        self.succ = {}
        self.pred = {}
        self.entry = self._new("entry", funcnode)
        self.exit = self._new("exit", funcnode)
        self.raise_exit = self._new("raise", funcnode)
        self.by_ast = {}
        self._loops = []
        self._handlers = []
        last = self._block(funcnode.body, [(self.entry, None)])
        for n, lab in last:
            self._edge(n, self.exit, lab)
        self._dom = None
        self._pdom = None

    # ---- construction ---------------------------------------------------------------------
    def _new(self, kind, node):
        n = Node(kind, node, len(self.nodes))
        self.nodes.append(n)
        self.succ[n] = []
        self.pred[n] = []
        return n

    def _edge(self, a, b, label=None):
        self.succ[a].append((b, label))
        self.pred[b].append((a, label))

    def _connect(self, frontier, node):
        for n, lab in frontier:
            self._edge(n, node, lab)

    def _block(self, stmts, frontier):
        for st in stmts:
            if not frontier:
                # unreachable code: still create nodes so lookups work
                pass
            frontier = self._stmt(st, frontier)
        return frontier

    def _stmt_node(self, kind, st):
        n = self._new(kind, st)
        self.by_ast[st] = n
        if self._handlers and kind in ("stmt", "test", "loop"):
            for h in self._handlers[-1]:
                self._edge(n, h, ("exc", h.ast))
        return n

    def _stmt(self, st, frontier):
        if isinstance(st, ast.If):
            t = self._stmt_node("test", st)
            self._connect(frontier, t)
            a = self._block(st.body, [(t, ("cond", st.test, True))])
            b = self._block(st.orelse, [(t, ("cond", st.test, False))])
            return a + b
        if isinstance(st, (ast.For, ast.AsyncFor, ast.While)):
            h = self._stmt_node("loop", st)
            self._connect(frontier, h)
            self._loops.append({"head": h, "breaks": []})
            body_end = self._block(st.body, [(h, ("loop", "iter"))])
            for n, lab in body_end:
                self._edge(n, h, lab)
            info = self._loops.pop()
            out = self._block(st.orelse, [(h, ("loop", "exit"))])
            return out + info["breaks"]
        if isinstance(st, ast.Try):
            hs = []
            for hd in st.handlers:
                hn = self._new("except", hd)
                self.by_ast[hd] = hn
                hs.append(hn)
            self._handlers.append(hs)
            body_end = self._block(st.body, frontier)
            self._handlers.pop()
            body_end = self._block(st.orelse, body_end)
            outs = list(body_end)
            for hn, hd in zip(hs, st.handlers):
                outs += self._block(hd.body, [(hn, None)])
            if st.finalbody:
                outs = self._block(st.finalbody, outs)
            return outs
        if isinstance(st, (ast.With, ast.AsyncWith)):
            w = self._stmt_node("stmt", st)
            self._connect(frontier, w)
            return self._block(st.body, [(w, None)])
        n = self._stmt_node("stmt", st)
        self._connect(frontier, n)
        if isinstance(st, ast.Return):
            self._edge(n, self.exit)
            return []
        if isinstance(st, ast.Raise):
            if self._handlers:
                pass  # edges to handlers already added
            else:
                self._edge(n, self.raise_exit)
            return []
        if isinstance(st, ast.Break):
            if self._loops:
                self._loops[-1]["breaks"].append((n, None))
            return []
        if isinstance(st, ast.Continue):
            if self._loops:
                self._edge(n, self._loops[-1]["head"])
            return []
        return [(n, None)]

    # ---- queries --------------------------------------------------------------------------
    def node_of(self, astnode):
        """CFG node of the statement containing `astnode`."""
        n = astnode
        while n is not None and n not in self.by_ast:
            n = getattr(n, "_parent", None)
        return self.by_ast.get(n)

    def dominators(self):
        if self._dom is None:
            self._dom = _dominators(self.nodes, self.entry, self.pred)
        return self._dom

    def dominates(self, a, b):
        """Every path entry -> b passes a."""
        return a in self.dominators().get(b, ())

    def reachable_from(self, a, avoid=()):
        seen = set()
        stack = [a]
        while stack:
            n = stack.pop()
            for s, _ in self.succ[n]:
                if s in seen or s in avoid:
                    continue
                seen.add(s)
                stack.append(s)
        return seen

    def every_path_passes(self, a, b, via):
        """Every path from a to b passes one of the nodes in `via` (a, b themselves excluded)."""
        via = set(via)
        return b not in self.reachable_from(a, avoid=via)

    def guards(self, node):
        """Conditions (ast test, polarity) that hold on EVERY path from entry to `node`:
        forward must-analysis over edge labels (intersection at joins)."""
        facts = {n: None for n in self.nodes}  # None = top (unvisited)
        facts[self.entry] = frozenset()
        work = [self.entry]
        while work:
            n = work.pop()
            cur = facts[n]
            if n.kind == "stmt" and cur:
                killed = {x.id for x in ast.walk(n.ast) if isinstance(x, ast.Name) and isinstance(x.ctx, ast.Store)}
                if killed:
                    cur = frozenset(f for f in cur if not (killed & {y.id for y in ast.walk(f[2]) if isinstance(y, ast.Name)}))
            for s, lab in self.succ[n]:
                add = set(cur)
                if lab and lab[0] == "cond":
                    add.add((ast.dump(lab[1]), lab[2], lab[1]))
                if lab and lab[0] == "exc":
                    add = set(cur)  # facts before the raising statement still hold
                new = frozenset(add)
                old = facts[s]
                if old is None:
                    facts[s] = new
                    work.append(s)
                else:
                    keys = {(a, b) for a, b, _ in new}
                    merged = frozenset(x for x in old if (x[0], x[1]) in keys)
                    if merged != old:
                        facts[s] = merged
                        work.append(s)
        res = facts.get(node)
        return [] if res is None else [(t, pol) for _, pol, t in res]


def _dominators(nodes, entry, pred):
    allset = set(nodes)
    dom = {n: set(allset) for n in nodes}
    dom[entry] = {entry}
    # restrict to reachable nodes
    changed = True
    order = nodes
    while changed:
        changed = False
        for n in order:
            if n is entry:
                continue
            ps = [p for p, _ in pred[n]]
            if not ps:
                new = {n}
            else:
                new = set.intersection(*(dom[p] for p in ps)) | {n}
            if new != dom[n]:
                dom[n] = new
                changed = True
    return dom


def lexical_guards(node, stop=None):
    """Enclosing `if` tests (with polarity) of an AST node, innermost first."""
    out = []
    child = node
    p = getattr(node, "_parent", None)
    while p is not None and p is not stop:
        if isinstance(p, ast.If):
            if child in p.body:
                out.append((p.test, True))
            elif child in p.orelse:
                out.append((p.test, False))
        elif isinstance(p, ast.IfExp):
            if child is p.body:
                out.append((p.test, True))
            elif child is p.orelse:
                out.append((p.test, False))
        if isinstance(p, (ast.FunctionDef, ast.AsyncFunctionDef)):
            break
        child = p
        p = getattr(p, "_parent", None)
    return out
