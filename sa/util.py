"""Small shared helpers for the property rules."""
from __future__ import annotations

import ast

from .model import AnalysisError, FuncInfo, attr_chain, enclosing_stmt


def calls_in(node, include_nested=True):
    for n in ast.walk(node):
        if isinstance(n, ast.Call):
            yield n


def method_calls(node, name):
    """Calls `<anything>.name(..)` inside node."""
    return [c for c in calls_in(node) if isinstance(c.func, ast.Attribute) and c.func.attr == name]


def name_calls(node, name):
    return [c for c in calls_in(node) if isinstance(c.func, ast.Name) and c.func.id == name]


def kwarg(call, name):
    for k in call.keywords:
        if k.arg == name:
            return k.value
    return None


def const(node, default=None):
    if isinstance(node, ast.Constant):
        return node.value
    return default


def is_const(node, value):
    return isinstance(node, ast.Constant) and node.value == value and type(node.value) is type(value)


def stmt_text(node, limit=160):
    st = enclosing_stmt(node) or node
    try:
        if isinstance(st, (ast.For, ast.AsyncFor)):
            s = f"for {ast.unparse(st.target)} in {ast.unparse(st.iter)}:"
        elif isinstance(st, ast.While):
            s = f"while {ast.unparse(st.test)}:"
        elif isinstance(st, ast.If):
            s = f"if {ast.unparse(st.test)}:"
        elif isinstance(st, (ast.With, ast.AsyncWith)):
            s = "with " + ", ".join(ast.unparse(i) for i in st.items) + ":"
        elif isinstance(st, ast.Try):
            s = "try:"
        elif isinstance(st, (ast.FunctionDef, ast.AsyncFunctionDef)):
            s = f"def {st.name}(..):"
        else:
            s = ast.unparse(st)
    except Exception:
        s = "<unparseable>"
    s = " ".join(s.split())
    return s[:limit]


def anon_locals(func, text):
    """`text` with the names of the function's local variables (not its parameters) replaced by '?': a construct key that
    survives renaming of locals and insertion of unrelated locals, while staying pinned to the construct's shape."""
    import re
    node = func.node
    params = set(func.params)
    if node.args.vararg:
        params.add(node.args.vararg.arg)
    if node.args.kwarg:
        params.add(node.args.kwarg.arg)
    local = {n.id for n in ast.walk(node) if isinstance(n, ast.Name) and isinstance(n.ctx, ast.Store)} - params
    if not local:
        return text
    return re.sub(r"(?<![\w.])(" + "|".join(sorted(map(re.escape, local), key=len, reverse=True)) + r")(?!\w)", "?", text)


def late_binding_closures(func_node):
    """Closures that outlive the iteration whose variable they read: a lambda / local function that is *stored* as (part of) the
    element of a comprehension, or stored / appended inside a for loop, and reads the loop variable as a free variable.  Python
    binds free variables when the closure is CALLED, so after the loop every such closure sees the LAST value of the variable
    (pylint W0640).  Binding through a default argument (lambda x, e=e: ..) is the idiom that avoids it and is not reported.
    -> [(closure node, variable name, loop / comprehension node)]"""
    out = []
    COMP = (ast.ListComp, ast.SetComp, ast.DictComp, ast.GeneratorExp)

    def targets(t):
        return {x.id for x in ast.walk(t) if isinstance(x, ast.Name)}

    def free_reads(clo):
        a = clo.args
        bound = {x.arg for x in a.posonlyargs + a.args + a.kwonlyargs}
        if a.vararg:
            bound.add(a.vararg.arg)
        if a.kwarg:
            bound.add(a.kwarg.arg)
        body = clo.body if isinstance(clo.body, list) else [clo.body]
        for st in body:
            for x in ast.walk(st):
                if isinstance(x, ast.Name) and isinstance(x.ctx, ast.Store):
                    bound.add(x.id)
        return {x.id for st in body for x in ast.walk(st) if isinstance(x, ast.Name) and isinstance(x.ctx, ast.Load)} - bound

    for clo in ast.walk(func_node):
        if not isinstance(clo, (ast.Lambda, ast.FunctionDef)) or clo is func_node:
            continue
        reads = free_reads(clo)
        if not reads:
            continue
        child, p = clo, getattr(clo, "_parent", None)
        stored = True  # only container literals / conditional expressions between the closure and the loop
        while p is not None and p is not func_node:
            if isinstance(p, COMP):
                if stored and child is not p.generators[0].iter:
                    vars_ = set()
                    for g in p.generators:
                        vars_ |= targets(g.target)
                    for v in sorted(reads & vars_):
                        out.append((clo, v, p))
                break
            if isinstance(p, ast.For):
                # stored when the statement holding it is `x[..] = clo`, `x = clo` (then used after the loop) or `x.append(clo)`
                st = enclosing_stmt(clo)
                keeps = isinstance(st, ast.Assign) and any(isinstance(t, (ast.Subscript, ast.Attribute)) for t in st.targets) and st.value is clo
                if isinstance(st, ast.Expr) and isinstance(st.value, ast.Call) and isinstance(st.value.func, ast.Attribute) \
                        and st.value.func.attr in ("append", "add", "insert", "setdefault", "update") and any(clo is a for a in st.value.args):
                    keeps = True
                if keeps and child in p.body:
                    for v in sorted(reads & targets(p.target)):
                        out.append((clo, v, p))
                break
            if isinstance(p, (ast.Lambda, ast.FunctionDef)):
                break
            if isinstance(p, ast.Call) and child is not p.func and not (isinstance(child, ast.keyword) and child.arg is None):
                stored = False  # handed to a call inside the iteration: may be invoked right away
            elif not isinstance(p, (ast.Dict, ast.Tuple, ast.List, ast.Set, ast.IfExp, ast.Starred, ast.keyword, ast.Call)):
                stored = stored and isinstance(p, ast.expr)
            child, p = p, getattr(p, "_parent", None)
    return out


def expr_text(node, limit=160):
    s = " ".join(ast.unparse(node).split())
    return s[:limit]


def key(func, node):
    """Finding key: qualified function + normalised statement text (never a line number)."""
    return f"{func.qualname}|{stmt_text(node)}"


def attr_writes(repo, attr):
    """All `<expr>.attr = value` assignments in the repo: list of (FuncInfo, receiver ast, value ast, stmt)."""
    cache = repo.__dict__.setdefault("_attr_writes", {})
    if attr in cache:
        return cache[attr]
    out = cache[attr] = []
    for f in repo.all_functions():
        for n in ast.walk(f.node):
            tgts = []
            if isinstance(n, ast.Assign):
                tgts = [(t, n.value) for t in n.targets]
            elif isinstance(n, ast.AnnAssign) and n.value is not None:
                tgts = [(n.target, n.value)]
            elif isinstance(n, ast.AugAssign):
                tgts = [(n.target, None)]
            for t, v in tgts:
                for tt in ([t] if not isinstance(t, (ast.Tuple, ast.List)) else t.elts):
                    if isinstance(tt, ast.Attribute) and tt.attr == attr:
                        out.append((f, tt.value, v, n))
    return out


def const_attr(repo, attr):
    """If every write `x.attr = <literal>` in the repo assigns the same literal (and there is at least one, all
    inside __init__ methods), return ('const', value); else None."""
    ws = attr_writes(repo, attr)
    if not ws:
        return None
    vals = set()
    for f, recv, v, st in ws:
        if v is None:
            return None
        try:
            lit = ast.literal_eval(v)
        except Exception:
            return None
        if isinstance(lit, (list, dict, set, tuple)):
            return None
        vals.add((type(lit).__name__, lit))
    if len(vals) == 1:
        return ("const", next(iter(vals))[1])
    return None


def names_in(node):
    return {n.id for n in ast.walk(node) if isinstance(n, ast.Name)}


def own_nodes(func, types=None):
    """AST nodes lexically in func, not inside nested function definitions."""
    out = []

    def rec(n):
        for c in ast.iter_child_nodes(n):
            if isinstance(c, (ast.FunctionDef, ast.AsyncFunctionDef, ast.ClassDef)):
                continue
            if types is None or isinstance(c, types):
                out.append(c)
            rec(c)

    rec(func.node)
    return out


def dotted(expr):
    ch = attr_chain(expr)
    return ".".join(ch) if ch else None


def exception_covers(handler_type_node, repo, module, wanted):
    """Does an `except <type>` clause catch exception class `wanted` (dotted tail name)?
    Known hierarchy: UserWarning < Warning < Exception < BaseException; SolverError < Exception."""
    supers = {
        "UserWarning": {"UserWarning", "Warning", "Exception", "BaseException"},
        "SolverError": {"SolverError", "Exception", "BaseException"},
    }[wanted]
    if handler_type_node is None:
        return True

    def flat(n, depth=0):
        """exception classes named by the clause; a module-level NAME = (A, B) / NAME = A reads as what it is bound to"""
        if isinstance(n, ast.Tuple):
            return [x for e in n.elts for x in flat(e, depth)]
        if isinstance(n, ast.Name) and depth < 4 and module is not None and n.id in getattr(module, "constants", {}):
            return flat(module.constants[n.id], depth + 1)
        return [n]
    for e in flat(handler_type_node):
        ch = attr_chain(e)
        if ch and ch[-1] in supers:
            return True
    return False
