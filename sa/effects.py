"""E9 - effects: persistent-write sinks, call-graph paths to them, guard facts along a path, flag tracing."""
from __future__ import annotations

import ast

from . import util
from .cfg import CFG
from .model import AnalysisError, FuncInfo, attr_chain

LOCAL_WRITE_METHODS = {"to_pickle", "to_parquet", "to_feather", "to_excel", "to_hdf", "write_text", "write_bytes",
                       "mkdir", "touch", "unlink", "rmdir", "tofile"}
LOCAL_WRITE_FUNCS = {"os.makedirs", "os.mkdir", "os.remove", "os.rename", "os.replace", "os.rmdir", "os.unlink",
                     "numpy.save", "numpy.savez", "numpy.savetxt", "np.save", "np.savez", "np.savetxt",
                     "shutil.copy", "shutil.copyfile", "shutil.move", "shutil.rmtree", "pickle.dump"}
REMOTE_METHODS = {"put_object", "upload_file", "upload_fileobj", "delete_object", "copy_object"}


def _buffers(func):
    """Local names bound to in-memory buffers (StringIO / BytesIO) in func."""
    out = set()
    for n in ast.walk(func.node):
        if isinstance(n, ast.Assign) and isinstance(n.value, ast.Call):
            ch = attr_chain(n.value.func)
            if ch and ch[-1] in ("StringIO", "BytesIO"):
                for t in n.targets:
                    if isinstance(t, ast.Name):
                        out.add(t.id)
    return out


def find_sinks(repo):
    """-> list of (kind 'remote'|'local', FuncInfo, ast.Call, description)"""
    out = []
    for f in repo.all_functions():
        bufs = _buffers(f)
        for c in util.own_nodes(f, ast.Call):
            fn = c.func
            ch = attr_chain(fn)
            name = fn.attr if isinstance(fn, ast.Attribute) else (fn.id if isinstance(fn, ast.Name) else None)
            if name in REMOTE_METHODS:
                out.append(("remote", f, c, f"{name}"))
            elif isinstance(fn, ast.Name) and fn.id == "open":
                mode = c.args[1] if len(c.args) > 1 else util.kwarg(c, "mode")
                m = util.const(mode, "r") if mode is not None else "r"
                if not isinstance(m, str) or any(x in m for x in "wax+"):
                    out.append(("local", f, c, f"open(.., {m!r})"))
            elif name in ("to_csv", "to_json"):
                a0 = c.args[0] if c.args else util.kwarg(c, "path_or_buf")
                if a0 is None or (isinstance(a0, ast.Name) and a0.id in bufs) or util.is_const(a0, None):
                    continue
                out.append(("local", f, c, f"{name}(<path>)"))
            elif name in LOCAL_WRITE_METHODS and isinstance(fn, ast.Attribute):
                out.append(("local", f, c, f".{name}()"))
            elif ch:
                r = repo.resolve_expr(f.module, fn)
                d = r[1] if r and r[0] == "ext" else ".".join(ch)
                if d in LOCAL_WRITE_FUNCS:
                    out.append(("local", f, c, d))
    return out


class Guards:
    def __init__(self, ctx):
        self.ctx = ctx
        self.repo = ctx.repo
        self._cfg = {}

    def cfg(self, f):
        if f not in self._cfg:
            self._cfg[f] = CFG(f.node)
        return self._cfg[f]

    def atoms(self, f, node):
        """Atomic must-hold guard facts [(expr, polarity)] for reaching `node` in f (CFG must-analysis)."""
        cfg = self.cfg(f)
        cn = cfg.node_of(node)
        if cn is None:
            raise AnalysisError(f"{f.where(node)}: statement not found in CFG")
        out = []
        for test, pol in cfg.guards(cn):
            out += split_cond(test, pol)
        # a test stored in a local (`is_top = self._is_top_level_aggregate(aggregate)` .. `if is_top:`) is the test itself: a name with a
        # single definition in the function that is not a parameter reads as its defining expression
        for _ in range(4):
            new, changed = [], False
            for e, pol in out:
                if isinstance(e, ast.Name) and e.id not in f.params + f.kwonly:
                    defs = _defs_of(f, e.id)
                    if len(defs) == 1 and not (isinstance(defs[0], ast.Constant) and defs[0].value is Ellipsis):
                        new += split_cond(defs[0], pol)
                        changed = True
                        continue
                new.append((e, pol))
            out = new
            if not changed:
                break
        return out

    # ---- flag tracing ---------------------------------------------------------------------
    def trace(self, f, expr, depth=0, seen=None):
        """Set of save_output flags `expr` (evaluated in f) is equal to, 'neutral' for constant-falsy,
        or None if it is not (provably) a save_output flag."""
        seen = seen or set()
        k = (f, ast.dump(expr))
        if k in seen or depth > 8:
            return None
        seen = seen | {k}
        if isinstance(expr, ast.Constant):
            return "neutral" if not expr.value else None
        if isinstance(expr, ast.Compare) and len(expr.ops) == 1 and isinstance(expr.ops[0], ast.In):
            flag = util.const(expr.left)
            if isinstance(flag, str) and self._is_save_output(f, expr.comparators[0]):
                return {flag}
            return None
        if isinstance(expr, ast.Name):
            if expr.id in f.params + f.kwonly:
                if _assigned_in(f, expr.id):
                    return None
                return self._trace_param(f, expr.id, depth, seen)
            defs = _defs_of(f, expr.id)
            if len(defs) == 1:
                return self.trace(f, defs[0], depth + 1, seen)
            return None
        if isinstance(expr, ast.Attribute) and isinstance(expr.value, ast.Name) and expr.value.id == "self":
            ws = util.attr_writes(self.repo, expr.attr)
            res = []
            for wf, recv, val, st in ws:
                if val is None:
                    return None
                res.append(self.trace(wf, val, depth + 1, seen))
            return _merge(res)
        # X.get("k", d) / X["k"]
        keyname = None
        if isinstance(expr, ast.Call) and isinstance(expr.func, ast.Attribute) and expr.func.attr == "get" and expr.args:
            keyname = util.const(expr.args[0])
        elif isinstance(expr, ast.Subscript):
            keyname = util.const(expr.slice)
        if isinstance(keyname, str):
            res = []
            for g in self.repo.all_functions():
                for d in util.own_nodes(g, ast.Dict):
                    for kk, vv in zip(d.keys, d.values):
                        if kk is not None and util.const(kk) == keyname:
                            vv = self._entry_after_updates(g, d, keyname, vv)
                            if vv is None:
                                return None  # the entry can be overridden by a later update() with caller-supplied content
                            res.append(self.trace(g, vv, depth + 1, seen))
            return _merge(res) if res else None
        return None

    def _entry_after_updates(self, g, dict_node, keyname, value):
        """The value of dict entry `keyname` as later readers see it: a dict literal bound to a local name may be changed
        afterwards by `name.update(other)` (any key can be overridden -> None, unknown) or by `name[key] = v` (-> v)."""
        st = util.enclosing_stmt(dict_node)
        if not (isinstance(st, ast.Assign) and len(st.targets) == 1 and isinstance(st.targets[0], ast.Name) and st.value is dict_node):
            return value
        name = st.targets[0].id
        later = [n for n in ast.walk(g.node) if isinstance(n, ast.stmt) and (n.lineno, n.col_offset) > (st.lineno, st.col_offset)]
        later.sort(key=lambda n: (n.lineno, n.col_offset))
        cur = value
        for n in later:
            if isinstance(n, ast.Expr) and isinstance(n.value, ast.Call) and isinstance(n.value.func, ast.Attribute) \
                    and n.value.func.attr in ("update", "setdefault", "pop", "clear") and isinstance(n.value.func.value, ast.Name) \
                    and n.value.func.value.id == name:
                c = n.value
                if c.func.attr == "update":
                    arg = c.args[0] if c.args else None
                    if isinstance(arg, ast.Dict) and all(k is not None and util.const(k) != keyname for k in arg.keys) and not c.keywords:
                        continue
                    if arg is None and all(k.arg is not None and k.arg != keyname for k in c.keywords):
                        continue
                    cur = None
                elif c.func.attr in ("pop", "clear"):
                    cur = None
            elif isinstance(n, ast.Assign) and len(n.targets) == 1 and isinstance(n.targets[0], ast.Subscript) \
                    and isinstance(n.targets[0].value, ast.Name) and n.targets[0].value.id == name and util.const(n.targets[0].slice) == keyname:
                cur = n.value
        return cur

    def _trace_param(self, f, pname, depth, seen):
        callers = self.ctx.cg.callers_of(f)
        res = []
        for g, call in callers:
            if not isinstance(call, ast.Call):
                continue
            arg = _arg_for(f, call, pname)
            if arg is None:
                d = f.defaults().get(pname)
                if d is None:
                    return None
                res.append(self.trace(f, d, depth + 1, seen))
            else:
                res.append(self.trace(g, arg, depth + 1, seen))
        return _merge(res) if res else None

    def _is_save_output(self, f, expr):
        """expr is kwargs.get('save_output', ..) or a name bound once to it (or a parameter named save_output)."""
        if isinstance(expr, ast.Call) and isinstance(expr.func, ast.Attribute) and expr.func.attr == "get":
            return bool(expr.args) and util.const(expr.args[0]) == "save_output"
        if isinstance(expr, ast.Name):
            defs = _defs_of(f, expr.id)
            if len(defs) == 1:
                return self._is_save_output(f, defs[0])
            if expr.id == "save_output" and expr.id in f.params + f.kwonly:
                return True
        return False

    def is_env_nonlocal(self, f, expr, pol):
        """(expr, pol) states APP_ENV != 'local' where APP_ENV is the module constant of file_utils."""
        if not (isinstance(expr, ast.Compare) and len(expr.ops) == 1):
            return False
        l, r = expr.left, expr.comparators[0]
        if isinstance(r, ast.Name) and isinstance(l, ast.Constant):
            l, r = r, l
        if not (isinstance(l, ast.Name) and l.id == "APP_ENV" and util.const(r) == "local"):
            return False
        if _defs_of(f, "APP_ENV") or "APP_ENV" in f.params:
            return False
        res = self.repo.resolve_name(f.module, "APP_ENV")
        if not (res and res[0] == "const" and res[1].name == "elexmodel.utils.file_utils"):
            return False
        op = expr.ops[0]
        return (isinstance(op, ast.NotEq) and pol) or (isinstance(op, ast.Eq) and not pol)


def split_cond(test, pol):
    if isinstance(test, ast.BoolOp):
        if (isinstance(test.op, ast.And) and pol) or (isinstance(test.op, ast.Or) and not pol):
            out = []
            for v in test.values:
                out += split_cond(v, pol)
            return out
        return [(test, pol)]
    if isinstance(test, ast.UnaryOp) and isinstance(test.op, ast.Not):
        return split_cond(test.operand, not pol)
    return [(test, pol)]


def _merge(res):
    real = [r for r in res if r != "neutral"]
    if any(r is None for r in real):
        return None
    if not real:
        return "neutral"
    first = real[0]
    return first if all(r == first for r in real) else None


def _defs_of(f, name):
    out = []
    for n in util.own_nodes(f):
        if isinstance(n, ast.Assign):
            for t in n.targets:
                if isinstance(t, ast.Name) and t.id == name:
                    out.append(n.value)
                elif isinstance(t, (ast.Tuple, ast.List)) and any(isinstance(e, ast.Name) and e.id == name for e in t.elts):
                    # a, b, c = (x, y, z): each name is defined by the element at its position (what an inlined helper that returned a
                    # tuple leaves behind)
                    v = n.value
                    if isinstance(v, (ast.Tuple, ast.List)) and len(v.elts) == len(t.elts) \
                            and not any(isinstance(e, ast.Starred) for e in list(v.elts) + list(t.elts)):
                        out += [ve for te, ve in zip(t.elts, v.elts) if isinstance(te, ast.Name) and te.id == name]
                    else:
                        out.append(ast.Constant(value=Ellipsis))
        elif isinstance(n, (ast.AugAssign, ast.AnnAssign)) and isinstance(n.target, ast.Name) and n.target.id == name:
            out.append(n.value if n.value is not None else ast.Constant(value=Ellipsis))
        elif isinstance(n, (ast.For,)) and any(isinstance(x, ast.Name) and x.id == name for x in ast.walk(n.target)):
            out.append(ast.Constant(value=Ellipsis))
    return out


def _assigned_in(f, name):
    return bool(_defs_of(f, name))


def _arg_for(callee, call, pname):
    params = callee.params
    if callee.cls is not None and params and params[0] in ("self", "cls"):
        params = params[1:]
    for k in call.keywords:
        if k.arg == pname:
            return k.value
    if pname in params:
        i = params.index(pname)
        if i < len(call.args) and not any(isinstance(a, ast.Starred) for a in call.args[: i + 1]):
            return call.args[i]
    return None
