"""C11 - an unexpected unit only adds its own votes.

 R1 the unexpected-unit terms S_U(results_e) are present, grouped by the aggregate keys, in counted votes, prediction and both
    bounds at every non-classification level (nonparametric and gaussian estimators);
 R2 key availability: every key by which unexpected units are grouped is recovered for them (all office classes x request lists);
    the id parsers doing that are total: no index >= 1 into the split id without a length guard (R2.parse-total); each key comes from
    ITS part of the id (R2.parser: the parser's decision tree is evaluated over ids of 1-3 parts, district / non-district unit types:
    county_fips = second component of a <district>_<county> id else the first, district = the first);
 R3 bootstrap: S_U(results_margin) and S_U(results_weights) enter numerator and denominator of every aggregate quantity
    (prediction, the four bootstrap totals and the recomputed totals of the interval function); every quotient by a group turnout
    total maps 0/0 to 0 (R3.zero-turnout: a new group can have zero two-party votes);
 R4 design independence: in compute_bootstrap_errors nothing that reaches a fit or a random draw depends on unexpected_units -
    neither through their row values nor through the category universe (columns of get_dummies over all units);
 R5 belief agreement: county_classification is unknown for unexpected units (BaseElectionModel excludes them at that level);
    every other use of the aggregate key list on rows that include unexpected units must be under the same test;
 R7 summary-contests: the per-contest vectors the national summary reads (error matrices, stored prediction, call and stop vectors)
    are restricted - where stored or where read - by a mask derived from the expected rows of the indicator, so that a group that
    exists only through an unexpected unit is shown in the tables but is not a contest (today it is one: open known finding K5).
 R8 nan-free: every results_* column of the units taken from the feed is filled with 0 (restated from C01.R1.passed-through-nan-free):
    an unexpected unit listed without votes must not put NaN into the indicator products, where 0 * NaN reaches every group.
 R9 feed-complete: no row of the feed is filtered away before the data handler (restated from C01.R8).
"""
from __future__ import annotations

import ast

from .. import aggmodel as am, ir, util
from ..aggmodel import N_, R_, U_
from ..frames import Frames
from ..model import AnalysisError, FuncInfo
from .c01 import BASE, BM, CLS_FLAG, fname, key_availability, model_builder  # noqa: F401
from .c02 import GM, NP, iname

SELF = ("param", "self")


def _u_terms(lin):
    return [(s, a) for s, a in lin if a[0] == "gsum" and a[1] == U_]


def b_loc(builder, term, fallback):
    loc = builder.loc.get(term)
    return loc[1] if loc else fallback.node


def check(ctx):
    repo = ctx.repo
    ctx.explanation = (
        "Frame algebra / indicator-matrix bookkeeping for the unexpected-unit terms of every aggregate quantity; constant folding "
        "of get_aggregate_list for key recovery; a taint analysis over the def-use terms of compute_bootstrap_errors with two "
        "taint kinds (row values, category universe) and the sanitisers the code really has (row slices that exclude the "
        "unexpected rows; Featurizer.filter_to_active_features); a guard-agreement rule for the classification key."
    )
    ctx.assumptions += ["Featurizer.filter_to_active_features keeps only levels seen on reporting & expected rows (C16.R3)",
                        "pandas get_dummies creates one column per distinct value of ALL rows it is given"]
    mb = model_builder(ctx)
    F = Frames(mb)
    res = fname("results_")
    # ---- R1 --------------------------------------------------------------------------------------
    bf = ctx.fn(BASE, "BaseElectionModel.get_aggregate_predictions")
    bs = mb.summarize(bf)
    tab = bs.ret()
    npc = repo.cls(NP, "NonparametricElectionModel")
    nf = ctx.fn(NP, "NonparametricElectionModel.get_aggregate_prediction_intervals")
    ns = mb.summarize(nf, self_cls=npc)
    gc = repo.cls(GM, "GaussianElectionModel")
    gf = ctx.fn(GM, "GaussianElectionModel.get_aggregate_prediction_intervals")
    gs = mb.summarize(gf, self_cls=gc)
    from ..frames import vector_value

    def bound_value(t):
        return vector_value(F, t)

    quantities = [(bf, "counted votes", F.col(tab, res)), (bf, "prediction", F.col(tab, fname("pred_")))]
    nret = ns.ret()
    for i, side in enumerate(("lower", "upper")):
        quantities.append((nf, f"nonparametric {side} bound", bound_value(nret[2][i])))
    # every return of the gaussian function hands back two per-group vectors: the main one and the shortcut taken when nothing is outstanding
    grets = [t for pc, t, n in gs.returns]
    ctx.sites("C11.R1.gaussian-returns", len(grets), 2, "returns of the gaussian aggregate interval function (shortcut + main)")
    for j, t_ in enumerate(grets):
        pair = t_[2] if t_[0] == "call" else (t_[1] if t_[0] == "tuple" else None)
        which = "main" if t_[0] == "call" and any(x[0] == "call" and x[1][0] == "attr" and x[1][2] == "round" for x in pair) else "shortcut (nothing outstanding)"
        if pair is None or len(pair) != 2:
            ctx.ob("C11.R1.term", f"{gf.qualname}|gaussian return {j} hands back (lower, upper)", False, gf.where(), f"return value is {ir.show(t_, maxdepth=3)}")
            continue
        for i, side in enumerate(("lower", "upper")):
            try:
                quantities.append((gf, f"gaussian {side} bound, {which}", bound_value(pair[i])))
            except AnalysisError as e:
                ctx.ob("C11.R1.term", f"{gf.qualname}|gaussian {side} bound, {which} includes S_U(results_e)", False, gf.where(), str(e))
    for fn, what0, val0 in list(quantities):
        # a condition the configuration does not decide: each path is a quantity of its own
        vals_ = am.each_valuation(lambda fl_: True if am.linear(val0, fl_, []) else True, {CLS_FLAG: False})
        if len(vals_) > 1:
            i_ = quantities.index((fn, what0, val0))
            quantities[i_:i_ + 1] = [(fn, what0 + am.when(e_), _fix_conds(val0, e_)) for e_, _ in vals_]
    for fn, what, val in quantities:
        problems = []
        lin = am.linear(val, {CLS_FLAG: False}, problems)
        ut = _u_terms(lin)
        ok = (len(ut) == 1 and ut[0][0] == 1 and ut[0][1][2] == ("col", U_, res) and ut[0][1][3] == ("param", "aggregate"))
        ctx.ob("C11.R1.term", f"{fn.qualname}|{what} includes S_U(results_e)", ok, fn.where(),
               f"{what} adds the unexpected units' own counted votes once, per group of the aggregate keys" if ok
               else f"{what} has unexpected-unit terms {[am.describe_atom(a) for _, a in ut]} (expected exactly + S_U(results_e))")
        filled = not problems
        ctx.ob("C11.R1.new-group", f"{fn.qualname}|{what}: group existing only through unexpected units", filled, fn.where(),
               "a group without baseline units is created by the outer join and its missing operands are filled with 0" if filled
               else "a group that exists only through unexpected units yields NaN instead of its votes")
        lin_c = am.linear(val, {CLS_FLAG: True}, [])
        ctx.ob("C11.R1.classification", f"{fn.qualname}|{what}: classification level excludes unexpected units", not _u_terms(lin_c), fn.where(),
               "classification tables leave unexpected units out (their classification is unknown)" if not _u_terms(lin_c)
               else "classification tables group unexpected units although their classification is unknown")
    from ..frames import signature
    for fn, what, tabt in ((bf, "prediction table", tab), (nf, "nonparametric interval table", nret[2][0][1][1][1] if nret[2][0][0] == "call" else nret[2][0][1])):
        for extra_, (uni, _, _) in am.each_valuation(lambda fl_: signature(tabt, fl_), {CLS_FLAG: False}):
            has_u = isinstance(uni, frozenset) and any(g[1] == U_ for g in uni)
            ctx.ob("C11.R1.universe", f"{fn.qualname}|{what} keeps groups that exist only through unexpected units{am.when(extra_)}", has_u, fn.where(),
                   "groups of unexpected units are part of the table's group universe (outer joins)" if has_u
                   else f"group universe is {uni}: a county / district that exists only through unexpected units gets no row")
    # ---- R2 --------------------------------------------------------------------------------------
    key_availability(ctx, "C11.R2")
    zero_turnout_quotients(ctx, mb, "C11.R3.zero-turnout",
                           "a group created by an unexpected unit with zero two-party votes gets NaN instead of 0")
    # .. and each key is recovered by ITS parser: county_fips from the county part of the id (second component of a <district>_<county> id,
    # else the first), district from the first component
    CDM = "elexmodel.handlers.data.CombinedData"
    us_ = ctx.builder().summarize(ctx.fn(CDM, "CombinedDataHandler._get_unexpected_units"))
    SPLIT = ("call", ("attr", ("param", "geographic_unit_fips"), "split"), (("const", "_"),), ())
    DTYPE = ("cmp", "in", ("const", "district"), ("attr", ("param", "self"), "geographic_unit_type"))
    LEN_ = ("call", ("global", "len"), (SPLIT,), ())

    def _component(t, n, dflag):
        """which component of an id with n parts the parser returns (district-type flag dflag): evaluation of its decision tree"""
        if t[0] == "phi":
            return _component(t[2] if _truth(t[1], n, dflag) else t[3], n, dflag)
        if t[0] == "sub" and t[1] == SPLIT and t[2][0] == "const" and isinstance(t[2][1], int):
            k = t[2][1] if t[2][1] >= 0 else n + t[2][1]
            if not 0 <= k < n:
                raise AnalysisError(f"component {t[2][1]} of an id with {n} part(s)")
            return k
        raise AnalysisError(f"parser value {ir.show(t, maxdepth=4)} not understood")

    def _truth(c, n, dflag):
        import operator as _op
        if c[0] == "bool":
            vs = [_truth(x, n, dflag) for x in c[2]]
            return all(vs) if c[1] == "and" else any(vs)
        if c[0] == "un" and c[1] == "not":
            return not _truth(c[2], n, dflag)
        if c == DTYPE:
            return dflag
        if c[0] == "cmp" and c[1] == "not in" and c[2:] == DTYPE[2:]:
            return not dflag
        if c[0] == "cmp" and c[2] == LEN_ and c[3][0] == "const" and isinstance(c[3][1], int) and c[1] in ("<", "<=", ">", ">=", "==", "!="):
            return {"<": _op.lt, "<=": _op.le, ">": _op.gt, ">=": _op.ge, "==": _op.eq, "!=": _op.ne}[c[1]](n, c[3][1])
        raise AnalysisError(f"parser test {ir.show(c, maxdepth=4)} not understood")

    # expected component per (number of parts, district-type unit ids)
    want_parser = {"county_fips": lambda n, d: 1 if (d and n >= 2) else 0, "district": lambda n, d: 0}
    parsers_found = []
    for key_, want_ in want_parser.items():
        vals = {x[3] for t_ in [us_.ret()] for x in ir.walk(t_) if x[0] == "setitem" and x[2] == ("const", key_)}
        if not vals:
            # the recovery may sit in get_units itself (moved there / a helper inlined back), applied to the units taken from the feed
            try:
                gsum_ = ctx.builder().summarize(ctx.fn(CDM, "CombinedDataHandler.get_units"))
                vals = {t_[3] for _pc, _n, t_, _s in gsum_.assigns if t_[0] == "setitem" and t_[2] == ("const", key_)}
            except AnalysisError:
                vals = set()
        okp, detail_ = bool(vals), f"{key_} is not recovered for unexpected units"
        for v_ in vals:
            parser = v_[2][0] if v_[0] == "call" and v_[1][0] == "attr" and v_[1][2] in ("apply", "map") and len(v_[2]) == 1 else None
            from_id = parser is not None and v_[1][1][0] == "sub" and v_[1][1][2] == ("const", "geographic_unit_fips")
            body_ = None
            pfn = None
            if parser is not None and parser[0] == "attr" and parser[1] == ("param", "self"):
                pfn = repo.cls(CDM, "CombinedDataHandler").lookup(parser[2])
            elif parser is not None and parser[0] == "global" and ":" in parser[1]:
                # the parser is a module-level function handed to apply (with its other arguments through args= / keywords)
                pm_, pq_ = parser[1].split(":", 1)
                pfn = repo.modules[pm_].functions.get(pq_) if pm_ in repo.modules else None
            if pfn is not None:
                parsers_found.append(pfn)
                body_ = ctx.builder().summarize(pfn).ret()
                ps_ = [p_ for p_ in pfn.params if p_ != "self"]
                sub_ = {("param", ps_[0]): ("param", "geographic_unit_fips")} if ps_ else {}
                kw_ = dict(v_[3])
                extra_ = kw_.get("args")
                if extra_ is not None and extra_[0] in ("tuple", "list"):
                    for p_, a_ in zip(ps_[1:], extra_[1]):
                        sub_[("param", p_)] = a_
                for k_, a_ in kw_.items():
                    if k_ in ps_[1:]:
                        sub_[("param", k_)] = a_
                body_ = ir.subst(body_, sub_)
            good = from_id and body_ is not None
            if good:
                try:
                    good = all(_component(body_, n_, d_) == want_(n_, d_) for n_ in (1, 2, 3) for d_ in (False, True))
                except AnalysisError as ex_:
                    good = False
                    body_ = ("const", f"<{ex_}>")
            okp = okp and good
            if not good:
                detail_ = (f"{key_} of an unexpected unit is {ir.show(v_, maxdepth=4)}" + (f" with parser value {ir.show(body_, maxdepth=5)}" if body_ is not None else "")
                           + ": not the " + ("county part" if key_ == "county_fips" else "first component") + " of its id - its votes are added to another group")
        ctx.ob("C11.R2.parser", f"CombinedDataHandler._get_unexpected_units|{key_} from its part of the unit id", okp, ctx.fn(CDM, "CombinedDataHandler._get_unexpected_units").where(),
               f"{key_} is parsed from the unit id by the rule the ids are built with" if okp else detail_)
    # the id parsers that recover the keys of an unexpected unit must be total: ids of units we do not know have no guaranteed
    # shape, so an index >= 1 into the '_'-split id needs a length guard on every path (else IndexError ends the whole run)
    CD_ = "elexmodel.handlers.data.CombinedData"
    nparse = 0
    # the parsers are the functions the key recovery actually applies (found above), whatever they are called and wherever they live
    pfs_ = list(dict.fromkeys(parsers_found))
    if not pfs_:
        pfs_ = [ctx.fn(CD_, qn) for qn in ("CombinedDataHandler._get_county_fips_from_geographic_unit_fips",
                                           "CombinedDataHandler._get_district_from_geographic_unit_fips")]
    for pf in pfs_:
        from ..cfg import CFG as _CFG
        pcfg = _CFG(pf.node)
        split_names = {t.id for a in util.own_nodes(pf, ast.Assign) for t in a.targets if isinstance(t, ast.Name)
                       and isinstance(a.value, ast.Call) and isinstance(a.value.func, ast.Attribute) and a.value.func.attr == "split"}
        for sub in util.own_nodes(pf, ast.Subscript):
            if isinstance(sub.value, ast.Name) and sub.value.id in split_names and isinstance(sub.slice, ast.Constant) and isinstance(sub.slice.value, int):
                nparse += 1
                idx = sub.slice.value
                need = idx + 1 if idx >= 0 else -idx
                guarded = need <= 1  # split() always returns at least one component
                from ..effects import Guards as _Guards
                # atomic must-hold facts on the way to the read: conjunctions split, a test kept in a local read as the test
                for test, pol in _Guards(ctx).atoms(pf, util.enclosing_stmt(sub)):
                    for cmp_ in ([test] if isinstance(test, ast.Compare) else []):
                        if not (isinstance(cmp_, ast.Compare) and len(cmp_.ops) == 1):
                            continue
                        lhs, op, rhs = cmp_.left, type(cmp_.ops[0]), cmp_.comparators[0]
                        if isinstance(lhs, ast.Constant):  # `1 < len(x)` is `len(x) > 1`
                            lhs, rhs = rhs, lhs
                            op = {ast.Lt: ast.Gt, ast.LtE: ast.GtE, ast.Gt: ast.Lt, ast.GtE: ast.LtE}.get(op, op)
                        is_len = isinstance(lhs, ast.Call) and isinstance(lhs.func, ast.Name) and lhs.func.id == "len" and lhs.args \
                            and isinstance(lhs.args[0], ast.Name) and lhs.args[0].id == sub.value.id
                        if not (is_len and isinstance(rhs, ast.Constant) and isinstance(rhs.value, int)):
                            continue
                        c0 = rhs.value
                        holds = (op is ast.Gt and c0 >= need - 1) or (op is ast.GtE and c0 >= need) or (op is ast.Eq and c0 >= need)
                        fails = (op is ast.Lt and c0 <= need) or (op is ast.LtE and c0 <= need - 1)  # `not (len < need)` on the false branch
                        if (pol and holds) or (not pol and fails):
                            guarded = True
                ctx.ob("C11.R2.parse-total", util.key(pf, sub), guarded, pf.where(sub),
                       f"component {idx} of the split id is read only where the id is known to have it" if guarded
                       else f"component {idx} of the '_'-split id is read without a length guard: an unexpected unit whose id has fewer parts "
                            f"raises IndexError and the whole estimate run fails")
    ctx.sites("C11.R2.parse-total", nparse, 2 if not parsers_found else 1, "indexed reads of the split unit id in the key parsers")
    # ---- R3 bootstrap ------------------------------------------------------------------------------
    bc = repo.cls(BM, "BootstrapElectionModel")
    for qn, names in (("get_aggregate_predictions", {"aggregate_z_total": "results_weights"}),
                      ("get_aggregate_prediction_intervals",
                       {"aggregate_yz_total_B": "results_margin", "aggregate_yz_total_pred": "results_margin",
                        "aggregate_z_total_B": "results_weights", "aggregate_z_total_pred": "results_weights",
                        "aggregate_z_total": "results_weights", "aggregate_yz_total": "results_margin"})):
        f = ctx.fn(BM, f"BootstrapElectionModel.{qn}")
        s = mb.summarize(f, {"estimand": ("const", "margin")}, self_cls=bc)
        # locate the totals structurally: every local whose value is a sum of >= 3 indicator products
        found = {}
        for pc, name, t, n in s.assigns:
            if name.startswith("self."):
                continue
            comps = am.matsum_components(am.non_classification_view(t))
            if len(comps) >= 2 and all(c[0] != "?" for c in comps):
                found[name] = comps
        ctx.sites(f"C11.R3.{qn}", len(found), len(names), f"aggregate totals (sums of indicator products) in {qn}")
        for name, comps in found.items():
            segs = sorted(c[0] for c in comps)
            ucomp = [c for c in comps if c[0] == "U"]
            want = names.get(name)
            okU = len(ucomp) == 1 and ucomp[0][1] in ("results_margin", "results_weights") and (want is None or ucomp[0][1] == want)
            ok = segs == ["N", "R", "U"] and okU and all(c[2] for c in comps)
            ctx.ob("C11.R3.total", f"{f.qualname}|{name}", ok, f.where(),
                   f"{name} = S_R + S_N + S_U({ucomp[0][1]})" if ok
                   else f"{name} is the sum over {[(c[0], c[1]) for c in comps]}: the unexpected units' "
                        f"{'two-party votes' if 'z' in name and 'yz' not in name else 'margin'} must enter exactly once")
    # ---- R4 design independence -----------------------------------------------------------------------
    _design_independence(ctx)
    # ---- R5 belief agreement ----------------------------------------------------------------------------
    _belief(ctx)
    # ---- R7 the national summary counts the contests of the election ----------------------------------------
    _summary_contests(ctx)
    # ---- R8 an unexpected unit listed without (some) vote counts -----------------------------------------------
    # "every other number in every table unchanged, the run never fails": a NaN count of a unit taken from the feed enters the indicator
    # products of the bootstrap (0 * NaN spreads it to EVERY group) and the group sums of its own groups. Same structural fact as
    # C01.R1.passed-through-nan-free (all results_* columns of the units taken from the feed are filled with 0).
    n8 = ctx.borrow("C01", "C01.R1.passed-through-nan-free", "C11.R8.nan-free", "one empty extra row would overwrite the numbers of groups it does not belong to")
    ctx.sites("C11.R8", n8, 1, "nan-free obligation restated from C01.R1")
    n9 = ctx.borrow("C01", "C01.R8.feed-complete", "C11.R9.feed-complete", "an unexpected unit that is filtered out of the feed adds its votes nowhere")
    ctx.sites("C11.R9", n9, 1, "feed-complete obligation restated from C01.R8")


def _fix_conds(v, extra):
    """the value with the phi conditions of `extra` decided"""
    if not isinstance(v, tuple):
        return v
    if v and v[0] == "phi" and v[1] in extra:
        return _fix_conds(v[2] if extra[v[1]] else v[3], extra)
    return tuple(_fix_conds(x, extra) for x in v)


def zero_turnout_quotients(ctx, mb, rule, consequence):
    """Shared by C11.R3 and C06.R9: a group can have ZERO predicted two-party votes (it exists only through an unexpected unit that has
    counted nothing, or through a fully reported unit without two-party votes): every quotient by a group turnout total in the bootstrap
    aggregate functions has to map 0/0 to 0 (nan_to_num around the plain division), or the group's prediction / bounds come out NaN.
    Four such quotients exist today (two in each function); fewer recognisable ones means one was rewritten into a form that is not
    known to be guarded (Series.div(fill_value=..) fills missing INPUTS, not a NaN result) and is reported."""
    repo = ctx.repo
    bc0 = repo.cls(BM, "BootstrapElectionModel")
    nq = 0
    for qn in ("get_aggregate_predictions", "get_aggregate_prediction_intervals"):
        qf = ctx.fn(BM, f"BootstrapElectionModel.{qn}")
        qs = mb.summarize(qf, {"estimand": ("const", "margin")}, self_cls=bc0)
        pool = [t_ for _, _, t_, _ in qs.assigns] + [w[2] for w in qs.attr_writes] + [qs.ret()]
        guarded, quotients, other = set(), [], []
        for t_ in pool:
            for x in ir.walk(t_):
                if x[0] == "call" and x[1][0] == "global" and x[1][1].endswith("nan_to_num") and x[2]:
                    g_ = x[2][0]
                    while g_[0] == "call" and g_[1][0] == "attr" and g_[1][2] in ("reshape", "flatten"):
                        g_ = g_[1][1]
                    guarded.add(g_)
                if x[0] == "bin" and x[1] == "/" and any(y[0] == "bin" and y[1] == "@" for y in ir.walk(x[3])) and x not in quotients:
                    quotients.append(x)
                # division methods: Series.div / divide / truediv by a turnout total
                if x[0] == "call" and x[1][0] == "attr" and x[1][2] in ("div", "divide", "truediv", "rdiv") and x[2] \
                        and any(y[0] == "bin" and y[1] == "@" for y in ir.walk(x[2][0])) and x not in other:
                    other.append(x)
        for x in quotients + other:
            nq += 1
            ok = x in guarded
            ctx.ob(rule, util.key(qf, b_loc(mb, x, qf)), ok, qf.where(b_loc(mb, x, qf)),
                   "the quotient by the group's turnout total is wrapped in nan_to_num (0/0 -> 0)" if ok
                   else f"{ir.show(x, maxdepth=2)[:120]} divides by a group turnout total without nan_to_num: {consequence}")
    if nq < 4:
        qf = ctx.fn(BM, "BootstrapElectionModel.get_aggregate_predictions")
        ctx.ob(rule, "BootstrapElectionModel|all four quotients by a group turnout total are guarded divisions", False, qf.where(),
               f"only {nq} of the 4 quotients by a group turnout total are recognisable as nan_to_num(x / total): {consequence}")


# ---------------------------------------------------------------------------------------------------
PER_CONTEST = ("divided_error_B_1", "divided_error_B_2", "aggregate_pred_margin", "called_contests", "stop_model_call")


def _summary_contests(ctx):
    """R7.summary-contests: an unexpected unit may create a NEW top-level group (a district or state with no baseline unit); the
    tables show it, and that is all it may do ('every other number in every table unchanged ... never causes the run to fail'). The
    national summary is computed from per-contest vectors the top-level aggregate step leaves on the model; their rows are the
    columns of an indicator built from reporting + nonreporting + UNEXPECTED units. So either the stored vectors or every read of them in
    get_national_summary_estimates has to be restricted by a mask that is derived from the expected rows of the indicator (or from
    unit_category); otherwise the phantom group is a contest: one more seat, and a weight dictionary of the right size is rejected."""
    repo = ctx.repo
    bc = repo.cls(BM, "BootstrapElectionModel")
    nf = ctx.fn(BM, "BootstrapElectionModel.get_national_summary_estimates")
    ns = ctx.builder(inline=lambda *a: False).summarize(nf, self_cls=bc)
    terms = [t for _, _, t, _ in ns.assigns] + [t for _, t, _ in ns.returns] + [c for pc, _, _ in ns.returns + ns.raises for c, _ in pc] \
        + [t for _, t, _ in ns.raises]
    SELF_ = ("param", "self")

    _writes = []

    def all_writes():
        if not _writes:
            bld = ctx.builder(inline=lambda *a: False)
            for m in bc.methods.values():
                for w in bld.summarize(m, self_cls=bc).attr_writes:
                    _writes.append((m, w))
        return _writes

    _eo = {}

    def expected_only(mask_attr):
        """is self.<mask_attr> written from the expected-row slice of an indicator / from unit_category?"""
        if mask_attr not in _eo:
            _eo[mask_attr] = _expected_only(mask_attr)
        return _eo[mask_attr]

    def _expected_only(mask_attr):
        for m, w in all_writes():
            if True:
                if w[1] != mask_attr:
                    continue
                txt = ir.show(w[2], maxdepth=12)
                sliced = any(x[0] == "sub" and x[2][0] == "slice" and x[2][1] == ("const", None) and "n_train" in ir.show(x[2][2], maxdepth=6) or
                             (x[0] == "sub" and x[2][0] == "slice" and ("shape" in ir.show(x[2][2], maxdepth=6) or "len(" in ir.show(x[2][2], maxdepth=6)) and x[2][1] == ("const", None))
                             for x in ir.walk(w[2]))
                if sliced or "unit_category" in txt:
                    return True
        return False

    used = set()
    unmasked = {}
    for t in terms:
        for x in ir.walk(t):
            for ch in ir.children(x):
                if isinstance(ch, tuple) and ch and ch[0] == "attr" and ch[1] == SELF_ and ch[2] in PER_CONTEST:
                    used.add(ch[2])
                    masked = (x[0] == "sub" and x[1] == ch and any(y[0] == "attr" and y[1] == SELF_ and expected_only(y[2]) for y in ir.walk(x[2])))
                    # `.shape` of the vector only measures it, `is None` only tests for presence
                    harmless = (x[0] == "cmp" and x[1] in ("is", "is not", "isnot"))
                    if not masked and not harmless:
                        unmasked.setdefault(ch[2], ir.show(x, maxdepth=3))
    ctx.sites("C11.R7", len(used), 3, "per-contest vectors read by get_national_summary_estimates")
    # alternatively the vectors are already restricted where they are stored
    stored_masked = set()
    for m, w in all_writes():
        if m is nf:
            continue
        if True:
            if w[1] in PER_CONTEST and w[2][0] == "sub" and any(y[0] == "sub" and y[2][0] == "slice" and "n_train" in ir.show(y[2][2], maxdepth=6)
                                                                  for y in ir.walk(w[2][2])):
                stored_masked.add(w[1])
    bad = sorted(a for a in unmasked if a not in stored_masked)
    ok = not bad
    ctx.ob("C11.R7.summary-contests", f"{nf.qualname}|per-contest state covers the contests of the election only", ok, nf.where(),
           "every per-contest vector the national summary reads is restricted to the contests that have baseline units" if ok else
           f"the summary reads self.{', self.'.join(bad)} as they were left by the top-level aggregate step, whose contest list is the column "
           f"list of an indicator over reporting + nonreporting + unexpected units: a group that exists only through an unexpected unit "
           f"(a district or state with no baseline unit) counts as a contest - one more seat, and a weight dictionary with one entry per real "
           f"contest is rejected")


# ---------------------------------------------------------------------------------------------------
def _design_independence(ctx):
    repo = ctx.repo
    bc = repo.cls(BM, "BootstrapElectionModel")
    f = ctx.fn(BM, "BootstrapElectionModel.compute_bootstrap_errors")
    b = ctx.builder()
    s = b.summarize(f, self_cls=bc)
    UP = ("param", "unexpected_units")
    memo = {}

    def excl_unexpected(sl, base):
        """does base[sl] exclude the unexpected rows of concat([R, N, U])?"""
        order = None
        for x in ir.walk(base):
            o = am.concat_order(x)
            if o is not None:
                order = o
                break
        if order is None or UP not in order:
            return False
        if order[-1] != UP:
            return False
        if sl[0] != "slice" or sl[3] != ("const", None):
            return False
        hi = sl[2]
        if hi == ("const", None):
            return False
        c = am.Indicator.count(hi)
        if c is None:
            return False
        names = {am.FRAME_NAMES[o] for o in order[:-1] if o in am.FRAME_NAMES}
        return set(k for k, v in c.items() if v) <= names and all(v <= 1 for v in c.values())

    def taint(t):
        if t in memo:
            return memo[t]
        memo[t] = frozenset()
        r = _taint(t)
        memo[t] = r
        return r

    def _taint(t):
        k = t[0]
        if t == UP:
            return frozenset({"values", "universe"})
        if k in ("const", "param", "global", "lambda", "closure", "unknown"):
            return frozenset()
        if k == "attr" and t[1] == SELF:
            return frozenset()
        if k == "sub":
            base = taint(t[1])
            if base and t[2][0] == "slice" and excl_unexpected(t[2], t[1]):
                base = base - {"values"}
            return base | taint(t[2]) if t[2][0] != "slice" else base
        if k == "call":
            f_ = t[1]
            if f_[0] == "attr" and f_[2] in ("filter_to_active_features", "generate_holdout_data"):
                inner = frozenset().union(*[taint(a) for a in t[2]]) if t[2] else frozenset()
                return inner - {"universe"}
            if f_[0] == "attr" and f_[2] == "prepare_data":
                kw = dict(t[3])
                inner = frozenset().union(*[taint(a) for a in t[2]]) if t[2] else frozenset()
                if kw.get("center_features", ("const", True)) != ("const", False) or kw.get("scale_features", ("const", True)) != ("const", False):
                    return inner | ({"global-statistics"} if inner else frozenset())
                return inner
        out = frozenset()
        for c in ir.children(t):
            out |= taint(c)
        return out

    # sinks: solver fits, generator draws, and calls of model methods that (transitively) fit or draw
    cg = ctx.cg
    drawing = set()
    for m in bc.methods.values():
        for g in cg.reachable([m]):
            for c in util.own_nodes(g, ast.Call):
                if isinstance(c.func, ast.Attribute) and ((isinstance(c.func.value, ast.Attribute) and c.func.value.attr == "rng")
                                                          or c.func.attr in ("fit", "lstsq")):
                    drawing.add(m)
    nsinks = 0
    findings = {}
    seen_calls = set()
    for pc, t, n in list(s.effects) + [(pc, t, n) for pc, _, t, n in s.assigns]:
        for x in ir.walk(t):
            if x[0] != "call" or x in seen_calls:
                continue
            seen_calls.add(x)
            f_ = x[1]
            is_sink = False
            label = None
            if f_[0] == "attr" and f_[2] == "fit":
                is_sink, label = True, "regression fit"
            elif f_[0] == "attr" and f_[1] == ("attr", SELF, "rng"):
                is_sink, label = True, f"rng.{f_[2]}"
            elif f_[0] == "attr" and f_[1] == SELF and f_[2] in bc.methods and bc.methods[f_[2]] in drawing:
                is_sink, label = True, f"self.{f_[2]} (fits / draws)"
            if not is_sink:
                continue
            nsinks += 1
            for i, a in enumerate(list(x[2]) + [v for _, v in x[3]]):
                tk = taint(a)
                if tk:
                    src = _taint_source(a, taint, UP)
                    findings.setdefault(src, []).append((label, sorted(tk)))
    ctx.sites("C11.R4", nsinks, 8, "fits / draws / drawing helpers called by compute_bootstrap_errors")
    if not findings:
        ctx.ob("C11.R4.independent", f"{f.qualname}|nothing fitted or drawn depends on unexpected units", True, f.where(),
               f"none of the {nsinks} fit / draw sites receives a value or a category universe derived from unexpected_units")
    for src, uses in findings.items():
        kinds = sorted({k for _, ks in uses for k in ks})
        ctx.ob("C11.R4.independent", f"{f.qualname}|{src}", False, f.where(),
               f"{src} is built from rows that include the unexpected units and reaches {len(uses)} fit / draw site(s) "
               f"(e.g. {uses[0][0]}) through its {', '.join(kinds)}: an unexpected unit from a contest without baseline units adds a "
               f"column, which changes the dimension of the random effects and the random stream for every unit")
    probe = ("call", ("global", "pandas.get_dummies"), (("sub", ("call", ("global", "pandas.concat"), (("list", (R_, N_, UP)),), (("axis", ("const", 0)),)), ("const", "postal_code")),), ())
    ctx.selftest("C11.R4.independent", "universe" in taint(("sub", probe, ("slice", ("const", None), ir.nrows(R_), ("const", None)))),
                 "row slicing must not remove the category-universe dependence")


def _taint_source(a, taint, UP):
    """innermost get_dummies / concat construct that carries the taint (for a stable finding key)"""
    best = None
    for x in ir.walk(a):
        if x[0] == "call" and x[1][0] == "global" and x[1][1].endswith("get_dummies") and taint(x):
            col = x[2][0]
            name = ir.show(col[2]) if col[0] == "sub" else ir.show(col, maxdepth=2)
            best = f"get_dummies(all_units[{name}])"
    if best:
        return best
    for x in ir.walk(a):
        if x[0] == "call" and x[1][0] == "attr" and x[1][2] == "prepare_data" and taint(x):
            return "featurizer.prepare_data(all units)"
    return "expression over unexpected_units"


def _empty_slice_of(t, frame):
    """t == frame.iloc[:0] / frame[:0] / frame.head(0)"""
    if t[0] == "sub" and t[2] == ("slice", ("const", None), ("const", 0), ("const", None)):
        base = t[1]
        if base[0] == "attr" and base[2] in ("iloc", "loc"):
            base = base[1]
        return base == frame
    if t[0] == "call" and t[1] == ("attr", frame, "head") and t[2] == (("const", 0),):
        return True
    return False


def _belief(ctx):
    """county_classification is unknown for unexpected units: wherever the aggregate key list is string-joined / used as
    group key on rows that include them, the classification case must be excluded (guard) or the rows removed first."""
    repo = ctx.repo
    sites = 0
    base_guarded = False
    for cls in repo.all_classes():
        if not any(c.name == "BaseElectionModel" for c in cls.mro()):
            continue
        for m in cls.methods.values():
            if "aggregate" not in m.params or "unexpected_units" not in m.params:
                continue
            b = ctx.builder()
            s = b.summarize(m, self_cls=cls)
            seen = set()
            for pc, name, t, n in list(s.assigns) + [(pc, "", t, n) for pc, t, n in s.effects] + [(pc, "", t, n) for pc, t, n in s.returns]:
                for x in ir.walk(t):
                    use = None
                    if x[0] == "call" and x[1][0] == "attr" and x[1][2] == "agg" and x[2] and x[2][0][0] == "attr" and x[2][0][2] == "join" \
                            and x[1][1][0] == "sub" and x[1][1][2] == ("param", "aggregate"):
                        use, holder, kind = x, x[1][1][1], "string join of the key columns"
                    elif x[0] == "call" and x[1][0] == "attr" and x[1][2] == "groupby" and x[2] and x[2][0] == ("param", "aggregate"):
                        use, holder, kind = x, x[1][1], "groupby on the key columns"
                    if use is None or use in seen:
                        continue
                    # does the holder contain unexpected rows?
                    parts = [holder]
                    for y in ir.walk(holder):
                        o = am.concat_order(y)
                        if o is not None:
                            parts = o
                            break
                    uparts = [p_ for p_ in parts if any(z == U_ for z in ir.walk(p_))]
                    if not uparts:
                        continue
                    seen.add(use)
                    sites += 1
                    path_guard = any(c == CLS_FLAG and not pol for c, pol in pc)
                    emptied = all(p_[0] == "phi" and p_[1] == CLS_FLAG and am.empty_slice_of(p_[2], U_) and p_[3] == U_ for p_ in uparts)
                    ok = path_guard or emptied
                    if cls.name == "BaseElectionModel" and ok:
                        base_guarded = True
                    loc = b.loc.get(use)
                    where = loc[0].where(loc[1]) if loc else m.where()
                    ctx.ob("C11.R5.guard", f"{m.qualname}|{kind}", ok, where,
                           f"{kind}: unexpected units are excluded when county_classification is among the keys" if ok
                           else f"{kind} on rows that include unexpected units without excluding the classification level: their "
                                f"classification is missing (NaN), so the string join raises TypeError when a classification table is "
                                f"requested together with an unexpected unit")
    ctx.sites("C11.R5", sites, 3, "uses of the aggregate key list on rows that include unexpected units")
    ctx.ob("C11.R5.reference", "BaseElectionModel|unexpected units excluded at classification level", base_guarded, "BaseElectionModel",
           "the base model groups unexpected units by the aggregate keys only when county_classification is not among them" if base_guarded
           else "the base model no longer excludes unexpected units from classification-level tables (their classification is unknown)")
