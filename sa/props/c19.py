"""C19 - version retrieval returns exactly the requested window despite paging and faults.

 R1 the page's own versions are kept and the recursive result is appended to them;
 R2 the recursion condition, evaluated with short-circuit order over (truncated, page empty, start unset, oldest version >= start),
    satisfies  continue => truncated  and  truncated and (empty or start unset or oldest >= start) => continue  and never reads
    versions[-1] of an empty list nor compares it with an unset start: a page that holds delete markers only neither fails nor ends
    the listing (F31); stopping later than necessary is allowed (it only costs requests);
 R3 both continuation markers come from the same response, the path is passed on, and the request forwards the markers;
 R4 window filters `>= start`, `<= end`, each skipped when unset, on every route from a page's versions to the result (on the
    combined list, or on each page before it is concatenated);
 R5 empty listing -> None, propagated by get_versioned_results - which never dereferences the download (attribute, subscript, argument of
    a call) outside the 'is not None' path - and turned into "no handler" by the client;
 R8 the window bounds handed to S3VersionUtil are the caller's timestamps, parsed and converted between timezones (same instant) - never
    re-labelled with a timezone (unless tested to be bare) or shifted;
 R6 every sample-th listed version is requested; each frame is stamped, inside the loop that receives it together with its
    version, with that version's LastModified converted to the handler's timezone; request/return tuples keep version, buffer
    and future together;
 R7 future.result() sits in try/except Exception without re-raise and task_done runs on both paths.
Not decided: behaviour of the real service (newest-first ordering is an assumption of the property itself).
"""
from __future__ import annotations

import ast

from .. import ir, util
from ..cfg import CFG
from ..model import AnalysisError

S3 = "elexmodel.handlers.s3"
NONE = ("const", None)


PARSERS = {"datetime.datetime.fromisoformat", "pandas.Timestamp", "pandas.to_datetime", "dateutil.parser.parse", "dateutil.parser.isoparse",
           "datetime.datetime.strptime"}
CONVERT = {"astimezone", "tz_convert", "to_pydatetime"}


def _instant(t, bound, naive=False):
    """Is `t` the instant the caller's bound `bound` names, carried through parsing and timezone CONVERSION only? -> (ok, why).
    `.replace(tzinfo=..)` / `.tz_localize(..)` re-label a timestamp: harmless on a bare one, they move an aware one by its offset - accepted
    only under a test that the value carries no timezone (naive=True on that branch). Arithmetic shifts the window."""
    if t == bound:
        return True, ""
    k = t[0]
    if k == "call" and t[1][0] == "global" and t[1][1] in PARSERS and t[2]:
        return _instant(t[2][0], bound, naive)
    if k == "call" and t[1][0] == "attr" and t[1][2] in CONVERT:
        return _instant(t[1][1], bound, naive)
    if k == "call" and t[1][0] == "attr" and t[1][2] in ("replace", "tz_localize"):
        relabels = t[1][2] == "tz_localize" or any(k_ == "tzinfo" for k_, _ in t[3])
        other = [k_ for k_, _ in t[3] if k_ not in ("tzinfo",) and not str(k_).startswith("#")]
        if other or (t[1][2] == "replace" and t[2]):
            return False, f"{ir.show(t, maxdepth=2)[:80]} changes fields of the timestamp"
        if relabels and not naive:
            return False, (f".{t[1][2]}({', '.join(k_ + '=..' for k_, _ in t[3])}) puts a timezone label on the parsed bound without testing that it has none: a "
                           "bound given with its own UTC offset is moved by the difference of the offsets, and the window that is listed is not the one requested")
        return _instant(t[1][1], bound, naive)
    if k in ("phi", "ifexp"):
        c = t[1]
        isnaive = (c[0] == "cmp" and c[1] == "is" and c[3] == NONE and ((c[2][0] == "attr" and c[2][2] in ("tzinfo", "tz")) or
                   (c[2][0] == "call" and c[2][1][0] == "attr" and c[2][1][2] == "utcoffset")))
        a, wa = _instant(t[2], bound, naive or isnaive)
        b_, wb = _instant(t[3], bound, naive)
        return (a and b_), (wa or wb)
    if k == "bin":
        return False, f"arithmetic on the bound ({ir.show(t, maxdepth=2)[:80]}) shifts the window"
    raise AnalysisError(f"window bound not understood: {ir.show(t, maxdepth=4)[:160]}")


def _window_args(ctx, b):
    """R8: the [start, end] window the version listing filters by is the caller's: each bound handed to S3VersionUtil is the caller's timestamp,
    parsed and CONVERTED to another timezone (same instant), or None when the caller gave none."""
    vd = ctx.fn("elexmodel.handlers.data.VersionedData", "VersionedDataHandler.__init__")
    vs = b.summarize(vd)
    ctor = None
    for t_ in [w[2] for w in vs.attr_writes] + [t for _, _, t, _ in vs.assigns]:
        for x in ir.walk(t_):
            if x[0] == "call" and x[1][0] == "global" and x[1][1].endswith(":S3VersionUtil"):
                ctor = x
    ctx.sites("C19.R8", 1 if ctor else 0, 1, "construction of S3VersionUtil in VersionedDataHandler.__init__")
    kw = dict((k, v) for k, v in ctor[3])
    for i, which in ((1, "start_date"), (2, "end_date")):
        t = kw.get(which, ctor[2][i] if len(ctor[2]) > i else None)
        ctx.require(t is not None, f"{vd.where()}: S3VersionUtil is built without {which}")
        bound = ("param", which)
        # `<expr> if start_date else None` / phi on the bound's truthiness: the None branch is 'no bound'
        val = t
        if t[0] in ("phi", "ifexp") and t[1] == bound and t[3] == NONE:
            val = t[2]
        elif t[0] in ("phi", "ifexp") and t[1][0] == "cmp" and t[1][2] == bound and t[1][3] == NONE and t[1][1] in ("is not", "!="):
            val = t[2]
        elif t[0] in ("phi", "ifexp") and t[1][0] == "cmp" and t[1][2] == bound and t[1][3] == NONE and t[1][1] in ("is", "=="):
            val = t[3]
        ok, why = _instant(val, bound)
        ctx.ob("C19.R8.window", f"{vd.qualname}|{which} reaches the listing as the instant the caller named", ok, vd.where(),
               f"{which} is parsed and converted to UTC (same instant), or None" if ok else f"{which}: {why}")


def _is_resp(t):
    return t[0] == "call" and t[1][0] == "attr" and t[1][2] == "list_object_versions"


def _resp_key(t, key):
    return t[0] == "sub" and t[2] == ("const", key) and _is_resp(t[1])


def _is_page(t):
    """page versions: phi('Versions' in resp ? resp['Versions'] : []) or resp.get('Versions', [])"""
    if t[0] == "phi":
        c, a, b = t[1], t[2], t[3]
        return (c[0] == "cmp" and c[1] == "in" and c[2] == ("const", "Versions") and _is_resp(c[3])
                and _resp_key(a, "Versions") and b == ("list", ()))
    if t[0] == "call" and t[1][0] == "attr" and t[1][2] == "get" and _is_resp(t[1][1]):
        return len(t[2]) == 2 and t[2][0] == ("const", "Versions") and t[2][1] == ("list", ())
    return False


_LOOP = [None]  # the paging loop of the function under analysis, when the listing is iterative (set by check)


def _is_rec(t):
    """the contribution of the following pages: the recursive call - or, in the iterative form, the loop's accumulator"""
    if t[0] == "call" and t[1] == ("attr", ("param", "self"), "list_versions"):
        return True
    lp = _LOOP[0]
    return lp is not None and t[0] == "loopin" and t[2] == lp[1] and t[1] == lp[2]


def _self_attr(t, name):
    return t == ("attr", ("param", "self"), name)


def _strip_filters(b, t):
    """Peel window filters off a list term.  Recognised layers:  phi(self.X is not None ? list(filter(lambda v: .., SRC)) : SRC)  (also
    a comprehension, also without list()) and the same filter applied unconditionally.  -> (core, {which: predicate term over
    ('param','v')}) with which in {'start_date', 'end_date'}."""
    preds = {}
    while True:
        guard = None
        inner = t
        if t[0] == "phi" and t[1][0] == "cmp" and t[1][1] in ("is not", "isnot", "is") and t[1][3] == NONE and t[1][2][0] == "attr" \
                and t[1][2][2] in ("start_date", "end_date"):
            # the branch taken when the bound is set (the def-use engine writes `X is not None` as `X is None` with the branches exchanged)
            guard, inner = t[1][2][2], (t[3] if t[1][1] == "is" else t[2])
        if inner[0] == "call" and inner[1] == ("global", "list") and len(inner[2]) == 1:
            inner = inner[2][0]
        pred = src = None
        if inner[0] == "call" and inner[1] == ("global", "filter") and len(inner[2]) == 2 and inner[2][0][0] == "lambda":
            pred = b.lambda_apply(inner[2][0], [("param", "v")])
            src = inner[2][1]
        elif inner[0] == "comp" and len(inner[3]) == 1 and len(inner[3][0][2]) == 1:
            pred = ir.subst(inner[3][0][2][0], {inner[2]: ("param", "v")})
            src = inner[3][0][1]
        if pred is None:
            return t, preds
        if guard is not None and (t[2] if t[1][1] == "is" else t[3]) != src:
            return t, preds  # the two branches are different lists: not an optional filter
        which = guard
        if which is None:
            which = next((a for a in ("start_date", "end_date") if any(_self_attr(x, a) for x in ir.walk(pred))), None)
            if which is None:
                return t, preds
        preds.setdefault(which, pred)
        t = src


def check(ctx):
    repo = ctx.repo
    ctx.explanation = (
        "Def-use terms of S3VersionUtil.list_versions / get / wait_for_versions / make_request and their callers: the returned "
        "list is read back as a term (page versions + recursive call, then two optional filters) and each clause of the "
        "paging protocol is matched structurally; fault handling is decided on the CFG of wait_for_versions."
    )
    ctx.assumptions += ["the storage service lists versions newest first and returns consistent continuation markers",
                        "calls are treated as expressions: two syntactically identical calls denote the same value"]
    b = ctx.builder()
    lv = ctx.fn(S3, "S3VersionUtil.list_versions")
    s = b.summarize(lv)
    ret = s.ret()
    terms = list(ir.walk(ret))

    # ---- R1 ------------------------------------------------------------------------------
    # iterative form of the same listing: `while ..: response = request(**markers); versions += page; [break tests]; markers = next markers`.
    # The accumulator of the loop plays the part of the recursive result (what the following pages contribute), the path condition of the
    # marker update is the condition under which the listing goes on.
    LOOPS = [t for t in terms if t[0] == "loopout" and t[5][0] == "call" and t[5][1] == ("global", "while") and t[4][0] == "bin" and t[4][1] == "+"
             and any(x[0] == "loopin" and x[2] == t[1] for x in (t[4][2], t[4][3]))]
    _LOOP[0] = None
    LOOP = LOOPS[0] if LOOPS and not any(_is_rec(t) for t in terms) else None
    _LOOP[0] = LOOP
    joins = [t for t in terms if t[0] == "bin" and t[1] == "+" and (_is_rec(t[2]) or _is_rec(t[3]))]
    if LOOP is not None:
        joins = [LOOP[4]]
    recs = [t for t in terms if _is_rec(t)] if LOOP is None else [x for x in (LOOP[4][2], LOOP[4][3]) if _is_rec(x)]
    MARKS = None
    if LOOP is not None:
        # the marker update: the assignment, inside the loop, of a dict with the two continuation markers
        for pc_, nm_, t_, _ in s.assigns:
            if t_[0] == "dict" and {k_[1] for k_, _ in t_[1] if k_ is not None and k_[0] == "const"} >= {"KeyMarker", "VersionIdMarker"} \
                    and pc_ and pc_[0][0][0] == "loop":
                MARKS = (pc_, nm_, t_)
    if not recs and any(t[0] in ("loopout", "loopin") and len(t) > 2 for t in terms) and any(_is_resp(t) for pc_, nm_, t_, _ in s.assigns for t in ir.walk(t_)):
        # an iterative listing whose loop does not accumulate the pages (the result is not `what was listed so far + this page`)
        ctx.ob("C19.R1.append", f"{lv.qualname}|page + recursive result", False, lv.where(),
               f"the listing loops over the pages but the result is not the accumulated pages: {ir.show(ret, maxdepth=4)[:200]}")
        return
    ctx.sites("C19.R1", len(recs), 1, "recursive list_versions call flowing into the result")
    def page_part(j):
        return j[3] if _is_rec(j[2]) else j[2]

    def raw_page_of(t):
        core, preds = _strip_filters(b, t)
        return (core if _is_page(core) else None), preds

    ok = bool(joins) and all(raw_page_of(page_part(j))[0] is not None for j in joins)
    ctx.ob("C19.R1.append", f"{lv.qualname}|page + recursive result", ok, lv.where(),
           "result = this page's versions + versions of the following pages" if ok else
           ("the recursive result replaces the page's versions instead of extending them" if not joins
            else f"concatenation does not combine the page's versions with the recursive result: {ir.show(joins[0], maxdepth=4)}"))
    # every use of the recursive result is inside such a join (not returned alone)
    stray = [r for r in recs if not any(r in (j[2], j[3]) for j in joins)]
    # ---- R2 ------------------------------------------------------------------------------
    rphis = [t for t in terms if t[0] == "phi" and any(j in (t[2], t[3]) for j in joins)]
    if LOOP is not None:
        ctx.require(MARKS is not None, f"{lv.where()}: paging loop without an update of the continuation markers")
        # synthetic decision: go on (the accumulated result grows by the following pages) iff every break test before the marker update is false
        cont = ir.pc_term(tuple(e_ for e_ in MARKS[0] if e_[0][0] != "loop"))
        rphis = [("phi", cont, LOOP[4], page_part(LOOP[4]))]
    ctx.sites("C19.R2", len(rphis) + (0 if joins else 1), 1, "condition guarding the recursion")
    for t in rphis[:1]:
        # the branch with the concatenation is the recursion; the test may be written for either branch (and may be a value kept in a
        # local: then it reaches the rule as the decision term of that local)
        if any(j == t[2] for j in joins):
            cond, other, JOIN = t[1], t[3], t[2]
        else:
            cond, other, JOIN = ("un", "not", t[1]), t[2], t[3]
        # The recursion condition is evaluated as a boolean function of facts about the page - T truncated, EP raw page empty (it can
        # hold delete markers only), S start unset, LP oldest raw version >= start, and for a window-filtered copy of the page EF (empty;
        # EP => EF) and LF - with Python's short-circuit order, and compared with what the property needs:
        #     continue => T   (the markers exist only then)        T and (EP or S or LP) => continue   (later pages can hold versions of the window)
        # Stopping earlier than that loses versions; going on longer than necessary only costs requests. `x[-1]` must never be evaluated
        # on an empty list (IndexError) nor compared with an unset start (TypeError).
        class _Unsafe(Exception):
            pass

        unknown = []
        wrong_cmp = []

        def listkind(x):
            """'P' raw page, ('F', start_filtered) filtered copy of it, None otherwise"""
            core, preds = _strip_filters(b, x)
            if not _is_page(core):
                return None
            return "P" if not preds else ("F", "start_date" in preds)

        def atom(p):
            if _resp_key(p, "IsTruncated"):
                return ("T",)
            if p[0] == "cmp" and p[2][0] == "call" and p[2][1] == ("global", "len") and p[3][0] == "const" and listkind(p[2][2][0]):
                k, c = p[1], p[3][1]
                lk = listkind(p[2][2][0])
                if (k, c) in ((">", 0), ("!=", 0), (">=", 1)):
                    return ("NE", lk)
                if (k, c) in (("==", 0), ("<", 1), ("<=", 0)):
                    return ("E", lk)
            if listkind(p):
                return ("NE", listkind(p))
            if p[0] == "cmp" and p[1] in ("is", "isnot", "is not") and _self_attr(p[2], "start_date") and p[3] == NONE:
                return ("S",) if p[1] == "is" else ("NS",)
            if p[0] == "cmp" and _self_attr(p[3], "start_date"):
                lhs = p[2]
                lk = listkind(lhs[1][1]) if (lhs[0] == "sub" and lhs[2] == ("const", "LastModified") and lhs[1][0] == "sub"
                                             and lhs[1][2] == ("const", -1)) else None
                if lk and p[1] == ">=":
                    return ("L", lk)
                if lk and p[1] == "<":
                    return ("NL", lk)
                wrong_cmp.append((ir.show(lhs, maxdepth=3), p[1], bool(lk)))
                return ("L?", lk or "P")
            return None

        def ev(p, a):
            if p[0] == "bool":
                if p[1] == "and":
                    for x in p[2]:
                        if not ev(x, a):
                            return False
                    return True
                for x in p[2]:
                    if ev(x, a):
                        return True
                return False
            if p[0] == "un" and p[1] == "not":
                return not ev(p[2], a)
            if p[0] in ("phi", "ifexp"):
                return ev(p[2], a) if ev(p[1], a) else ev(p[3], a)
            if p[0] == "const" and isinstance(p[1], bool):
                return p[1]
            k = atom(p)
            if k is None:
                unknown.append(ir.show(p, maxdepth=4))
                return False
            if k[0] in ("E", "NE"):
                e = a["EP"] if k[1] == "P" else a["EF"]
                return e if k[0] == "E" else not e
            if k[0] in ("L", "NL", "L?"):
                raw = k[1] == "P"
                if (a["EP"] if raw else a["EF"]):
                    raise _Unsafe("the oldest-version test is evaluated on a list without versions (IndexError)")
                if a["S"]:
                    raise _Unsafe("the oldest-version test compares with a start that is unset (TypeError)")
                val = a["LP"] if raw else (True if k[1][1] else a["LF"])
                return (not val) if k[0] == "NL" else val
            return {"T": a["T"], "S": a["S"], "NS": not a["S"]}[k[0]]

        import itertools as _it
        bad = {}
        for T_, EP_, S_, LP_, EF_, LF_ in _it.product([True, False], repeat=6):
            if EP_ and not EF_:
                continue
            a = {"T": T_, "EP": EP_, "S": S_, "LP": LP_, "EF": EF_, "LF": LF_}
            must = T_ and (EP_ or S_ or LP_)
            what = "without versions" if EP_ else ("whose oldest version is >= start" if LP_ else "whose oldest version is < start")
            try:
                got = ev(cond, a)
            except _Unsafe as e:
                bad.setdefault("unsafe", f"truncated={T_}, page {what}, start {'unset' if S_ else 'set'}: {e}")
                continue
            if got and not T_:
                bad.setdefault("truncated", f"not truncated, page {what}: the listing continues although there are no continuation markers")
            if must and not got:
                bad.setdefault("empty" if EP_ else "window", f"truncated, page {what}{' (its window-filtered copy is empty)' if EF_ and not EP_ else ''}, start "
                               f"{'unset' if S_ else 'set'}: the listing stops, the following pages can hold versions of the window")
        if wrong_cmp and "window" not in bad:
            lhs_, op_, last_ = wrong_cmp[0]
            bad["window"] = (f"early-stop test uses '{op_}': a page ending exactly at the window start would stop the listing although the next page can "
                             f"hold versions with the same timestamp" if last_ else
                             f"early-stop test looks at {lhs_}, not at the last (oldest) version of this page")
        if unknown and not bad:
            bad["window"] = f"recursion condition has a clause that is not understood: {unknown[0]}"
        ctx.ob("C19.R2.truncated", f"{lv.qualname}|recurse only if truncated", "truncated" not in bad, lv.where(),
               "recursion requires response['IsTruncated']" if "truncated" not in bad else bad["truncated"])
        ctx.ob("C19.R2.nonempty", f"{lv.qualname}|a page without versions neither fails nor ends the listing", not ({"unsafe", "empty"} & set(bad)), lv.where(),
               "on a page without versions (delete markers only) the oldest-version test is not evaluated and the listing continues while truncated"
               if not ({"unsafe", "empty"} & set(bad)) else bad.get("unsafe", bad.get("empty")))
        ctx.ob("C19.R2.window", f"{lv.qualname}|early stop at window start", "window" not in bad, lv.where(),
               "the listing continues at least while the oldest version of the page is still >= start (or start is unset)" if "window" not in bad else bad["window"])
        same = other == JOIN[2] or other == JOIN[3]
        ctx.ob("C19.R2.else", f"{lv.qualname}|no recursion keeps the page", same and raw_page_of(other)[0] is not None, lv.where(),
               "without recursion the page's versions are the result" if same else "without recursion the result is not the page's versions")
    # ---- R3 ------------------------------------------------------------------------------
    for r in recs[:1]:
        kws = dict((k, v) for k, v in r[3] if k) if LOOP is None else {k_[1]: v_ for k_, v_ in MARKS[2][1] if k_ is not None and k_[0] == "const"}
        okm = ("KeyMarker" in kws and "VersionIdMarker" in kws and _resp_key(kws["KeyMarker"], "NextKeyMarker")
               and _resp_key(kws["VersionIdMarker"], "NextVersionIdMarker") and kws["KeyMarker"][1] == kws["VersionIdMarker"][1])
        ctx.ob("C19.R3.markers", f"{lv.qualname}|continuation markers", okm, lv.where(),
               "KeyMarker / VersionIdMarker are NextKeyMarker / NextVersionIdMarker of the same response" if okm
               else f"continuation markers passed: {', '.join(k + '=' + ir.show(v, maxdepth=3) for k, v in kws.items())}")
        okp = (len(r[2]) >= 1 and r[2][0] == ("param", "path")) if LOOP is None else True  # one path for every request of the loop (R3.request)
        ctx.ob("C19.R3.path", f"{lv.qualname}|same path", okp, lv.where(), "recursive call lists the same path" if okp else "recursive call lists a different path")
    resp = next((t for t in terms if _is_resp(t)), None)
    ctx.require(resp is not None, f"{lv.where()}: list_object_versions request not found")
    kw = dict((k, v) for k, v in resp[3] if k)
    fwd = any(k is None and v == ("param", "**kwargs") for k, v in resp[3])
    if LOOP is not None and MARKS is not None:
        # the request of an iteration gets the caller's markers first and the markers set at the end of the previous iteration afterwards
        fwd = any(k is None and v[0] == "loopin" and v[1] == MARKS[1] and v[2] == LOOP[1] and v[3] == ("param", "**kwargs") for k, v in resp[3])
    okr = _self_attr(kw.get("Bucket", NONE), "bucket_name") and kw.get("Prefix") == ("param", "path") and fwd
    ctx.ob("C19.R3.request", f"{lv.qualname}|request forwards markers", okr, lv.where(),
           "request = (Bucket=self.bucket_name, Prefix=path, **markers)" if okr else
           f"request is {ir.show(resp, maxdepth=3)}: " + ("continuation markers (**kwargs) are not forwarded, so every page is the first page" if not fwd else "bucket/prefix differ"))
    # ---- R4 ------------------------------------------------------------------------------
    # every version that reaches the result has passed both window filters: the filters peeled off the returned term apply to
    # everything below them; what they leave unfiltered has to be filtered on its own way up (the page part of the concatenation and
    # the page returned without recursion). The recursive result is filtered by the recursive call itself.
    core0, outer = _strip_filters(b, ret)
    routes = []
    if core0[0] == "phi" and any(jn == core0[2] or jn == core0[3] for jn in joins):
        jn = core0[2] if core0[2] in joins else core0[3]
        routes = [("page of a listing that goes on", page_part(jn)), ("page of a listing that ends", core0[3] if jn == core0[2] else core0[2])]
    elif core0 in joins:
        routes = [("page", page_part(core0))]
    elif LOOP is not None and core0 == LOOP:
        routes = [("page", page_part(LOOP[4]))]
    if not routes:
        ctx.ob("C19.R4.combined", f"{lv.qualname}|the page's versions reach the result", False, lv.where(),
               f"the result is not (the page's versions + the following pages), optionally filtered: {ir.show(core0, maxdepth=4)[:200]}")
    for which, op in (("start_date", ">="), ("end_date", "<=")):
        flipped = {">=": "<=", "<=": ">="}[op]

        def good(p_):
            return (p_[0] == "cmp" and ((p_[1] == op and p_[2] == ("sub", ("param", "v"), ("const", "LastModified")) and _self_attr(p_[3], which))
                                        or (p_[1] == flipped and p_[3] == ("sub", ("param", "v"), ("const", "LastModified")) and _self_attr(p_[2], which))))

        seen = [outer[which]] if which in outer else []
        missing = []
        for name, part in routes:
            _, inner_p = raw_page_of(part)
            if which in inner_p:
                seen.append(inner_p[which])
            elif which not in outer:
                missing.append(name)
        ok = bool(seen) and all(good(p_) for p_ in seen)
        ctx.ob("C19.R4.filter", f"{lv.qualname}|{which} filter", ok, lv.where(),
               f"keeps v with v['LastModified'] {op} {which}, skipped when {which} is None" if ok else
               (f"no filter on {which} (skipped-when-None form) is applied to the result" if not seen
                else f"{which} filter keeps {ir.show(next(p_ for p_ in seen if not good(p_)), maxdepth=4)} (inclusive '{op}' required)"))
        if seen:
            ctx.ob("C19.R4.combined", f"{lv.qualname}|{which} filter on every route to the result", not missing, lv.where(),
                   "every version that reaches the result has passed the filter" if not missing
                   else f"the {which} filter is not on the way of the {', '.join(missing)}: versions outside the window escape")
    ctx.ob("C19.R1.stray", f"{lv.qualname}|recursive result only inside the concatenation", not stray, lv.where(),
           "recursive result is used only as part of the concatenation" if not stray else "recursive result also flows to the result on its own")

    # ---- R5 ------------------------------------------------------------------------------
    g = ctx.fn(S3, "S3VersionUtil.get")
    gs = b.summarize(g)
    none_rets = [(pc, t, n) for pc, t, n in gs.returns if t == NONE]
    ok = False
    for pc, t, n in none_rets:
        c = pc[-1] if pc else None
        if c and c[1] and c[0][0] == "cmp" and c[0][1] in ("==", "<", "<=") and c[0][2][0] == "call" and c[0][2][1] == ("global", "len") \
                and _is_rec_or_lv(c[0][2][2][0]) and c[0][3] == ("const", 0 if c[0][1] != "<" else 1):
            ok = True
        if c and not c[1] and _is_rec_or_lv(c[0]):
            ok = True
        if c and c[1] and c[0][0] == "un" and c[0][1] == "not" and _is_rec_or_lv(c[0][2]):
            ok = True
    ctx.ob("C19.R5.none", f"{g.qualname}|empty listing returns None", ok, g.where(),
           "get returns None when list_versions(path) is empty" if ok else "get does not return None for an empty listing (pd.concat([]) would raise)")
    vh = ctx.fn("elexmodel.handlers.data.VersionedData", "VersionedDataHandler.get_versioned_results")
    vs = b.summarize(vh)
    prop_ok = False
    for pc, t, n in vs.returns:
        c = pc[-1] if pc else None
        if c and c[1] and c[0][0] == "cmp" and c[0][1] == "is" and c[0][3] == NONE and c[0][2][0] == "call" \
                and c[0][2][1][0] == "attr" and c[0][2][1][2] == "get" and (t == c[0][2] or t == NONE):
            prop_ok = True
            get_call = c[0][2]
    if not prop_ok:
        # one `return` after an if / else that sets the value: the returned term is the decision phi(<download> is None ? <download> : ..)
        for x in ir.walk(vs.ret()):
            if x[0] == "phi" and x[1][0] == "cmp" and x[1][1] == "is" and x[1][3] == NONE and x[1][2][0] == "call" and x[1][2][1][0] == "attr" \
                    and x[1][2][1][2] == "get" and x[2] in (x[1][2], NONE):
                # .. and nothing is computed from the missing download on that path
                used = [e_ for pc_, e_, _ in vs.effects if any(c_ == x[1] and pol_ for c_, pol_ in pc_) and any(y == x[1][2] for y in ir.walk(e_))]
                if not used:
                    prop_ok, get_call = True, x[1][2]
    if prop_ok:
        # .. and the missing download is not dereferenced anywhere outside the "is not None" path (a log line that reports len(data)
        # before the test turns 'no data' into a TypeError)
        def _guarded(pc_):
            return any(c_[0] == "cmp" and c_[1] == "is" and c_[2] == get_call and c_[3] == NONE and not pol_ for c_, pol_ in pc_)

        def _derefs(t_, depth=0):
            """a dereference of the download inside t_ that is not under a decision `download is None ? .. : ..` taken inside the term itself
            (one `return` after an if / else is such a decision)"""
            if not isinstance(t_, tuple) or not t_ or depth > 60:
                return None
            if t_[0] in ("phi", "ifexp") and isinstance(t_[1], tuple) and t_[1] and t_[1][0] == "cmp" and t_[1][2] == get_call and t_[1][3] == NONE \
                    and t_[1][1] in ("is", "is not", "==", "!="):
                none_branch = t_[2] if t_[1][1] in ("is", "==") else t_[3]
                return _derefs(none_branch, depth + 1)  # the other branch is the 'is not None' path
            if t_[0] in ("attr", "sub") and t_[1] == get_call:
                return t_
            if t_[0] == "call" and t_[1] != get_call[1] and t_ != get_call and (get_call in t_[2] or any(v_ == get_call for _, v_ in t_[3])):
                return t_
            if t_ == get_call:
                return None
            for x_ in t_:
                if isinstance(x_, tuple):
                    d_ = _derefs(x_, depth + 1)
                    if d_ is not None:
                        return d_
            return None
        uses = [(pc_, e_, n_) for pc_, e_, n_ in vs.effects] + [(pc_, t_, n_) for pc_, _, t_, n_ in vs.assigns] + list(vs.returns)
        for pc_, e_, n_ in uses:
            d_ = _derefs(e_)
            if d_ is not None and not _guarded(pc_):
                ctx.ob("C19.R5.propagate", f"{vh.qualname}|missing download never dereferenced", False, vh.where(n_) if n_ is not None else vh.where(),
                       f"{ir.show(d_, maxdepth=3)} is evaluated on a path where the download can be None: an empty window raises instead of returning 'no data'")
                break
        else:
            ctx.ob("C19.R5.propagate", f"{vh.qualname}|missing download never dereferenced", True, vh.where(),
                   "every use of the download other than the None test sits on the 'is not None' path")
    ctx.ob("C19.R5.propagate", f"{vh.qualname}|None propagated", prop_ok, vh.where(),
           "get_versioned_results returns None when the download returns None" if prop_ok
           else "get_versioned_results does not return None when nothing was found (it would process None)")
    if prop_ok:
        a = get_call[2]
        oks = len(a) == 2 and a[1] == ("attr", ("param", "self"), "sample")
        ctx.ob("C19.R6.sample-arg", f"{vh.qualname}|sample forwarded", oks, vh.where(),
               "the handler's sampling step is passed to the download" if oks else "the handler's sampling step is not passed to S3VersionUtil.get")
    _window_args(ctx, b)
    ge = ctx.fn("elexmodel.client", "ModelClient.get_estimates")
    # the handler handed to the model: under "get_versioned_results(..) is None" it must be None (any local naming)
    okc = False
    gsum = ctx.builder(inline=lambda *a: False).summarize(ge)
    hterms = {v for _, _, t_, _ in gsum.assigns for x in ir.walk(t_) if x[0] == "call" for k, v in x[3] if k == "versioned_data_handler"}
    for v in hterms:
        for x in ir.walk(v):
            if x[0] == "phi" and x[1][0] == "cmp" and x[1][1] == "is" and x[1][3] == NONE and x[1][2][0] == "call" \
                    and x[1][2][1][0] == "attr" and x[1][2][1][2] == "get_versioned_results" and x[2] == NONE \
                    and x[3] == x[1][2][1][1]:
                okc = True
    ctx.ob("C19.R5.client", f"{ge.qualname}|no data means no handler", okc, ge.where(),
           "client drops the versioned handler when no data was found" if okc else "client keeps a versioned handler without data")

    # ---- R6 ------------------------------------------------------------------------------
    puts = [t for pc, t, n in gs.effects if t[0] == "call" and t[1][0] == "attr" and t[1][2] == "put"]
    ctx.sites("C19.R6", len(puts), 1, "queueing of download requests in S3VersionUtil.get")
    ok = False
    detail = "request loop not recognised"
    for t in puts:
        mr = t[2][0] if t[2] else None
        if mr and mr[0] == "call" and mr[1] == ("attr", ("param", "self"), "make_request"):
            ver = dict((k, v) for k, v in mr[3]).get("version")
            if ver and ver[0] == "elem" and ver[1][0] == "sub" and ver[1][2][0] == "slice":
                sl = ver[1][2]
                src = ver[1][1]
                ok = sl[1] == NONE and sl[2] == NONE and sl[3] == ("param", "sample") and _is_rec_or_lv(src) and mr[2][:1] == (("param", "path"),)
                detail = ("one request per element of list_versions(path)[::sample], for the same path" if ok
                          else f"requests iterate over {ir.show(ver[1], maxdepth=4)}")
            elif ver:
                detail = f"requests iterate over {ir.show(ver, maxdepth=4)}, not over versions[::sample]"
    ctx.ob("C19.R6.sample", f"{g.qualname}|every sample-th version", ok, g.where(), detail)
    stamp = [t for t in ir.walk(gs.ret()) if t[0] == "setitem" and t[2] == ("const", "last_modified")]
    if not stamp:
        # the returned frame is not built from frames stamped inside the loop that receives (version, data) pairs
        elsewhere = [t_ for _, _, t_, _ in gs.assigns if t_[0] == "setitem" and t_[2] == ("const", "last_modified")]
        ctx.ob("C19.R6.stamp", f"{g.qualname}|own version's timestamp", False, g.where(),
               ("last_modified is written outside the loop that receives each download together with its version "
                f"({ir.show(elsewhere[0][3], maxdepth=4)}): frames and versions are paired by position, which shifts as soon as one download fails")
               if elsewhere else "the returned rows are not stamped with last_modified")
    for t in stamp[:1]:
        frame, val = t[1], t[3]
        fe = [x for x in ir.walk(frame) if x[0] == "sub" and x[1][0] == "elem" and x[2] == ("const", 1)]
        ve = [x for x in ir.walk(val) if x[0] == "sub" and x[2] == ("const", "LastModified")]
        ok = bool(fe) and bool(ve) and ve[0][1] == ("sub", fe[0][1], ("const", 0))
        ctx.ob("C19.R6.stamp", f"{g.qualname}|own version's timestamp", ok, g.where(),
               "each frame is stamped with LastModified of the version yielded together with its data" if ok
               else f"timestamp comes from {ir.show(ve[0], maxdepth=4) if ve else '?'} which is not the version paired with the frame")
        tz_ok = any(x[0] == "call" and x[1][0] == "attr" and x[1][2] == "astimezone" and
                    any(y == ("attr", ("param", "self"), "tz") for y in ir.walk(x)) for x in ir.walk(val))
        ctx.ob("C19.R6.tz", f"{g.qualname}|timezone", tz_ok, g.where(),
               "timestamp converted to the requested timezone (self.tz)" if tz_ok else "timestamp is not converted to self.tz")
    ww = ctx.fn(S3, "S3VersionUtil.wait_for_versions")
    loop = next((n for n in util.own_nodes(ww, (ast.While, ast.For))), None)
    ctx.require(loop is not None, f"{ww.where()}: loop not found")
    gets = [c for c in util.method_calls(loop, "get")]
    unpack = None
    for n in ast.walk(loop):
        if isinstance(n, ast.Assign) and isinstance(n.value, ast.Call) and n.value in gets and isinstance(n.targets[0], ast.Tuple):
            unpack = [e.id if isinstance(e, ast.Name) else None for e in n.targets[0].elts]
    yields = [n for n in ast.walk(loop) if isinstance(n, ast.Yield)]
    results = [c for c in util.method_calls(loop, "result")]
    ok = (len(gets) == 1 and unpack is not None and len(unpack) == 3 and len(yields) == 1 and isinstance(yields[0].value, ast.Tuple)
          and [getattr(e, "id", None) for e in yields[0].value.elts] == unpack[:2]
          and len(results) == 1 and isinstance(results[0].func.value, ast.Name) and results[0].func.value.id == unpack[2])
    ctx.ob("C19.R6.tuple", f"{ww.qualname}|version, data, future stay together", ok, ww.where(loop),
           "one queue item per iteration; its future is awaited and its own (version, data) yielded" if ok
           else "the yielded (version, data) pair is not the one whose future was awaited")
    mk = ctx.fn(S3, "S3VersionUtil.make_request")
    # def-use terms (independent of local names / temporaries): returns (version, BUF, FUT) where BUF is one fresh buffer,
    # FUT = manager.download(.., BUF, extra_args=<kwargs with VersionId := version['VersionId'] when a version is given>)
    mr = ctx.builder(inline=lambda *a: False).summarize(mk).ret()
    ok = False
    if mr[0] == "tuple" and len(mr[1]) == 3:
        v, d, fu = mr[1]
        VER = ("param", "version")
        fresh = d[0] == "call" and any(k == "#new" for k, _ in d[3])
        isdl = fu[0] == "call" and fu[1][0] == "attr" and fu[1][2] == "download"
        buf = (fu[2][2] if len(fu[2]) > 2 else dict(fu[3]).get("fileobj")) if isdl else None
        extra = dict(fu[3]).get("extra_args") if isdl else None
        want_set = ("mut", None, "setdefault", (("const", "VersionId"), ("sub", VER, ("const", "VersionId"))), ())
        bound = extra is not None and any(x[0] == "phi" and x[1] == ("cmp", "is", VER, ("const", None)) and x[3][0] == "mut" and x[3][2:] == want_set[2:]
                                          for x in ir.walk(extra))  # the branch for `version is not None` (canonical polarity: `is None`, second branch)
        ok = v == VER and fresh and isdl and buf == d and bound
    ctx.ob("C19.R6.request", f"{mk.qualname}|request bound to its version", ok, mk.where(),
           "the returned buffer is the one the download of version['VersionId'] writes to" if ok
           else "make_request does not tie the returned buffer / version to the VersionId that is downloaded")

    # ---- R7 ------------------------------------------------------------------------------
    tries = [n for n in ast.walk(loop) if isinstance(n, ast.Try)]
    res = results[0] if results else None
    tr = next((t for t in tries if res is not None and any(res in ast.walk(st) for st in t.body)), None)
    ok = tr is not None
    ctx.ob("C19.R7.try", f"{ww.qualname}|future.result() in try", ok, ww.where(res or loop),
           "future.result() is inside a try" if ok else "a failing download raises out of wait_for_versions and aborts all others")
    if tr is not None:
        broad = [h for h in tr.handlers if h.type is None or (util.dotted(h.type) or "").split(".")[-1] in ("Exception", "BaseException")]
        rer = [n for h in tr.handlers for n in ast.walk(h) if isinstance(n, (ast.Raise, ast.Return, ast.Break))]
        ctx.ob("C19.R7.catch", f"{ww.qualname}|handler catches Exception, no re-raise", bool(broad) and not rer, ww.where(tr),
               "any download error is caught, logged and skipped" if broad and not rer
               else ("handler re-raises / leaves the loop" if rer else "handler is narrower than Exception: other download errors abort the retrieval"))
        yin = any(y in ast.walk(st) for st in tr.body + tr.orelse for y in yields)
        ctx.ob("C19.R7.yield", f"{ww.qualname}|yield only after success", yin, ww.where(tr),
               "the pair is yielded only after result() succeeded" if yin else "a pair is yielded even though its download failed")
    cfg = CFG(ww.node)
    td = util.method_calls(loop, "task_done")
    gn = cfg.node_of(gets[0]) if gets else None
    ok = bool(td) and gn is not None and cfg.every_path_passes(gn, cfg.by_ast[loop], [cfg.node_of(c) for c in td])
    ctx.ob("C19.R7.task_done", f"{ww.qualname}|task_done on both paths", ok, ww.where(loop),
           "task_done runs after success and after failure" if ok else "task_done is skipped on some path through the loop body")


def _is_rec_or_lv(t):
    return t[0] == "call" and t[1][0] == "attr" and t[1][2] == "list_versions"
