"""C06 - bootstrap intervals are ordered, nested by level, and margins stay in [-1, 1].

 R1 pairing: at unit and aggregate level the value returned as LOWER is  pred - Q(high rank)  and the one returned as UPPER is
    pred - Q(low rank)  of the same draw matrix along the draw axis, where low rank = floor(((1-alpha)/2)(B+1))/B and
    high rank = ceil((1-(1-alpha)/2)(B-1))/B  (the statement's own formulas); with low <= high this gives lower <= upper;
 R2 straddle: aggregate bounds pass  minimum(lower, pred - eps) / maximum(upper, pred + eps)  with a literal eps > 0 around the
    same prediction the quantiles were subtracted from; that prediction is the stored (reported) one at the top level and below
    it a recomputed quotient whose R | N | U components are those of the reported prediction (R2.centre);
 R3 clipping: every factor of errors_B_1..4, weighted_yz_test_pred and weighted_z_test_pred is clipped to the bounds that
    _generate_nonreporting_bounds gives for the matching quantity (margin with margin bounds, turnout factor with turnout
    bounds) after the last unbounded update, then multiplied by the baseline weights; default naive bounds are +-1 and >= 0; the
    turnout bounds themselves are quotients whose denominators stay positive (R3.bounds-feasible);
 R4 same draws for every level: the draw matrices and point predictions are written only by compute_bootstrap_errors, whose only
    call site is behind the run-once guard; the per-level functions neither write them nor draw random numbers;
 R7 call-monotone: every call / stop adjustment of a contest-level bound is a monotone map of that bound (a clamp), evaluated on
    the 7 regions around {-0.005, 0, +0.005} for every call code and stop flag, so nested levels stay nested (F29);
 R8 epsilon-guard: with fewer than two non-zero estimated contest effects (n = 0 and n = 1 are evaluated) the sampler of contest
    effects returns before it takes a variance (ddof=1) / correlation, which would be NaN and end the run in LinAlgError (F28);
 R9 finite-margin: every quotient by a group turnout total in the two aggregate functions is nan_to_num(x / total) (shared with
    C11.R3): a group with zero predicted turnout has margin 0, not NaN.
Not decided: 0 <= low rank <= high rank <= 1 for all (alpha, B >= 2) and numeric ranges - arithmetic over unbounded domains
(hand proof in DESIGN.md appendix A); here only that the code still is the formula that proof is about.
"""
from __future__ import annotations

import ast

from .. import ir, symexpr, util
from ..effects import Guards
from ..model import AnalysisError

BM = "elexmodel.models.BootstrapElectionModel"
SELF = ("param", "self")
NUP = ("param", "nonreporting_units")
STATE = ("errors_B_1", "errors_B_2", "errors_B_3", "errors_B_4", "weighted_yz_test_pred", "weighted_z_test_pred")


def _strip(t):
    while t[0] == "call" and t[1][0] == "attr" and t[1][2] in ("reshape", "flatten", "round", "copy"):
        t = t[1][1]
    return t


def _leafq(t):
    if t == ("attr", SELF, "B"):
        return "B"
    if t[0] == "param":
        return t[1]
    return None


def _rank_kind(q):
    n = symexpr.Normalizer(leaf=_leafq).norm(q)
    low = symexpr.Normalizer().norm(symexpr.parse("floor(((1 - alpha) / 2) * (B + 1)) / B"))
    high = symexpr.Normalizer().norm(symexpr.parse("ceil((1 - (1 - alpha) / 2) * (B - 1)) / B"))
    if n == low:
        return "low"
    if n == high:
        return "high"
    return n.key()


def _bound_parts(t):
    """t = (PRED - quantile(E, q=[..], axis=-1).T).T[i]...  ->  (pred, E, qlist, axis, i) or None"""
    t = _strip(t)
    if not (t[0] == "sub" and t[2][0] == "const" and isinstance(t[2][1], int) and t[1][0] == "attr" and t[1][2] == "T"):
        return None
    x = t[1][1]
    if not (x[0] == "bin" and x[1] == "-" and x[3][0] == "attr" and x[3][2] == "T"):
        return None
    qc = x[3][1]
    if not (qc[0] == "call" and ir.show(qc[1]).endswith("quantile") and qc[2]):
        return None
    kw = dict(qc[3])
    q = kw.get("q")
    if q is None or q[0] != "list" or len(q[1]) != 2:
        return None
    return x[2], qc[2][0], q[1], kw.get("axis"), t[2][1]


def _bound_denominators(ctx, cls):
    """R3.bounds-feasible: the turnout-factor bounds every draw is clipped to are  counted / (share in +- error)  - a turnout, so
    they must be non-negative and finite.  `share + error` is a sum of non-negatives; `share - error` can be zero or NEGATIVE
    (error bound above the share), so that denominator has to be bounded below by a positive literal (`.clip(min=c)`,
    numpy.maximum(.., c)); otherwise a unit with counted votes gets a negative upper bound and, through the clipping of R3,
    a negative predicted turnout."""
    f = ctx.fn(BM, "BootstrapElectionModel._generate_nonreporting_bounds")
    s = ctx.builder(inline=lambda *a: False).summarize(f, {"bootstrap_estimand": ("const", "turnout_factor")}, self_cls=cls)
    r = s.ret()
    ctx.require(r[0] == "tuple" and len(r[1]) == 2, f"{f.where()}: does not return (lower, upper)")
    nden = 0
    for side, t in zip(("lower", "upper"), r[1]):
        for d in ir.walk(t):
            if not (d[0] == "bin" and d[1] == "/") or d[3][0] == "const":
                continue
            den = d[3]
            nden += 1
            core = den
            floor = None
            if core[0] == "call" and core[1] == ("global", "numpy.clip") and len(core[2]) == 3:  # x.clip(min=c) / numpy.clip(x, c, None): one form
                floor = core[2][1] if core[2][1] != ("const", None) else None
                core = core[2][0]
            elif core[0] == "call" and core[1][0] == "global" and core[1][1].endswith("maximum") and len(core[2]) == 2:
                c_ = [a for a in core[2] if a[0] == "const"]
                floor = c_[0] if c_ else None
                core = next(a for a in core[2] if a[0] != "const") if c_ else core
            subtracts = any(x[0] == "bin" and x[1] == "-" for x in ir.walk(core))
            pos_floor = floor is not None and floor[0] == "const" and isinstance(floor[1], (int, float)) and floor[1] > 0
            ok = pos_floor or not subtracts
            ctx.ob("C06.R3.bounds-feasible", f"{f.qualname}|{side} turnout bound: denominator stays positive", ok, f.where(),
                   (f"denominator {ir.show(den, maxdepth=3)} is bounded below by {floor[1]}" if pos_floor
                    else f"denominator {ir.show(den, maxdepth=3)} is a sum of non-negative terms") if ok
                   else f"denominator {ir.show(den, maxdepth=3)} can be zero or negative (error bound above the share of the vote that is in): "
                        f"the {side} turnout bound becomes negative / infinite and every draw of the unit is clipped to it")
    ctx.sites("C06.R3.bounds-feasible", nden, 2, "denominators of the turnout-factor bounds")


def _centre(ctx, cls):
    """R2.centre: 'lower < prediction < upper' needs the value the interval is built around to be the prediction that is
    REPORTED.  At the top level it is the stored self.aggregate_pred_margin; below it, it is recomputed, and must be the same
    quotient: numerator = margin votes of unexpected + reporting units + predicted margin votes of nonreporting units,
    denominator likewise for two-party votes, as sums of indicator products over the R | N | U row segments."""
    from .. import aggmodel as am
    from .c01 import model_builder
    mb = model_builder(ctx)
    af = ctx.fn(BM, "BootstrapElectionModel.get_aggregate_prediction_intervals")
    s = mb.summarize(af, {"estimand": ("const", "margin")}, self_cls=cls)
    ret = s.ret()
    centres = []
    for t in ir.walk(ret):
        if t[0] == "phi" and t[1][0] == "call" and t[1][1] == ("attr", SELF, "_is_top_level_aggregate") and t not in centres \
                and t[2] == ("attr", SELF, "aggregate_pred_margin"):
            centres.append(t)
    ok_top = len(centres) == 1
    ctx.ob("C06.R2.centre", f"{af.qualname}|top level: interval built around the stored prediction", ok_top, af.where(),
           "at the top level the interval is built around self.aggregate_pred_margin (the reported, race-call adjusted prediction)" if ok_top
           else f"{len(centres)} candidates for 'top level ? stored prediction : recomputed prediction'")
    if not ok_top:
        return
    x = centres[0][3]
    while x[0] == "call" and (ir.show(x[1]).endswith("reshape") or ir.show(x[1]).endswith("nan_to_num")):
        x = x[1][1] if x[1][0] == "attr" else x[2][0]
    want = {"numerator": [("N", "self.weighted_yz_test_pred"), ("R", "baseline_weights*results_normalized_margin*turnout_factor"), ("U", "results_margin")],
            "denominator": [("N", "self.weighted_z_test_pred"), ("R", "baseline_weights*turnout_factor"), ("U", "results_weights")]}
    if not (x[0] == "bin" and x[1] == "/"):
        ctx.ob("C06.R2.centre", f"{af.qualname}|below the top level: recomputed prediction is a quotient", False, af.where(),
               f"recomputed prediction is {ir.show(x, maxdepth=3)}")
        return
    for what, side in (("numerator", x[2]), ("denominator", x[3])):
        comps = am.matsum_components(am.non_classification_view(side))
        got = sorted((c[0], c[1]) for c in comps)
        ok = got == want[what] and all(c[2] for c in comps)
        ctx.ob("C06.R2.centre", f"{af.qualname}|below the top level: {what} of the recomputed prediction", ok, af.where(),
               f"{what} = " + " + ".join(f"{seg}:{v}" for seg, v in got) + " (the reported prediction's own terms)" if ok
               else f"{what} of the value the interval is centred on is {got}, but the reported prediction uses {want[what]}: "
                    f"the interval is built around a different number than the one reported")


def _call_monotone(ctx):
    """R7.call-monotone: at the contest level the bounds of called / stop-listed contests are post-processed. The levels stay nested
    only if every such adjustment is a MONOTONE map of the bound (a clamp max(x, c) / min(x, c)): `where(x < 0, 0.005, x)` is not -
    it lifts -0.03 above +0.002 - so a wider level could end up inside a narrower one. Decided by evaluating the adjustment on
    the 7 regions around {-0.005, 0, +0.005} for every call code and stop flag (the other bound held at each feasible region)."""
    from .c07 import interval_adjustment_terms
    from ..regions import RegionEval
    try:
        T = interval_adjustment_terms(ctx)
    except AnalysisError as e:
        # the straddle or the call vectors are gone: R2 / C07 report that; here it means the adjustment cannot be shown monotone
        gi = ctx.fn(BM, "BootstrapElectionModel.get_aggregate_prediction_intervals")
        for side in ("lower", "upper"):
            ctx.ob("C06.R7.call-monotone", f"{gi.qualname}|{side} bound adjustments keep the order of levels", False, gi.where(),
                   f"the call / stop adjustment of the {side} bound is not in the form that can be evaluated: {e}")
        return
    R, fn = T["R"], T["fn"]
    regs = list(R.all_regions())
    nstates = 0
    bad = {}
    for code, who in zip(T["codes"], ("called left", "called right", "not called")):
        for stop in (False, True):
            for side, term, own, other in (("lower", T["LO"], T["L0"], T["U0"]), ("upper", T["UP"], T["U0"], T["L0"])):
                for ro in regs:
                    prev = None
                    for r in regs:  # ascending
                        env = {own: ("r", r), other: ("r", ro), T["CALLED"]: ("i", code), T["STOP"]: ("b", stop), T["TOPC"]: ("b", True)}
                        out = RegionEval(R, env, T["fold"]).ev(term)
                        out = out[1] if out[0] == "r" else R.of_const(out[1])
                        nstates += 1
                        if prev is not None and out < prev[1]:
                            bad.setdefault((side, who, stop), f"{side} bound in {R.name(prev[0])} becomes {R.name(prev[1])} but a larger one in "
                                                               f"{R.name(r)} becomes {R.name(out)}")
                        prev = (r, out)
    ctx.count("C06.R7.states", nstates)
    for side in ("lower", "upper"):
        items = {k: v for k, v in bad.items() if k[0] == side}
        ok = not items
        detail = (f"every call / stop adjustment of the {side} bound is a monotone map (clamp), so nested levels stay nested" if ok else
                  "; ".join(f"{who}{', stop-listed' if stop else ''}: {v}" for (_, who, stop), v in sorted(items.items(), key=str))
                  + f" - the adjustment is not monotone, the {side} bounds of two levels can swap order")
        ctx.ob("C06.R7.call-monotone", f"{fn.qualname}|{side} bound adjustments keep the order of levels", ok, fn.where(), detail)


def _epsilon_guard(ctx, cls):
    """R8.epsilon-guard: _sample_test_epsilon estimates the spread and correlation of the contest effects from the NON-ZERO estimated
    effects (variance with ddof=1, corrcoef). With fewer than two of them these are NaN, the covariance handed to
    multivariate_normal is NaN and the run dies in LinAlgError - no interval at all. The early 'no contest-level variance' return
    must therefore take every count below 2 (0 as well as 1): the guard is evaluated at n = 0 and n = 1."""
    import operator
    f = ctx.fn(BM, "BootstrapElectionModel._sample_test_epsilon")
    s = ctx.builder().summarize(f, self_cls=cls)
    OPS = {"<": operator.lt, "<=": operator.le, ">": operator.gt, ">=": operator.ge, "==": operator.eq, "!=": operator.ne}

    def is_count(t):  # number of non-zero estimated effects: nonzero(eps)[0].shape[0] / len(nonzero(eps)[0]) / count_nonzero(eps)
        txt = ir.show(t, maxdepth=10)
        return ("nonzero" in txt and "epsilon" in txt) and (
            (t[0] == "sub" and t[1][0] == "attr" and t[1][2] == "shape") or (t[0] == "attr" and t[2] == "size")
            or (t[0] == "call" and (t[1] == ("global", "len") or ir.show(t[1]).endswith("count_nonzero"))))

    def ev(c, n):
        if c[0] == "bool":
            vals = [ev(x, n) for x in c[2]]
            if c[1] == "and":
                return False if False in vals else (None if None in vals else True)
            return True if True in vals else (None if None in vals else False)
        if c[0] == "un" and c[1] == "not":
            v = ev(c[2], n)
            return None if v is None else not v
        if c[0] == "cmp" and c[1] in OPS:
            if is_count(c[2]) and c[3][0] == "const" and isinstance(c[3][1], (int, float)):
                return OPS[c[1]](n, c[3][1])
            if is_count(c[3]) and c[2][0] == "const" and isinstance(c[2][1], (int, float)):
                return OPS[c[1]](c[2][1], n)
        return None

    def estimates_spread(t):  # the hazardous operations: spread / correlation of the selected effects, or a draw that needs them
        return any(x[0] == "call" and ir.show(x[1]).split(".")[-1] in ("var", "std", "corrcoef", "cov", "multivariate_normal", "rvs")
                   for x in ir.walk(t))

    early = [r for r in s.returns if not estimates_spread(r[1])]
    ctx.sites("C06.R8.epsilon-guard", len(s.returns), 1, "returns of _sample_test_epsilon")
    covered = {}
    for n in (0, 1):
        covered[n] = any(pc and all(ev(c, n) is pol for c, pol in pc) for pc, _, _ in early)
    ok = all(covered.values())
    missing = [n for n, v in covered.items() if not v]
    ctx.ob("C06.R8.epsilon-guard", f"{f.qualname}|fewer than two estimable contest effects take the early return", ok, f.where(),
           "with 0 or 1 non-zero estimated contest effects the function returns zeros before any variance / correlation is taken" if ok
           else f"with {' and '.join(map(str, missing))} non-zero estimated contest effect(s) the function goes on to the variance (ddof=1) and "
                f"correlation of an empty / single selection: NaN covariance, multivariate_normal raises LinAlgError and the run produces no interval "
                f"(every contest with at most one reporting unit, or a centred residual mean of exactly 0)")


def check(ctx):
    repo = ctx.repo
    ctx.explanation = (
        "Ordering and nesting are relations between outputs that follow from the SHAPE of the computation: which rank of the same "
        "draw matrix is subtracted for which bound, an explicit straddle step, clipping of every factor before it is stored, and "
        "a run-once discipline for the draws. Each is read from the def-use terms / attribute writer sets / CFG guards. The rank "
        "arithmetic itself is compared with the statement's formula as a rational function with floor/ceil uninterpreted."
    )
    ctx.assumptions += ["numpy.quantile is monotone in q (so Q(low) <= Q(high)) and nested levels give nested ranks (appendix A, hand proof)",
                        "per-unit clipping bounds are broadcast over the draw axis, so the mean over draws stays within them"]
    cls = repo.cls(BM, "BootstrapElectionModel")
    b = ctx.builder(inline=lambda c, call, callee: callee.name == "_get_quantiles")
    # ---- R1 unit level -----------------------------------------------------------------------------
    uf = ctx.fn(BM, "BootstrapElectionModel.get_unit_prediction_intervals")
    us = b.summarize(uf, self_cls=cls)
    ur = us.ret()
    ctx.require(ur[0] == "call" and len(ur[2]) == 2, f"{uf.where()}: does not return PredictionIntervals(lower, upper)")
    _pairing(ctx, uf, "unit", ur[2][0], ur[2][1], ("attr", SELF, "weighted_yz_test_pred"),
             ("bin", "-", ("attr", SELF, "errors_B_1"), ("attr", SELF, "errors_B_2")))
    # ---- R1 / R2 aggregate level -------------------------------------------------------------------
    af = ctx.fn(BM, "BootstrapElectionModel.get_aggregate_prediction_intervals")
    as_ = b.summarize(af, self_cls=cls)
    ar = as_.ret()
    ctx.require(ar[0] == "call" and len(ar[2]) == 2, f"{af.where()}: does not return PredictionIntervals(lower, upper)")
    lo, up = ar[2]
    # the non-top-level branch is the unadjusted (straddled) bound
    L0 = lo[3] if lo[0] == "phi" else lo
    U0 = up[3] if up[0] == "phi" else up
    okL = L0[0] == "call" and ir.show(L0[1]).endswith("minimum") and len(L0[2]) == 2
    okU = U0[0] == "call" and ir.show(U0[1]).endswith("maximum") and len(U0[2]) == 2
    ctx.ob("C06.R2.straddle", f"{af.qualname}|lower = minimum(lower, pred - eps)", okL, af.where(),
           "aggregate lower bound is capped below the prediction" if okL else f"aggregate lower bound is {ir.show(L0, maxdepth=3)}: nothing forces it below the prediction")
    ctx.ob("C06.R2.straddle", f"{af.qualname}|upper = maximum(upper, pred + eps)", okU, af.where(),
           "aggregate upper bound is capped above the prediction" if okU else f"aggregate upper bound is {ir.show(U0, maxdepth=3)}: nothing forces it above the prediction")
    if okL and okU:
        rawL, capL = (L0[2][0], L0[2][1]) if _bound_parts(L0[2][0]) else (L0[2][1], L0[2][0])
        rawU, capU = (U0[2][0], U0[2][1]) if _bound_parts(U0[2][0]) else (U0[2][1], U0[2][0])
        pl = _bound_parts(rawL)
        pu = _bound_parts(rawU)
        ctx.require(pl is not None and pu is not None, f"{af.where()}: aggregate bounds are not 'prediction - quantile of the draw matrix'")
        PRED = pl[0]
        _pairing(ctx, af, "aggregate", rawL, rawU, None, None)
        okcl = capL[0] == "bin" and capL[1] == "-" and capL[2] == PRED and capL[3][0] == "const" and capL[3][1] > 0
        okcu = capU[0] == "bin" and capU[1] == "+" and capU[2] == PRED and capU[3][0] == "const" and capU[3][1] > 0
        ctx.ob("C06.R2.eps", f"{af.qualname}|caps are pred -/+ eps, eps > 0, same prediction", okcl and okcu, af.where(),
               f"caps are prediction - {capL[3][1]} and prediction + {capU[3][1]} around the prediction the quantiles were subtracted from"
               if okcl and okcu else f"caps are {ir.show(capL, maxdepth=3)} and {ir.show(capU, maxdepth=3)}")
        # the draw matrix is the difference of the two divided error matrices
        E = pl[1]
        okE = E[0] == "bin" and E[1] == "-" and pu[1] == E
        ctx.ob("C06.R1.same-matrix", f"{af.qualname}|aggregate bounds from one draw matrix", okE, af.where(),
               "lower and upper are quantiles of the same matrix of bootstrap differences" if okE else "lower and upper use different draw matrices")

    _centre(ctx, cls)
    _bound_denominators(ctx, cls)
    _call_monotone(ctx)
    _epsilon_guard(ctx, cls)
    # R9: "the predicted normalised margin in [-1, 1]" and "lower < prediction < upper" need the prediction to be a number
    from .c01 import model_builder
    from .c11 import zero_turnout_quotients
    zero_turnout_quotients(ctx, model_builder(ctx), "C06.R9.finite-margin",
                           "a group whose predicted turnout is 0 gets a NaN predicted margin - not in [-1, 1], and not between its bounds")

    # ---- quantile formulas as written in _get_quantiles --------------------------------------------------
    qf = ctx.fn(BM, "BootstrapElectionModel._get_quantiles")
    qs = ctx.builder().summarize(qf)
    qr = qs.ret()
    ctx.require(qr[0] == "tuple" and len(qr[1]) == 2, f"{qf.where()}: does not return (lower_q, upper_q)")
    kinds = [_rank_kind(x) for x in qr[1]]
    ctx.ob("C06.R1.ranks", f"{qf.qualname}|rank formulas", kinds == ["low", "high"], qf.where(),
           "returns (floor(((1-alpha)/2)(B+1))/B, ceil((1-(1-alpha)/2)(B-1))/B)" if kinds == ["low", "high"]
           else f"returns ranks {kinds}: not the formulas the nesting / validity argument is about")

    # ---- R3 clipping -----------------------------------------------------------------------------------
    cf = ctx.fn(BM, "BootstrapElectionModel.compute_bootstrap_errors")
    cs = ctx.builder().summarize(cf, self_cls=cls)
    W = ("call", ("attr", ("attr", ("sub", NUP, ("const", "baseline_weights")), "values"), "reshape"), (("const", -1), ("const", 1)), ())

    def bounds_call(kind):
        name = {"y": "results_normalized_margin", "z": "turnout_factor"}[kind]
        return ir.repo_call(("attr", SELF, "_generate_nonreporting_bounds"), [("nonreporting_units", NUP), ("bootstrap_estimand", ("const", name))])

    def bounded(t):
        t0 = t
        while t0[0] == "call" and t0[1][0] == "attr" and t0[1][2] == "reshape":
            t0 = t0[1][1]
        if t0[0] == "call" and t0[1][0] == "attr" and t0[1][2] == "mean" and dict(t0[3]).get("axis") == ("const", 1):
            return bounded(t0[1][1])
        if t0[0] == "call" and t0[1] == ("global", "numpy.clip") and len(t0[2]) == 3:
            for kind in ("y", "z"):
                bc = bounds_call(kind)
                if t0[2][1] == ("sub", bc, ("const", 0)) and t0[2][2] == ("sub", bc, ("const", 1)):
                    return kind
            return "clip-other"
        return None

    def factors(t):
        if t[0] == "bin" and t[1] == "*":
            return factors(t[2]) + factors(t[3])
        return [t]

    want = {"errors_B_1": ["W", "y", "z"], "errors_B_2": ["W", "y", "z"], "errors_B_3": ["W", "z"], "errors_B_4": ["W", "z"],
            "weighted_yz_test_pred": ["W", "y", "z"], "weighted_z_test_pred": ["W", "z"]}
    writes = {w[1]: w for w in cs.attr_writes if w[1] in STATE}
    ctx.sites("C06.R3", len(writes), 6, "bootstrap state written by compute_bootstrap_errors")
    for name, (pc, attr, t, n) in sorted(writes.items()):
        fs = []
        for x in factors(t):
            k = bounded(x)
            if k in ("y", "z"):
                fs.append(k)
            elif x == W:
                fs.append("W")
            else:
                fs.append("unbounded:" + ir.show(x, maxdepth=2)[:60])
        ok = sorted(fs) == want[name]
        what = {"y": "margin clipped to its feasible range", "z": "turnout factor clipped to its feasible range", "W": "baseline weights"}
        ctx.ob("C06.R3.clipped", f"{cf.qualname}|self.{name}", ok, cf.where(n),
               f"self.{name} = " + " x ".join(what[k] for k in sorted(fs)) if ok
               else f"self.{name} has factors {sorted(fs)}; every margin / turnout factor must be clipped with the bounds of the matching "
                    f"quantity after its last update (expected {want[name]})")
    for a, v in (("y_unobserved_lower_bound", -1.0), ("y_unobserved_upper_bound", 1.0)):
        d = _settings_default(cls, a)
        ctx.ob("C06.R3.defaults", f"BootstrapElectionModel|default {a}", d == v, cls.lookup("__init__").where(), f"default {a} = {d}")
    dz = _settings_default(cls, "z_unobserved_lower_bound")
    ctx.ob("C06.R3.defaults", "BootstrapElectionModel|default z_unobserved_lower_bound >= 0", isinstance(dz, (int, float)) and dz >= 0,
           cls.lookup("__init__").where(), f"default z_unobserved_lower_bound = {dz}")

    # ---- R4 run-once ------------------------------------------------------------------------------------
    G = Guards(ctx)
    for a in STATE:
        ws = [(wf, st) for wf, recv, val, st in util.attr_writes(repo, a) if wf.cls is not None and cls in wf.cls.mro() + [wf.cls] or wf.cls is cls]
        ws = [(wf, st) for wf, recv, val, st in util.attr_writes(repo, a)]
        outside = [(wf, st) for wf, st in ws if wf.name != "compute_bootstrap_errors"]
        ctx.ob("C06.R4.single-writer", f"BootstrapElectionModel|self.{a} written only by compute_bootstrap_errors", not outside and bool(ws),
               outside[0][0].where(outside[0][1]) if outside else cf.where(),
               f"self.{a} is written only by compute_bootstrap_errors" if not outside and ws
               else f"self.{a} is also written by {outside[0][0].qualname}: levels computed later see other draws" if outside else f"self.{a} is never written")
    callers = [(g, c) for g, c in ctx.cg.callers_of(cf) if isinstance(c, ast.Call)]
    ctx.sites("C06.R4.callers", len(callers), 1, "call site of compute_bootstrap_errors")
    for g, c in callers:
        guarded = any(isinstance(e, ast.Attribute) and e.attr == "ran_bootstrap" and not pol for e, pol in G.atoms(g, c))
        ctx.ob("C06.R4.run-once", f"{g.qualname}|compute_bootstrap_errors behind 'not self.ran_bootstrap'", guarded, g.where(c),
               "the bootstrap is run only if it has not run yet" if guarded else "the bootstrap is re-run: later levels / estimands see different draws")
    sets_flag = any(isinstance(n, ast.Assign) and isinstance(n.targets[0], ast.Attribute) and n.targets[0].attr == "ran_bootstrap"
                    and util.is_const(n.value, True) for n in util.own_nodes(cf))
    ctx.ob("C06.R4.flag", f"{cf.qualname}|sets ran_bootstrap", sets_flag, cf.where(), "compute_bootstrap_errors marks the bootstrap as done" if sets_flag else "ran_bootstrap is never set: the guard never closes")
    for m in (uf, af):
        draws = [c for c in util.own_nodes(m, ast.Call) if isinstance(c.func, ast.Attribute) and isinstance(c.func.value, ast.Attribute) and c.func.value.attr == "rng"]
        ctx.ob("C06.R4.no-draws", f"{m.qualname}|per-level function draws nothing", not draws, m.where(draws[0]) if draws else m.where(),
               "no random draw in the per-level function" if not draws else "the per-level function draws random numbers: levels are not quantiles of the same draws")


def _settings_default(cls, attr):
    ini = cls.lookup("__init__")
    for n in util.own_nodes(ini, ast.Assign):
        t = n.targets[0]
        if isinstance(t, ast.Attribute) and t.attr == attr and isinstance(n.value, ast.Call) and len(n.value.args) == 2:
            try:
                return ast.literal_eval(n.value.args[1])
            except Exception:
                return None
    return None


def _pairing(ctx, fn, level, lower_t, upper_t, want_pred, want_E):
    pl, pu = _bound_parts(lower_t), _bound_parts(upper_t)
    if pl is None or pu is None:
        ctx.ob("C06.R1.pairing", f"{fn.qualname}|{level} bounds = pred - quantile(draws)", False, fn.where(),
               f"{level} bounds are not of the form (prediction - quantile(E, q=[q0, q1], axis=-1).T).T[i]: "
               f"lower {ir.show(_strip(lower_t), maxdepth=3)}, upper {ir.show(_strip(upper_t), maxdepth=3)}")
        return
    same = pl[0] == pu[0] and pl[1] == pu[1] and pl[2] == pu[2]
    ctx.ob("C06.R1.same-draws", f"{fn.qualname}|{level} lower and upper from the same quantile call", same, fn.where(),
           "both bounds come from one quantile call on one draw matrix around one prediction" if same else "lower and upper are computed from different predictions / draw matrices / rank lists")
    axis_ok = pl[3] in (("const", -1), ("const", 1))
    ctx.ob("C06.R1.axis", f"{fn.qualname}|{level} quantiles along the draw axis", axis_ok, fn.where(),
           "quantiles are taken over the bootstrap draws (last axis)" if axis_ok else f"quantile axis is {ir.show(pl[3]) if pl[3] else None}")
    kl = _rank_kind(pl[2][pl[4]]) if pl[4] in (0, 1) else "?"
    ku = _rank_kind(pu[2][pu[4]]) if pu[4] in (0, 1) else "?"
    ok = kl == "high" and ku == "low"
    ctx.ob("C06.R1.pairing", f"{fn.qualname}|{level} lower = pred - Q(high rank), upper = pred - Q(low rank)", ok, fn.where(),
           "lower subtracts the high-rank quantile and upper the low-rank quantile, so lower <= upper" if ok
           else f"lower subtracts the {kl} rank and upper the {ku} rank: the bounds are swapped or use ranks other than the statement's formulas")
    if want_pred is not None:
        okp = pl[0] == want_pred and pl[1] == want_E
        ctx.ob("C06.R1.unit-terms", f"{fn.qualname}|unit prediction and draw matrix", okp, fn.where(),
               "unit bounds = weighted_yz_test_pred - quantile(errors_B_1 - errors_B_2)" if okp
               else f"unit bounds use prediction {ir.show(pl[0], maxdepth=2)} and draws {ir.show(pl[1], maxdepth=3)}")
