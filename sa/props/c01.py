"""C01 - counted votes are conserved and every unit is reported exactly once.

 R1 partition (complete truth table): every unit in the feed or the baseline join is a row of exactly one of
    reporting / nonreporting / unexpected / non-modelled; no other unit is; each frame carries its reporting flag (1 on the
   reporting frame, 0 on every row of the other two: R1.reporting-flag) and category; missing vote counts of the units taken from
   the feed count as 0 (R1.passed-through-nan-free); domain fact of the truth table: inData => inBaseline (left join, C09.R6); a
   compared column may be MISSING (atom na:<column>: every comparison but != is False), so `>= t` and `< t` do not cover a unit;
 R2 unit table = unfiltered concat of the three frames, bound to the frames get_units returned, merged across estimands on
    every shared column (incl. the unit id);
 R3 aggregate provenance (all estimators): results_e = S_R + S_U + S_N (results_e), reporting = S_R + S_U + S_N (reporting)
    per group of the aggregate key list; every operand that can be missing on one side of an outer join is filled with 0 before it
    is added; classification level: the third frame's rows WITH a known classification (non-modelled baseline units) belong to
    their group (R3.classified-passthrough - today the whole frame is left out: open known finding K1, three call sites);
 R4 bootstrap: results_margin = (S_R + S_U + S_N results_margin) / T with T = S_U(results_weights) + S_R(w z) + S_N(w z_hat),
    the same T that is reported as pred_turnout;
 R5 merge keys: for every office class and aggregate level, the `on=` list of the cross-estimand merge contains every column of
    the per-estimand tables that does not carry the estimand name;
 R6 key availability: whenever unexpected units are grouped by a key (county / district), that key is recovered for them; the key is
   re-derived from the unit id only on rows taken from the feed - never on a frame that also holds baseline units (the non-modelled ones
   share the third frame), whose baseline keys would be overwritten and whose votes would move to the group the id spells (R6.baseline-keys);
 R8 feed-complete: the frame handed to the data handler as the feed is the caller's feed, no row filtered away before;
 R7 feed-private: get_estimates never writes to the caller's feed frame (the estimandizer computes derived result columns only when
    absent, so a feed object refreshed in place and passed again would otherwise report the previous poll's derived columns).
"""
from __future__ import annotations

import ast

from .. import aggmodel as am, ir, rowsets as rs, util
from ..aggmodel import N_, R_, U_
from ..frames import Frames
from ..model import AnalysisError
from ..rowsets import And, Not, Or
from ..unitsplit import CUR, DATA, UnitSplit, category_of

BASE = "elexmodel.models.BaseElectionModel"
BM = "elexmodel.models.BootstrapElectionModel"
MR = "elexmodel.handlers.data.ModelResults"
E = ("param", "estimand")
CLS_FLAG = ("cmp", "in", ("const", "county_classification"), ("param", "aggregate"))


def fname(prefix):
    return ir.I(("fstr", (("const", prefix), E)))


def check(ctx):
    repo = ctx.repo
    ctx.explanation = (
        "Row-set truth table for the unit split; frame algebra (lazy provenance over the def-use terms of the pandas pipelines, "
        "helpers inlined) for the aggregate tables of all three estimators: each result column is normalised to a signed sum of "
        "per-group sums over the three unit frames and compared with the specification, including the NaN discipline of outer "
        "joins; constant folding of get_aggregate_list over the office / aggregate tables for merge keys and key recovery."
    )
    ctx.assumptions += ["unit ids unique; group keys not NaN on rows that are grouped (pandas drops NaN keys)",
                        "pandas semantics as summarised in DESIGN.md section 7 (groupby().sum(), outer merge, fillna, assign)",
                        "column-name patterns with different constant prefixes denote different columns"]
    _partition(ctx)
    _unit_table(ctx)
    _aggregates(ctx)
    _bootstrap_margin(ctx)
    merge_keys(ctx, "C01.R5")
    key_availability(ctx, "C01.R6")
    _feed_private(ctx)
    _feed_complete(ctx)


# ---------------------------------------------------------------------------------------------
def _partition(ctx):
    us = UnitSplit(ctx)
    f = us.f
    inAny = Or(("var", "inFeed"), ("var", "inData"))
    try:
        unexpected, nonmod, wrappers, items = us.nonmodelled()
        fUx = us.rs.member(unexpected)
        fNm = us.rs.member(nonmod)
        parts = [("reporting", us.fR), ("nonreporting", us.fN), ("unexpected", fUx), ("non-modelled", fNm)]
        structured = True
    except AnalysisError as e:
        ctx.note(f"third frame not decomposed into unexpected + non-modelled: {e}")
        parts = [("reporting", us.fR), ("nonreporting", us.fN), ("unexpected+non-modelled", us.fU)]
        structured = False
    bools, rels = rs.variables(*[p[1] for p in parts], inAny)
    comp = [(n, rs.compile_formula(x)) for n, x in parts]
    cin = rs.compile_formula(inAny)
    rows = 0
    lost = dup = ghost = None
    for a in rs.assignments(bools, rels):
        rows += 1
        hits = [n for n, c in comp if c(a)]
        if cin(a):
            if not hits and lost is None:
                lost = a
            if len(hits) > 1 and dup is None:
                dup = (a, hits)
        elif hits and ghost is None:
            ghost = (a, hits)
    ctx.extra["truth_table_rows"] = rows
    ctx.extra["exhaustive"] = True

    def sh(a):
        return rs.show_asg({(k[1] + " vs " + k[2]) if isinstance(k, tuple) else k: v for k, v in a.items()})

    ctx.ob("C01.R1.no-loss", f"{f.qualname}|every unit is in some frame", lost is None, f.where(),
           f"on all {rows} rows a unit of the feed / baseline join is in at least one frame" if lost is None
           else f"a unit with [{sh(lost)}] is in none of the three frames: its votes disappear")
    ctx.ob("C01.R1.no-dup", f"{f.qualname}|no unit in two frames", dup is None, f.where(),
           "no unit is a row of two frames" if dup is None else f"a unit with [{sh(dup[0])}] is in {dup[1]}: counted twice")
    ctx.ob("C01.R1.no-ghost", f"{f.qualname}|only units of feed/baseline", ghost is None, f.where(),
           "no unit outside feed and baseline join appears" if ghost is None else f"phantom unit in {ghost[1]}")
    # the 'reporting' column of every group is the SUM of this flag over the three frames (R3), so "reporting = number of modelled
    # units at or above the threshold" needs the flag to be 1 on the reporting frame and 0 on every row of the other two
    from ..frames import Frames
    from ..unitsplit import CUR, DATA
    from .c09 import _const_col
    Fm = Frames(us.b, {DATA: "data", CUR: "current"})
    for name, fr, want in (("reporting", us.R, 1), ("nonreporting", us.N, 0), ("unexpected + non-modelled", us.U, 0)):
        rv = _const_col(Fm, fr, "reporting")
        ctx.ob("C01.R1.reporting-flag", f"{f.qualname}|{name}: reporting flag", rv == want, f.where(),
               f"every row of the {name} frame carries reporting = {want}" if rv == want
               else f"the {name} frame does not carry reporting = {want} on every row (found {rv}): group 'reporting' counts then include / miss "
                    f"units that are not modelled reporting units")
    # units that are only passed through are only ever summed (group sums, indicator products): a missing vote count among them
    # must have been replaced by 0, or one NaN wipes out the totals of its groups (bootstrap: pred_turnout NaN, margin 0)
    uf = ctx.fn("elexmodel.handlers.data.CombinedData", "CombinedDataHandler._get_unexpected_units")
    ut = ctx.builder(inline=lambda *a: False).summarize(uf).ret()
    okfill = False
    for x in ir.walk(ut):
        if x[0] == "setitem" and x[2][0] == "comp" and x[3][0] == "call" and x[3][1][0] == "attr" and x[3][1][2] == "fillna":
            conds = " ".join(ir.show(cnd, maxdepth=6) for g_ in x[2][3] for cnd in g_[2])
            zero = dict(x[3][3]).get("value") == ("const", 0) or (x[3][2] and x[3][2][0] == ("const", 0))
            same = x[3][1][1][0] == "sub" and x[3][1][1][2] == x[2]
            if "startswith('results_')" in conds and zero and same:
                okfill = True
    ctx.ob("C01.R1.passed-through-nan-free", f"{uf.qualname}|missing vote counts of passed-through units count as 0", okfill, uf.where(),
           "every results_* column of the units taken from the feed is filled with 0 where it is missing" if okfill
           else "a unit taken from the feed with a missing (NaN) vote count keeps the NaN: it enters the group sums / indicator products "
                "of every estimator and turns the totals of its groups into NaN")
    if not structured:
        return
    # de-duplication inside the third frame
    for name, t in (("unexpected", unexpected), ("non-modelled", nonmod)):
        dd = [x for x in ir.walk(t) if x[0] == "call" and x[1][0] == "attr" and x[1][2] == "drop_duplicates"
              and dict(x[3]).get("subset") == ("const", "geographic_unit_fips")]
        ctx.ob("C01.R1.dedupe", f"{f.qualname}|{name} de-duplicated by unit id", bool(dd), f.where(),
               f"{name} units are de-duplicated by unit id" if dd else f"{name} units are not de-duplicated: a unit can appear twice in the unit table")
    cats = [c for _, _, c in items]
    ctx.ob("C01.R1.categories", f"{f.qualname}|every non-modelled member has a literal category", all(c for c in cats) and len(cats) >= 3,
           f.where(), f"categories: {cats}")


# ---------------------------------------------------------------------------------------------
def _unit_table(ctx):
    b = ctx.builder()
    f = ctx.fn(MR, "ModelResultsHandler.add_unit_intervals")
    s = b.summarize(f)
    ud = [t for pc, name, t, n in s.assigns if name == "self.unit_data"]
    ctx.sites("C01.R2", len(ud), 1, "unit_data[estimand] assignment")
    t = ud[-1]
    ctx.require(t[0] == "setitem" and t[2] == E, f"{f.where()}: unit_data is not keyed by the estimand")
    val = t[3]
    concats = [x for x in ir.walk(val) if am.concat_order(x) is not None]
    ok = False
    detail = "unit table is not a concat of the handler's three frames"
    if concats:
        parts = am.concat_order(concats[0])
        roots = []
        for p in parts:
            q = p
            while q[0] in ("loopout", "setitem", "loopin"):
                q = q[3] if q[0] in ("loopout", "loopin") else q[1]
            roots.append(q)
        want = [("attr", ("param", "self"), n) for n in ("reporting_units", "nonreporting_units", "unexpected_units")]
        filt = [x for x in ir.walk(val) if x[0] == "sub" and x[2][0] in ("cmp", "un", "call") and x is not val]
        rowfilter = any(x[0] == "sub" and (x[2][0] in ("cmp", "un") or (x[2][0] == "call" and x[2][1][0] == "attr" and x[2][1][2] in ("isin", "notnull")))
                        for x in ir.walk(val))
        ok = sorted(map(str, roots)) == sorted(map(str, want)) and not rowfilter
        detail = ("unit table = concat(reporting, nonreporting, unexpected) without row filter" if ok else
                  f"unit table is built from {[ir.show(r, maxdepth=2) for r in roots]}" + (" with a row filter" if rowfilter else ""))
    ctx.ob("C01.R2.concat", f"{f.qualname}|all three frames, unfiltered", ok, f.where(), detail)
    # handler frames are the frames get_units returned, in order
    ge = ctx.fn("elexmodel.client", "ModelClient.get_estimates")
    gs = ctx.builder().summarize(ge)
    ctor = None
    for _, name, tt, n in gs.assigns:
        if name == "self.results_handler" and tt[0] == "call":
            ctor = tt
    ctx.require(ctor is not None, f"{ge.where()}: ModelResultsHandler construction not found")
    a = ctor[2]
    okb = len(a) == 5 and all(a[2 + i][0] == "sub" and a[2 + i][2] == ("const", i) and a[2 + i][1][0] == "call"
                              and a[2 + i][1][1][0] == "attr" and a[2 + i][1][1][2] == "get_units" for i in range(3))
    ctx.ob("C01.R2.binding", f"{ge.qualname}|handler gets the three frames in order", okb, ge.where(),
           "ModelResultsHandler(.., reporting, nonreporting, unexpected) = the tuple returned by get_units" if okb
           else f"handler constructed with {ir.show(ctor, maxdepth=3)}")
    ini = ctx.fn(MR, "ModelResultsHandler.__init__")
    isum = ctx.builder().summarize(ini)
    w = {x[1]: x[2] for x in isum.attr_writes}
    def _same(t_, n_):
        # the frame itself or a copy of it: same rows, same row labels (vectors computed from the caller's frame are assigned by label)
        while t_ is not None and t_[0] == "call" and t_[1][0] == "attr" and t_[1][2] == "copy":
            t_ = t_[1][1]
        return t_ == ("param", n_)
    oki = all(_same(w.get(n), n) for n in ("reporting_units", "nonreporting_units", "unexpected_units"))
    ctx.ob("C01.R2.binding", f"{ini.qualname}|frames stored unchanged", oki, ini.where(),
           "the handler keeps the frames it is given" if oki else "the handler stores something else than the frames it is given")


# ---------------------------------------------------------------------------------------------
def model_builder(ctx):
    names = {"_get_reporting_aggregate_votes", "_get_nonreporting_aggregate_votes", "get_aggregate_predictions"}

    def inline(caller, call, callee):
        if callee.name in ("_get_reporting_aggregate_votes", "_get_nonreporting_aggregate_votes"):
            return True
        if callee.name == "get_aggregate_predictions" and isinstance(call.func, ast.Attribute) and isinstance(call.func.value, ast.Call):
            return True  # super().get_aggregate_predictions(..)
        return False

    return ctx.builder(inline=inline)


def expected_sum(col, cls):
    frames = ["R", "N"] if cls else ["R", "U", "N"]
    return sorted((fr, col, 1) for fr in frames)


def check_sum(ctx, rule, fn, what, value, spec_cols, where):
    """value's linear form must be sum over frames of spec_cols[frame] in both classification modes."""
    for cls in (False, True):
        def one(fl):
            problems = []
            return am.linear(value, fl, problems), problems
        # a condition the configuration does not decide (a defensive `if column in frame.columns`): the table has to be the documented
        # sum on either path, each judged on its own
        for extra, (lin, problems) in am.each_valuation(one, {CLS_FLAG: cls}):
            wh = am.when(extra)
            atoms = am.gsum_atoms(lin)
            got = sorted((fr, col, s) for fr, col, s, keys in atoms)
            frames = ["R", "N"] if cls else ["R", "U", "N"]
            want = sorted((fr, spec_cols[fr], 1) for fr in frames)
            keys_ok = all(keys == ("param", "aggregate") for _, _, _, keys in atoms)
            mode = "classification level" if cls else "state/county/district level"
            ok = got == want and keys_ok
            ctx.ob(rule, f"{fn.qualname}|{what} ({mode}){wh}", ok, where,
                   f"{what} = " + " + ".join(f"S_{fr}({c})" for fr, c, _ in want) + f" per group ({mode})" if ok
                   else f"{what} is " + " ".join(("+" if s > 0 else "-") + f" S_{fr}({c})" for fr, c, s in got) +
                        f" but must be " + " + ".join(f"S_{fr}({c})" for fr, c, _ in want) + f" ({mode}){wh}"
                        + ("" if keys_ok else "; grouped by other keys than the aggregate list"))
            nan = [p for p in problems]
            ctx.ob(rule + ".nan", f"{fn.qualname}|{what} fill-before-add ({mode}){wh}", not nan, where,
                   "every operand that can be missing after an outer join is filled with 0 before the addition" if not nan
                   else f"{len(nan)} operand(s) can be NaN when a group exists on one side only ({nan[0][0]}): the group's votes are lost")


def _aggregates(ctx):
    repo = ctx.repo
    b = model_builder(ctx)
    base = repo.cls(BASE, "BaseElectionModel")
    f = ctx.fn(BASE, "BaseElectionModel.get_aggregate_predictions")
    s = b.summarize(f)
    F = Frames(b)
    ret = s.ret()
    res = fname("results_")
    check_sum(ctx, "C01.R3.results", f, "results_e", F.col(ret, res), {"R": ir.show(res), "U": ir.show(res), "N": ir.show(res)}, f.where())
    check_sum(ctx, "C01.R3.reporting", f, "reporting", F.col(ret, ("const", "reporting")),
              {"R": "'reporting'", "U": "'reporting'", "N": "'reporting'"}, f.where())
    # classification level: the third frame holds two kinds of units - genuinely unexpected ones (no classification: cannot be
    # attributed) and non-modelled BASELINE units (blocklisted, zero baseline, outliers), whose classification is known and whose
    # counted votes therefore belong to their classification group.  Leaving the whole frame out loses the latter.
    lin_c = am.linear(F.col(ret, res), {CLS_FLAG: True}, [])
    keeps = any(any(x == U_ for x in ir.walk(a)) for _, a in lin_c)
    ctx.ob("C01.R3.classified-passthrough", f"{f.qualname}|classification level keeps the classified pass-through units", keeps, f.where(),
           "at classification level the counted votes include the third frame's rows with a known classification" if keeps
           else "at classification level the whole third frame is left out of the counted votes, including the non-modelled baseline units "
                "(blocklisted / zero baseline / outliers) whose classification is known: their votes are missing from the classification table")
    # which estimator uses which aggregate function
    for modn, cn in (("elexmodel.models.NonparametricElectionModel", "NonparametricElectionModel"),
                     ("elexmodel.models.GaussianElectionModel", "GaussianElectionModel")):
        m = repo.cls(modn, cn).lookup("get_aggregate_predictions")
        ctx.ob("C01.R3.inherit", f"{cn}|uses the base aggregate function", m is f, m.where() if m else cn,
               f"{cn} aggregates with BaseElectionModel.get_aggregate_predictions" if m is f else f"{cn} overrides get_aggregate_predictions")
    # merges are outer
    hows = [dict(x[3]).get("how") for x in ir.walk(ret) if x[0] == "call" and x[1][0] == "attr" and x[1][2] == "merge"]
    ctx.sites("C01.R3.merge", len(hows), 2, "merges in the aggregate pipeline")
    ctx.ob("C01.R3.outer", f"{f.qualname}|all joins outer", all(h == ("const", "outer") for h in hows), f.where(),
           "expected/unexpected and counted/predicted group tables are outer-joined" if all(h == ("const", "outer") for h in hows)
           else f"join types {[ir.show(h) if h else 'inner' for h in hows]}: groups present on one side only are dropped")


def _bootstrap_margin(ctx):
    repo = ctx.repo
    b = model_builder(ctx)
    cls = repo.cls(BM, "BootstrapElectionModel")
    f = ctx.fn(BM, "BootstrapElectionModel.get_aggregate_predictions")
    s = b.summarize(f, {"estimand": ("const", "margin")}, self_cls=cls)
    ret = s.ret()
    F = Frames(b)
    # classification level (see R3.classified-passthrough): the bootstrap functions replace the whole third frame by an empty
    # slice, which also drops the non-modelled baseline units whose classification is known
    for qn in ("get_aggregate_predictions", "get_aggregate_prediction_intervals"):
        bf = ctx.fn(BM, f"BootstrapElectionModel.{qn}")
        bs = s if qn == "get_aggregate_predictions" else b.summarize(bf, {"estimand": ("const", "margin")}, self_cls=cls)
        pool = [t_ for _, _, t_, _ in bs.assigns] + [bs.ret()]
        drops_all = any(x[0] == "phi" and x[1] == CLS_FLAG and am.empty_slice_of(x[2], U_) for t_ in pool for x in ir.walk(t_))
        ctx.ob("C01.R3.classified-passthrough", f"{bf.qualname}|classification level keeps the classified pass-through units", not drops_all, bf.where(),
               "at classification level the rows of the third frame with a known classification still take part" if not drops_all
               else "at classification level the third frame is replaced by an empty slice: the non-modelled baseline units (blocklisted / zero "
                    "baseline / outliers), whose classification is known, lose their two-party votes and margins in the classification table")
    # take the non-top-level branch (no call adjustment) for results_margin / pred_turnout; they are set before the branch
    fr = ret[3] if ret[0] == "phi" else ret
    fr = am.non_classification_view(fr)
    rm = F.col(fr, ("const", "results_margin"))
    pt = F.col(fr, ("const", "pred_turnout"))
    ok_shape = rm[0] == "call" and ir.show(rm[1]).endswith("nan_to_num") and rm[2] and rm[2][0][0] == "bin" and rm[2][0][1] == "/"
    ctx.ob("C01.R4.shape", f"{f.qualname}|results_margin = nan_to_num(sum / turnout)", ok_shape, f.where(),
           "results_margin is the group sum divided by the group's predicted two-party turnout (0 if that is 0)" if ok_shape
           else f"results_margin is {ir.show(rm, maxdepth=4)}")
    if not ok_shape:
        return
    num, den = rm[2][0][2], rm[2][0][3]
    check_sum(ctx, "C01.R4.numerator", f, "results_margin numerator", num,
              {"R": "'results_margin'", "U": "'results_margin'", "N": "'results_margin'"}, f.where())
    same = _strip(den) == _strip(pt)
    ctx.ob("C01.R4.same-turnout", f"{f.qualname}|divisor is the reported pred_turnout", same, f.where(),
           "the divisor of results_margin (and pred_margin) is the vector reported as pred_turnout" if same
           else "results_margin is divided by something else than the reported pred_turnout")
    raw = am.matsum_components(den)
    order_ok = all(c[2] for c in raw)
    if not order_ok:
        ctx.ob("C01.R4.order", f"{f.qualname}|indicator rows = concat(R, N, U)", False, f.where(),
               "the indicator matrix is not built from concat([reporting, nonreporting, unexpected]) although it is sliced as R | N | U")
    comps = [(c[0], c[1]) for c in raw]
    want = {("U", "results_weights"), ("R", "baseline_weights*turnout_factor"), ("N", "self.weighted_z_test_pred")}
    ok = order_ok and set(comps) == want and len(comps) == 3
    ctx.ob("C01.R4.turnout", f"{f.qualname}|turnout = S_U(results_weights) + S_R(w z) + S_N(w z_hat)", ok, f.where(),
           "predicted turnout sums counted two-party votes of unexpected units, w*z of reporting units and predicted w*z of nonreporting units"
           if ok else f"turnout components are {sorted(comps) if comps else comps}")


def _fmt(d):
    return "+".join(f"{v if v != 1 else ''}n{k}" for k, v in sorted(d.items()) if v) or "0"


def _strip(t):
    while t[0] == "call" and t[1][0] == "attr" and t[1][2] in ("flatten", "reshape", "copy"):
        t = t[1][1]
    return t


def turnout_components(ctx, s, den, f):
    """terms of  a + b + c  where each is  ind[rows].T @ v  ->  {(frame letter, value description)}"""
    den = _strip(den)
    terms = []

    def flat(t):
        if t[0] == "bin" and t[1] == "+":
            flat(t[2]); flat(t[3])  # noqa: E702
        else:
            terms.append(t)

    flat(den)
    ind = am.Indicator({})
    out = []
    for t in terms:
        if not (t[0] == "bin" and t[1] == "@" and t[2][0] == "attr" and t[2][2] == "T"):
            return None
        root, (lo, hi) = ind.rows(t[2][1])
        seg = am.Indicator.segment(lo, hi) or f"rows[{_fmt(lo)}:{_fmt(hi)}]"
        # the dummies must be built from concat([R, N, U]) in this order
        order = None
        for x in ir.walk(root):
            o = am.concat_order(x)
            if o is not None:
                order = o
                break
        if order != [R_, N_, U_]:
            ctx.ob("C01.R4.order", f"{f.qualname}|indicator rows = concat(R, N, U)", False, f.where(),
                   f"the indicator matrix is built from {[ir.show(o, maxdepth=2) for o in (order or [])]}, but it is sliced as R | N | U")
            return None
        v = _strip(t[3])
        desc = None
        cols = [x for x in ir.walk(v) if x[0] == "col" and x[2][0] == "const"]
        frames = {x[1] for x in cols}
        if frames == {("param", "self")} and len(cols) == 1 and v == cols[0]:
            desc = f"self.{cols[0][2][1]}" if seg == "N" else f"model state self.{cols[0][2][1]} on rows {seg}"
        elif len(frames) == 1 and am.FRAME_NAMES.get(next(iter(frames))) == seg:
            names = sorted(x[2][1] for x in cols)
            if len(names) == 1 and v == cols[0]:
                desc = "col:" + names[0]
            elif len(names) == 2 and v[0] == "bin" and v[1] == "*" and {v[2], v[3]} == set(cols):
                desc = "*".join(names)
            else:
                desc = f"other expression {ir.show(v, maxdepth=3)}"
        else:
            desc = f"value of other rows: {ir.show(v, maxdepth=3)}"
        out.append((seg, desc))
    return out


# ---------------------------------------------------------------------------------------------
def merge_keys(ctx, rule):
    """R5: `on=` of the cross-estimand merges vs the columns that do not carry the estimand name."""
    repo = ctx.repo
    b = ctx.builder()
    pf = ctx.fn(MR, "ModelResultsHandler.process_final_results")
    merges = [c for c in util.calls_in(pf.node) if (util.dotted(c.func) or "").endswith("merge")]
    ctx.sites(rule, len(merges), 2, "cross-estimand merges in process_final_results")
    agg_list = am.client_folder(ctx)
    order = repo.const_value("elexmodel.utils.constants", "AGGREGATE_ORDER")
    # aggregate level: on = merge_on evaluated with the loop variable
    s = b.summarize(pf)
    # find merge_on definitions by AST (two assignments, one per branch)
    # the `on=` argument of each merge: a local name defined just before
    on_names = {ast.unparse(util.kwarg(c, "on")) for c in merges if util.kwarg(c, "on") is not None}
    ctx.require(len(on_names) == 1 and next(iter(on_names)).isidentifier(), f"{pf.where()}: merges do not use a named key list")
    on_name = next(iter(on_names))
    mo = [n for n in util.own_nodes(pf, ast.Assign) if isinstance(n.targets[0], ast.Name) and n.targets[0].id == on_name]
    ctx.require(len(mo) == 2, f"{pf.where()}: expected two definitions of the merge key list")
    loops = [n for n in util.own_nodes(pf, ast.For)]
    ctx.require(loops and isinstance(loops[0].target, ast.Name), f"{pf.where()}: aggregate loop not found")
    loopvar = loops[0].target.id

    def local_def(name, before):
        cands = [n for n in util.own_nodes(pf, ast.Assign) if isinstance(n.targets[0], ast.Name) and n.targets[0].id == name
                 and n.lineno <= before.lineno]
        return cands[-1] if cands else None

    def eval_on(expr, aggval, table_cols, at):
        """abstract value (list of column names) of a merge-key expression for one configuration"""
        if isinstance(expr, ast.List):
            out = []
            for e in expr.elts:
                out += eval_on(e, aggval, table_cols, at) if not isinstance(e, (ast.Constant, ast.Name)) else (
                    [e.value] if isinstance(e, ast.Constant) else ([aggval] if e.id == loopvar else eval_on(e, aggval, table_cols, at)))
            return out
        if isinstance(expr, ast.BinOp) and isinstance(expr.op, ast.Add):
            return eval_on(expr.left, aggval, table_cols, at) + eval_on(expr.right, aggval, table_cols, at)
        if isinstance(expr, ast.Name):
            if expr.id == loopvar:
                return [aggval]
            d = local_def(expr.id, at)
            if d is None:
                raise AnalysisError(f"{pf.where(at)}: merge key name {expr.id} has no local definition")
            return eval_on(d.value, aggval, table_cols, d)
        if isinstance(expr, ast.ListComp) and len(expr.generators) == 1 and isinstance(expr.elt, ast.Name):
            g = expr.generators[0]
            if isinstance(g.iter, ast.Attribute) and g.iter.attr == "columns" and isinstance(g.target, ast.Name) and g.target.id == expr.elt.id:
                cols = list(table_cols)
                for cond in g.ifs:
                    if isinstance(cond, ast.Compare) and isinstance(cond.ops[0], (ast.In, ast.NotIn)) and isinstance(cond.left, ast.Name) \
                            and cond.left.id == g.target.id:
                        r = repo.resolve_expr(pf.module, cond.comparators[0]) if isinstance(cond.comparators[0], (ast.Name, ast.Attribute)) else None
                        if r and r[0] == "const":
                            const = repo.const_value(r[1].name, r[2])
                        elif isinstance(cond.comparators[0], (ast.List, ast.Tuple, ast.Set)):
                            const = [util.const(e) for e in cond.comparators[0].elts]
                        else:
                            raise AnalysisError(f"{pf.where(at)}: merge key filter {ast.unparse(cond)} not a constant list")
                        keep = isinstance(cond.ops[0], ast.In)
                        cols = [c for c in cols if (c in const) == keep]
                    elif isinstance(cond, ast.Compare) and isinstance(cond.ops[0], (ast.In, ast.NotIn)) and isinstance(cond.comparators[0], ast.Attribute) \
                            and cond.comparators[0].attr == "columns":
                        pass  # intersection with another estimand's table of the same level: same shared columns
                    else:
                        raise AnalysisError(f"{pf.where(at)}: merge key filter {ast.unparse(cond)} not understood")
                return cols
        raise AnalysisError(f"{pf.where(at)}: merge key expression {ast.unparse(expr)} not understood")

    def on_list(assign, aggval, table_cols=()):
        return eval_on(assign.value, aggval, table_cols, assign)

    # columns of an aggregate table: aggregate_list + [pred_e, results_e, reporting] (+ intervals); from the final selection
    bf = ctx.fn(BASE, "BaseElectionModel.get_aggregate_predictions")
    bs = model_builder(ctx).summarize(bf)
    sel = bs.ret()
    while sel[0] == "call" and sel[1][0] == "attr" and sel[1][2] in ("reset_index", "copy"):
        sel = sel[1][1]
    ctx.require(sel[0] == "sub" and sel[2][0] == "bin", f"{bf.where()}: final column selection not found")
    shared_const = [x[1] for x in ir.walk(sel[2]) if x[0] == "const" and isinstance(x[1], str) and x[1] != ""
                    and not any(x in p[1] for p in ir.walk(sel[2]) if p[0] == "fstr")]
    ctx.require(sel[2][2] == ("param", "aggregate"), f"{bf.where()}: selection does not start with the aggregate keys")
    agg_assign = next(a for a in mo if any(a in ast.walk(st) for st in loops[0].body))
    unit_assign = next(a for a in mo if a is not agg_assign)
    nconf = 0
    bad = {}
    for rep, default in am.office_classes(ctx):
        for agg in order:
            keys = agg_list(rep, agg)
            shared = set(keys) | set(shared_const)
            # one estimand's table: keys + pred_e / results_e / reporting + interval columns (estimand-specific names)
            table_cols = list(keys) + ["pred_<e>", "results_<e>"] + list(shared_const) + ["lower_<a>_<e>", "upper_<a>_<e>"]
            on = on_list(agg_assign, agg, table_cols)
            nconf += 1
            missing = sorted(shared - set(on))
            if missing:
                bad.setdefault(tuple(missing), []).append(f"office class {rep} (default {default}), aggregate {agg}: tables share {sorted(shared)}, merged on {on}")
    ctx.count(f"{rule}.configurations", nconf)
    if True:
        ctx.ob(rule + ".aggregate", f"{pf.qualname}|aggregate tables merged on all shared columns", not bad, pf.where(agg_assign),
               f"in all {nconf} (office class x aggregate) configurations the merge keys cover every shared column" if not bad
               else f"column(s) {list(bad)[0]} exist in every estimand's table but are not merge keys -> _x/_y copies and a "
                    f"many-to-many join that multiplies rows: {list(bad.values())[0][0]}")
    # unit level
    af = ctx.fn(MR, "ModelResultsHandler.add_unit_intervals")
    asum = b.summarize(af)
    ud = [t for pc, name, t, n in asum.assigns if name == "self.unit_data"][-1][3]
    ctx.require(ud[0] == "sub", f"{af.where()}: unit_data column selection not found")
    shared_u = []
    for x in ir.walk(ud[2]):
        if x[0] == "list":
            for e in x[1]:
                if e[0] == "const" and isinstance(e[1], str):
                    shared_u.append(e[1])
    on_u = on_list(unit_assign, None, list(shared_u) + ["pred_<e>", "results_<e>", "lower_<a>_<e>", "upper_<a>_<e>"])
    if True:
        missing = sorted(set(shared_u) - set(on_u) - {"pred_turnout"})
        ctx.ob(rule + ".unit", f"{pf.qualname}|unit tables merged on all shared columns", not missing, pf.where(unit_assign),
               f"unit tables share {sorted(set(shared_u))} and are merged on all of them" if not missing
               else f"column(s) {missing} are in every estimand's unit table but not in the merge keys {on_u}: they come back as "
                    f"{missing[0]}_x / {missing[0]}_y when two estimands are requested")
    # joins are inner and keyed
    for c in merges:
        how = util.kwarg(c, "how")
        ctx.ob(rule + ".how", util.key(pf, c), util.const(how, "inner") == "inner", pf.where(c), "per-estimand tables are inner-joined on the keys")


def _dynamic_on_ok(assign):
    """merge_on computed from the frame's own columns, e.g. [c for c in frame.columns if c in KEYS] + [...]"""
    src = ast.unparse(assign.value)
    return ".columns" in src


_ROW_KEEPING = {"reset_index", "copy", "drop_duplicates", "fillna", "assign", "drop", "rename", "sort_values", "query", "astype", "dropna", "head",
                "tail", "sample", "reindex", "set_index", "replace", "where", "mask", "convert_dtypes", "infer_objects"}


def _row_sources(t, _seen=None):
    """which kinds of rows a frame term holds: 'feed' (self.current_data / _get_unexpected_units), 'baseline' (self.data, the preprocessed
    data, the non-modelled units). Follows the row spine: updates, selections and row-keeping methods keep the rows of their receiver, a
    concat has the rows of all its members, a branch those of either side."""
    _seen = _seen if _seen is not None else set()
    if id(t) in _seen:
        return set()
    _seen.add(id(t))
    k = t[0]
    if k in ("setitem", "mut"):
        return _row_sources(t[1], _seen)
    if k == "sub":
        return _row_sources(t[1], _seen)
    if k == "phi":
        return _row_sources(t[2], _seen) | _row_sources(t[3], _seen)
    if k == "attr":
        if t[2] == "current_data":
            return {"feed"}
        if t[2] in ("data", "preprocessed_data"):
            return {"baseline"}
        if t[2] in ("loc", "iloc"):
            return _row_sources(t[1], _seen)
        return set()
    if k == "call":
        f = t[1]
        if f[0] == "global" and f[1] == "pandas.concat" and t[2]:
            out = set()
            for m in (t[2][0][1] if t[2][0][0] in ("list", "tuple") else t[2]):
                out |= _row_sources(m, _seen)
            return out
        if f[0] == "attr":
            if f[2] == "_get_non_modeled_units" or f[2].startswith("_get_units_with") or f[2] == "_fit_outlier_detection_model":
                return {"baseline"}
            if f[2] == "_get_unexpected_units":
                return {"feed"}
            if f[2] in _ROW_KEEPING:
                return _row_sources(f[1], _seen)
            if f[2] == "merge":
                return _row_sources(f[1], _seen) | (_row_sources(t[2][0], _seen) if t[2] else set())
    return set()


def key_availability(ctx, rule):
    """R6 / C11.R2: keys used to group unexpected units must have been recovered for them."""
    repo = ctx.repo
    agg_list = am.client_folder(ctx)
    order = repo.const_value("elexmodel.utils.constants", "AGGREGATE_ORDER")
    uf = ctx.fn("elexmodel.handlers.data.CombinedData", "CombinedDataHandler._get_unexpected_units")
    # recovery guards:  if "<key>" in aggregates: unexpected_units["<key>"] = ...
    from ..effects import Guards
    G = Guards(ctx)
    recover = {}  # key -> list of (flag, must_be_in) atoms that all have to hold
    for st in util.own_nodes(uf, ast.Assign):
        tg = st.targets[0]
        if isinstance(tg, ast.Subscript) and util.const(tg.slice) in ("county_fips", "district"):
            conds = []
            for e, pol in G.atoms(uf, st):
                if isinstance(e, ast.Compare) and isinstance(e.ops[0], (ast.In, ast.NotIn)) and isinstance(e.left, ast.Constant) \
                        and isinstance(e.comparators[0], ast.Name) and e.comparators[0].id in uf.params:
                    conds.append((e.left.value, pol == isinstance(e.ops[0], ast.In)))
                else:
                    raise AnalysisError(f"{uf.where(st)}: recovery of {util.const(tg.slice)} is guarded by {ast.unparse(e)} (not understood)")
            recover[util.const(tg.slice)] = conds
    # the recovery may also sit in get_units itself (moved there, or a helper that was inlined back): read it from the def-use terms, and
    # ask on the way WHICH ROWS the key is written on. Rows of baseline units (the non-modelled ones share the third frame) have their
    # keys from the baseline; a key re-derived from the id moves such a unit's votes to the group its id spells - another group, or one no
    # unit belongs to - whenever the baseline assigns it elsewhere (independent cities reported with a county, redistricted units).
    gu_f = ctx.fn("elexmodel.handlers.data.CombinedData", "CombinedDataHandler.get_units")
    b_ = ctx.builder()
    for fn_ in (uf, gu_f):
        try:
            sm_ = b_.summarize(fn_)
        except AnalysisError:
            continue
        for pc_, _nm, t_, n_ in sm_.assigns:
            if not (t_[0] == "setitem" and t_[2][0] == "const" and t_[2][1] in ("county_fips", "district")):
                continue
            k_ = t_[2][1]
            if fn_ is gu_f and k_ not in recover:
                conds = []
                for c_, pol_ in pc_:
                    if c_[0] == "cmp" and c_[1] in ("in", "not in") and c_[2][0] == "const" and c_[3][0] == "param":
                        conds.append((c_[2][1], pol_ == (c_[1] == "in")))
                    elif ir.show(c_).startswith("<loop"):
                        continue
                    else:
                        raise AnalysisError(f"{fn_.where(n_)}: recovery of {k_} is guarded by {ir.show(c_, maxdepth=4)} (not understood)")
                recover[k_] = conds
            base_rows = _row_sources(t_[1])
            okb = "baseline" not in base_rows
            ctx.ob(rule + ".baseline-keys", f"{fn_.qualname}|{k_} is derived from the id only for units taken from the feed", okb, fn_.where(n_),
                   f"{k_} is written on rows from {sorted(base_rows) or ['the feed']}" if okb else
                   f"{k_} is re-derived from the unit id on a frame that also holds baseline units (non-modelled units: blocklisted, zero baseline, "
                   f"outliers): their baseline {k_} is overwritten and their votes move to the group the id spells")
    ctx.sites(rule, len(recover), 1, "key recovery for unexpected units (county_fips, district)")

    def recovered(passed_list):
        return {k for k, conds in recover.items() if all((flag in passed_list) == want for flag, want in conds)}
    # what the client passes as `aggregates`
    ge = ctx.fn("elexmodel.client", "ModelClient.get_estimates")
    gs = ctx.builder().summarize(ge)
    gu = None
    for _, _, t, _ in gs.assigns:
        for x in ir.walk(t):
            if x[0] == "call" and x[1][0] == "attr" and x[1][2] == "get_units":
                gu = x
    ctx.require(gu is not None, f"{ge.where()}: get_units call not found")
    passed = gu[2][-1] if gu[2] else None
    requested = passed[0] == "call" and passed[1][0] == "attr" and passed[1][2] == "get" and passed[2][0] == ("const", "aggregates")
    folded = None
    if not requested:
        # the client may pass a list derived from get_aggregate_list over the requested aggregates
        txt = ir.show(passed, maxdepth=8)
        folded = "get_aggregate_list" in txt
    nconf = 0
    bad = []
    for rep, default in am.office_classes(ctx):
        for req in am.request_lists(order, ctx.tier):
            for agg in req:
                if agg == "unit":
                    continue
                keys = agg_list(rep, agg)
                if "county_classification" in keys:
                    continue  # unexpected units are excluded from classification tables by design
                nconf += 1
                if requested:
                    avail = {"postal_code"} | recovered(req)
                elif folded:
                    needed_all = set()
                    for a2 in req:
                        if a2 != "unit":
                            needed_all |= set(agg_list(rep, a2))
                    avail = {"postal_code"} | recovered(needed_all)
                else:
                    raise AnalysisError(f"{ge.where()}: argument passed as `aggregates` to get_units not understood: {ir.show(passed, maxdepth=4)}")
                missing = [k for k in keys if k not in avail]
                if missing:
                    bad.append((rep, default, req, agg, keys, missing))
    ctx.count(f"{rule}.configurations", nconf)
    ctx.extra.setdefault("configurations", {})[rule] = nconf
    if bad:
        rep, default, req, agg, keys, missing = bad[0]
        kinds = sorted({(b[0], tuple(b[5])) for b in bad})
        ctx.ob(rule + ".recovered", "CombinedDataHandler._get_unexpected_units|keys recovered whenever used", False, uf.where(),
               f"{len(bad)} of {nconf} configurations group unexpected units by a key they do not have, e.g. office class {rep} "
               f"(default aggregates {default}), requested {req}: table '{agg}' groups by {keys} but {missing} is only recovered "
               f"when it is itself requested -> the unexpected units' votes are dropped from that table (NaN key)")
    else:
        ctx.ob(rule + ".recovered", "CombinedDataHandler._get_unexpected_units|keys recovered whenever used", True, uf.where(),
               f"in all {nconf} (office class x requested list x table) configurations every grouping key of unexpected units is recovered")


def _feed_private(ctx):
    """R7.feed-private: "the counted-votes column equals the sum of the LIVE counts" - of this call's feed. The estimandizer derives
    results_margin / results_weights only when the frame does not have them yet, which is sound only on a frame of this call's own:
    if the caller's feed object were written to, a feed that is refreshed in place and handed in again (the next poll) would carry the
    previous poll's derived columns and those would be reported as counted votes. So get_estimates must not modify its current_data
    argument in place (the same alias / mutation summaries as C12.R4)."""
    from ..mutation import Mutation
    ge = ctx.fn("elexmodel.client", "ModelClient.get_estimates")
    ctx.require("current_data" in ge.params, f"{ge.where()}: parameter current_data no longer exists")
    hits = Mutation(ctx).mutated(ge).get("current_data", [])
    ctx.ob("C01.R7.feed-private", f"{ge.qualname}|derived result columns are computed on a private copy of the feed", not hits,
           hits[0][0] if hits else ge.where(),
           "the feed frame the caller passed is never written to: every derived column is computed from this call's counts" if not hits
           else f"the caller's feed frame is modified in place ({hits[0][1]}): a feed object that is refreshed and passed again keeps the derived "
                f"columns of the previous poll (they are only computed when absent), which are then reported as counted votes")


def _feed_complete(ctx):
    """R8.feed-complete: "every unit in the feed appears exactly once in the unit table" starts with every row of the feed reaching the data
    handler: the frame ModelClient.get_estimates hands to CombinedDataHandler as current_data is the caller's feed (converted to a frame,
    copied) - no row of it is filtered away on the way (a unit of a state the office is not configured for is an unexpected unit, not noise)."""
    ge = ctx.fn("elexmodel.client", "ModelClient.get_estimates")
    b = ctx.builder(inline=lambda caller, call, callee: callee.name not in ("__init__",) and callee.cls is not None and callee.cls.name == "PreprocessedDataHandler")
    gs = b.summarize(ge)
    ctor = None
    for t in [t for _, _, t, _ in gs.assigns] + [t for _, t, _ in gs.effects]:
        for x in ir.walk(t):
            if ctor is None and x[0] == "call" and x[1][0] == "global" and x[1][1].endswith(":CombinedDataHandler"):
                ctor = x
    ctx.sites("C01.R8", 1 if ctor else 0, 1, "construction of CombinedDataHandler in get_estimates")
    kw = dict(ctor[3])
    a = kw.get("current_data", ctor[2][1] if len(ctor[2]) > 1 else None)
    ctx.require(a is not None, f"{ge.where()}: CombinedDataHandler is built without a feed")
    FEED = ("param", "current_data")

    def spine(t, depth=0):
        """None when every row of the feed reaches t, else the step that leaves rows out"""
        if depth > 40:
            raise AnalysisError(f"{ge.where()}: feed argument too deep")
        k = t[0]
        if t == FEED:
            return None
        if k == "phi" or k == "ifexp":
            return spine(t[2], depth + 1) or spine(t[3], depth + 1)
        if k == "call" and t[1] == ("global", "pandas.DataFrame") and t[2]:
            # DataFrame(current_data[1:], columns=current_data[0]): the list-of-lists form of the feed, header row split off
            src = t[2][0]
            if src[0] == "sub" and src[1] == FEED and src[2][0] == "slice" and src[2][1] == ("const", 1) and src[2][2] == ("const", None):
                return None
            return spine(src, depth + 1)
        if k == "call" and t[1][0] == "attr" and t[1][2] in ("copy", "reset_index", "rename", "astype", "fillna", "assign", "sort_values", "convert_dtypes"):
            return spine(t[1][1], depth + 1)
        if k in ("setitem", "setattr", "mut"):
            return spine(t[1], depth + 1)
        if k == "sub" and t[2][0] in ("list", "const", "fstr"):
            return spine(t[1], depth + 1)
        if k == "sub":
            return f"row filter [{ir.show(t[2], maxdepth=3)[:100]}]"
        if k == "call" and t[1][0] == "attr" and t[1][2] in ("query", "dropna", "drop_duplicates", "head", "tail", "sample", "merge", "join"):
            return f".{t[1][2]}(..)"
        if k == "call":
            # an opaque call that is given the feed and whose result is used in its place
            if any(x == FEED for x in ir.walk(t)):
                return f"{ir.show(t[1], maxdepth=2)[:60]}(..) stands between the feed and the data handler and was not understood as row-preserving"
        raise AnalysisError(f"{ge.where()}: feed argument of CombinedDataHandler not understood: {ir.show(t, maxdepth=3)[:160]}")
    why = spine(a)
    ctx.ob("C01.R8.feed-complete", f"{ge.qualname}|every row of the feed reaches the data handler", why is None, ge.where(),
           "CombinedDataHandler gets the caller's feed (as a frame), all rows" if why is None
           else f"{why} removes rows of the feed before the data handler sees them: such a unit is in no frame, its votes are counted nowhere")
