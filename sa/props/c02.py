"""C02 - every aggregate equals the sum of its units; levels agree with each other.

 R1 pred_e = S_R + S_U (results_e) + S_N (pred_e) per group (classification level: no U), fill-before-add;
 R2 nonparametric bounds: lower = round(S_R + S_U (results_e) + S_N (lower_a_e)), upper likewise with upper_a_e;
 R3 alignment: the prediction table and the interval vectors of each estimator have the same group universe, the same order
    (ascending by the aggregate keys) and a 0..n-1 index, so the positional assignment puts each bound on its own row;
 R4 bootstrap: pred_margin = nan_to_num((S_R + S_U (results_margin) + S_N (pred_margin)) / pred_turnout) with pred_turnout the
    documented group sum (C01.R4); the race-call adjustment is the only later write and sits under the top-level guard; the unit
    table shows exactly the vectors the group totals sum (R4.unit-terms / unit-pass); with several keys the indicator columns are
    re-ordered by the keys, because get_dummies orders them by the joined string (R3.bootstrap-col-order);
 R5 lower goes to lower_*, upper to upper_*: element 0 / 1 of the interval tuple, field order of both PredictionIntervals
    classes, and the order of the arguments each estimator passes.
Lemma (not a rule): with all levels being sums over the same three disjoint frames (C01.R1), R1-R2 give county/district tables
summing to the state table and the state table to the unit table.
"""
from __future__ import annotations

import ast

from .. import aggmodel as am, ir, util
from ..aggmodel import N_, R_, U_
from ..frames import Frames, signature
from ..model import AnalysisError
from .c01 import BASE, BM, CLS_FLAG, E, MR, check_sum, fname, model_builder, _strip

NP = "elexmodel.models.NonparametricElectionModel"
GM = "elexmodel.models.GaussianElectionModel"
ALPHA = ("param", "alpha")


def iname(side):
    return ir.I(("fstr", (("const", side + "_"), ALPHA, ("const", "_"), E)))


def check(ctx):
    repo = ctx.repo
    ctx.explanation = (
        "Frame algebra over the aggregate pipelines of the three estimators (helpers and super() calls inlined): each reported "
        "column is normalised to a signed sum of per-group sums over the reporting / unexpected / nonreporting frames and "
        "compared with the specification; row signatures (group universe, order, index) of the prediction table and of the "
        "interval vectors are compared so that the positional assignment in ModelResultsHandler cannot shift rows."
    )
    ctx.assumptions += ["pandas: groupby(sort=True) and outer merge return rows ascending by the keys; reset_index gives 0..n-1",
                        "C01.R1 (the three frames are disjoint) and C15.R3 (gaussian: exactly one model per group with "
                        "outstanding units) are decided by their own checks",
                        "pandas.get_dummies orders its columns by the (string) values; frame[list] re-orders columns as listed"]
    b = model_builder(ctx)
    F = Frames(b)
    bf = ctx.fn(BASE, "BaseElectionModel.get_aggregate_predictions")
    bs = b.summarize(bf)
    pred_tab = bs.ret()
    res, pred = fname("results_"), fname("pred_")
    check_sum(ctx, "C02.R1.pred", bf, "pred_e", F.col(pred_tab, pred), {"R": ir.show(res), "U": ir.show(res), "N": ir.show(pred)}, bf.where())

    # ---- R2 nonparametric bounds -------------------------------------------------------------
    npc = repo.cls(NP, "NonparametricElectionModel")
    nf = ctx.fn(NP, "NonparametricElectionModel.get_aggregate_prediction_intervals")
    ns = b.summarize(nf, self_cls=npc)
    nret = ns.ret()
    ctx.require(nret[0] == "call" and len(nret[2]) == 2, f"{nf.where()}: result is not PredictionIntervals(lower, upper)")
    tabs = {}
    for i, side in enumerate(("lower", "upper")):
        t = nret[2][i]
        rounded = t[0] == "call" and t[1][0] == "attr" and t[1][2] == "round"
        ctx.ob("C02.R2.round", f"{nf.qualname}|{side} rounded", rounded, nf.where(), f"{side} bound is rounded to whole votes" if rounded else f"{side} bound is not rounded")
        inner = t[1][1] if rounded else t
        cr_ = ir.column_ref(inner)
        ctx.require(cr_ is not None, f"{nf.where()}: {side} is not a column of the aggregate table")
        inner = ("attr", cr_[0], cr_[1])
        tabs[side] = inner[1]
        val = F.col(inner[1], ("const", inner[2]))
        check_sum(ctx, "C02.R2.bounds", nf, f"{side} bound", val,
                  {"R": ir.show(res), "U": ir.show(res), "N": ir.show(iname(side))}, nf.where())
        ctx.ob("C02.R5.sides", f"{nf.qualname}|argument {i} is the {side} bound", inner[2] == side, nf.where(),
               f"PredictionIntervals argument {i} is the '{side}' column" if inner[2] == side else f"argument {i} is column '{inner[2]}'")

    # ---- R3 alignment --------------------------------------------------------------------------
    for cls_mode in (False, True):
        flags = {CLS_FLAG: cls_mode}
        mode = "classification level" if cls_mode else "state/county/district level"
        ps = signature(pred_tab, flags)
        for side in ("lower", "upper"):
            for extra_, isg in am.each_valuation(lambda fl_: signature(tabs[side], fl_), flags):
                _cmp_sig(ctx, nf, f"nonparametric {side} ({mode}){am.when(extra_)}", ps, isg)
    # gaussian
    gc = repo.cls(GM, "GaussianElectionModel")
    gf = ctx.fn(GM, "GaussianElectionModel.get_aggregate_prediction_intervals")
    gs = b.summarize(gf, self_cls=gc)
    grets = gs.returns
    ctx.sites("C02.R3.gaussian", len(grets), 2, "returns of the gaussian aggregate interval function")
    for pc, t, n in grets:
        early = any(c[0][0] == "cmp" and ("shape" in ir.show(c[0]) or "len(nonreporting_units)" in ir.show(c[0])) and c[1] for c in pc)
        parts = t[2] if t[0] == "call" else (t[1] if t[0] == "tuple" else None)
        ctx.require(parts is not None and len(parts) == 2, f"{gf.where(n)}: return is not a (lower, upper) pair")
        for cls_mode in (False, True):
            flags = {CLS_FLAG: cls_mode}
            mode = "classification level" if cls_mode else "state/county/district level"
            ps = signature(pred_tab, flags)
            for i, side in enumerate(("lower", "upper")):
                x = parts[i]
                while x[0] == "call" and x[1][0] == "attr" and x[1][2] in ("round",):
                    x = x[1][1]
                vals_ = am.each_valuation(lambda fl_: signature(x, fl_), flags)
                for extra_, isg in vals_[1:]:
                    _cmp_sig(ctx, gf, f"gaussian {side} ({mode}){am.when(extra_)}", ps, isg, gaussian=not early)
                isg = vals_[0][1]
                if early:
                    # no nonreporting units: the prediction table's universe loses its N part (empty)
                    ps2 = (frozenset(g for g in ps[0] if g[1] != N_), ps[1], ps[2])
                    _cmp_sig(ctx, gf, f"gaussian early return {side} ({mode})", ps2, isg)
                else:
                    _cmp_sig(ctx, gf, f"gaussian {side} ({mode})", ps, isg, gaussian=True)
        if not early and t[0] == "call":
            for i, side in enumerate(("lower", "upper")):
                x = t[2][i]
                col = x[1][1] if x[0] == "call" else x
                cr_ = ir.column_ref(col)
                oks_ = cr_ is not None and cr_[1] == side
                ctx.ob("C02.R5.sides", f"{gf.qualname}|argument {i} is the {side} bound", oks_, gf.where(n),
                       f"PredictionIntervals argument {i} is the '{side}' column" if oks_ else f"argument {i} is {ir.show(col, maxdepth=2)}")
    # bootstrap: indicator columns vs sorted table
    bc = repo.cls(BM, "BootstrapElectionModel")
    for qn in ("get_aggregate_predictions", "get_aggregate_prediction_intervals"):
        f = ctx.fn(BM, f"BootstrapElectionModel.{qn}")
        s = b.summarize(f, {"estimand": ("const", "margin")}, self_cls=bc)
        # the frame the dummies are built from (any local name): the first concat of unit frames in the function
        dm = None
        for _, _, t_, _ in s.assigns:
            t_ = am.non_classification_view(t_)
            if dm is None and any(x[0] == "call" and x[1][0] == "global" and x[1][1].endswith("get_dummies") for x in ir.walk(t_)):
                dm = next(x for x in ir.walk(t_) if x[0] == "phi" and am._is_dummies(x) or (x[0] == "call" and x[1][0] == "global" and x[1][1].endswith("get_dummies")))
        ctx.require(dm is not None, f"{f.where()}: get_dummies indicator not found")
        order = None
        for x in ir.walk(dm):
            o = am.concat_order(x)
            if o is not None:
                order = o
                break
        ok = order == [R_, N_, U_]
        ctx.ob("C02.R3.bootstrap-rows", f"{f.qualname}|indicator rows = concat(R, N, U)", ok, f.where(),
               "indicator matrix rows are reporting, nonreporting, unexpected units in this order" if ok
               else f"indicator matrix built from {[ir.show(o, maxdepth=2) for o in (order or [])]}")
        # columns of get_dummies are the sorted distinct keys; the key for several aggregates is the '_'-join in aggregate order
        joins = [x for x in ir.walk(dm) if x[0] == "call" and x[1][0] == "attr" and x[1][2] == "agg" and x[2] and x[2][0] == ("attr", ("const", "_"), "join")]
        # with the columns re-ordered by the keys (col-order below) any join over exactly the aggregate keys names the groups
        okj = bool(joins) and all(j[1][1][0] == "sub" and (j[1][1][2] == ("param", "aggregate") or (
            j[1][1][2][0] == "sub" and j[1][1][2][1] == ("param", "aggregate") and j[1][1][2][2][0] == "slice")) for j in joins)
        ctx.ob("C02.R3.bootstrap-cols", f"{f.qualname}|contest columns keyed by the aggregate list", okj, f.where(),
               "multi-key groups are the '_'-join of the keys in aggregate order" if okj
               else "group key of the indicator matrix is not the join of the aggregate keys in order")
        # column ORDER: get_dummies sorts its columns by the joined *string*; the table that is divided by these sums (and the one
        # the returned bounds are written into) is sorted by the key *columns*. String order and tuple order differ whenever one
        # key value is a prefix of another ("VA_10_51003" < "VA_1_51001" but ("VA","1",..) < ("VA","10",..)), so with several keys
        # the indicator frame has to be re-ordered by the keys: dummies[F.sort_values(aggregate)[joined].unique()], F the same frame.
        def _is_gd(t):
            return t[0] == "call" and t[1][0] == "global" and t[1][1].endswith("get_dummies") and bool(t[2])

        def _reordered(t):
            """dummies[F.sort_values(aggregate)[joined].unique()] with get_dummies(F[joined])"""
            if not (t[0] == "sub" and _is_gd(t[1])):
                return False
            src, sel = t[1][2][0], t[2]
            if not (sel[0] == "call" and sel[1][0] == "attr" and sel[1][2] == "unique" and sel[1][1][0] == "sub" and src[0] == "sub"
                    and sel[1][1][2] == src[2]):
                return False
            srt = sel[1][1][1]
            return (srt[0] == "call" and srt[1][0] == "attr" and srt[1][2] == "sort_values" and srt[2] == (("param", "aggregate"),)
                    and srt[1][1] == src[1] and dict(srt[3]).get("ascending", ("const", True)) == ("const", True))

        MULTI = ("cmp", ">", ("call", ("global", "len"), (("param", "aggregate"),), ()), ("const", 1))
        pool = [t_ for _, _, t_, _ in s.assigns] + [s.ret()]
        branches = []
        for t_ in pool:
            for x in ir.walk(am.non_classification_view(t_)):
                if x[0] == "phi" and x[1] == MULTI and any(_is_gd(y) for y in ir.walk(x[2])) and x[2] not in branches:
                    branches.append(x[2])
        reordered = bool(branches) and all(_reordered(am.non_classification_view(x)) for x in branches)
        uses_raw = False
        okorder = bool(joins) and reordered and not uses_raw
        ctx.ob("C02.R3.bootstrap-col-order", f"{f.qualname}|indicator columns in key order", okorder, f.where(),
               "with several keys the indicator columns are re-ordered by sort_values(aggregate) of the same frame: column i is row i of the table" if okorder
               else "with several keys the indicator columns stay in the order of the '_'-joined string while the table rows are sorted by the "
                    "key columns: when one key value is a prefix of another (districts '1' and '10' before a county key) row i is divided "
                    "by / bounded with the sums of another group")

    # ---- R4 bootstrap pred_margin ---------------------------------------------------------------
    f = ctx.fn(BM, "BootstrapElectionModel.get_aggregate_predictions")
    s = b.summarize(f, {"estimand": ("const", "margin")}, self_cls=bc)
    ret = s.ret()
    # views of the returned table below / at the top level, whatever the branch layout (C08's writer discipline is not judged here)
    TOPC = ir.repo_call(("attr", ("param", "self"), "_is_top_level_aggregate"), [("aggregate", ("param", "aggregate"))])
    ctx.require(any(x[0] == "phi" and x[1] == TOPC for x in ir.walk(ret)), f"{f.where()}: the result does not distinguish the top level (race-call adjustment)")
    nontop = am.non_classification_view(ir.resolve_phi(ret, TOPC, False))
    topv = am.non_classification_view(ir.resolve_phi(ret, TOPC, True))
    pm = F.col(nontop, ("const", "pred_margin"))
    pt = F.col(nontop, ("const", "pred_turnout"))
    core = _strip(pm)
    ok_shape = core[0] == "call" and ir.show(core[1]).endswith("nan_to_num") and core[2] and core[2][0][0] == "bin" and core[2][0][1] == "/"
    ctx.ob("C02.R4.shape", f"{f.qualname}|pred_margin = nan_to_num(sum / turnout)", ok_shape, f.where(),
           "pred_margin is the group sum of unit margins divided by the group's predicted turnout" if ok_shape else f"pred_margin is {ir.show(pm, maxdepth=4)}")
    if ok_shape:
        num, den = core[2][0][2], core[2][0][3]
        check_sum(ctx, "C02.R4.numerator", f, "pred_margin numerator", num,
                  {"R": "'results_margin'", "U": "'results_margin'", "N": "'pred_margin'"}, f.where())
        ctx.ob("C02.R4.same-turnout", f"{f.qualname}|pred_margin divided by pred_turnout", _strip(den) == _strip(pt), f.where(),
               "divisor is the vector reported as pred_turnout" if _strip(den) == _strip(pt) else "pred_margin is divided by something else than pred_turnout")
    # the top-level view differs from the raw one only in pred_margin
    def cols_of(t):
        out = {}
        while t[0] == "setitem":
            out.setdefault(t[2], t[3])
            t = t[1]
        return out, t
    ctop, btop = cols_of(topv)
    cnon, bnon = cols_of(nontop)
    extra = [ir.show(k) for k in set(ctop) | set(cnon) if k != ("const", "pred_margin") and ctop.get(k) != cnon.get(k)]
    if btop != bnon:
        extra.append("the underlying table")
    ctx.ob("C02.R4.adjust-guarded", f"{f.qualname}|only the guarded call adjustment rewrites the table", not extra, f.where(),
           "the top-level branch differs from the raw table only in pred_margin (race-call adjustment)" if not extra
           else f"top-level branch additionally rewrites {extra}")

    # the unit table's bootstrap predictions are the very vectors the aggregate totals sum over the nonreporting rows
    uf = ctx.fn(BM, "BootstrapElectionModel.get_unit_predictions")
    ur = ctx.builder(inline=lambda *a: False).summarize(uf, self_cls=bc).ret()
    SELF_ = ("param", "self")
    want_u = ("tuple", (("attr", SELF_, "weighted_yz_test_pred"), ("attr", SELF_, "weighted_z_test_pred")))
    oku = ur == want_u
    ctx.ob("C02.R4.unit-terms", f"{uf.qualname}|unit margin / turnout predictions are the summed vectors", oku, uf.where(),
           "get_unit_predictions returns (self.weighted_yz_test_pred, self.weighted_z_test_pred): the unit table shows exactly what the "
           "aggregate totals sum over the nonreporting rows" if oku
           else f"get_unit_predictions returns {ir.show(ur, maxdepth=4)}: the unit table's predictions are not the vectors the group totals "
                f"(indicator.T @ self.weighted_yz_test_pred / self.weighted_z_test_pred) are built from, so groups are not the sum of their units")
    # .. and the client / results handler pass them to the unit table unchanged
    ge = ctx.fn("elexmodel.client", "ModelClient.get_estimates")
    okpass = False
    for c in util.own_nodes(ge, ast.Assign):
        if isinstance(c.value, ast.Call) and isinstance(c.value.func, ast.Attribute) and c.value.func.attr == "get_unit_predictions" \
                and isinstance(c.targets[0], ast.Tuple) and len(c.targets[0].elts) == 2 and all(isinstance(e, ast.Name) for e in c.targets[0].elts):
            n_pred, n_turn = (e.id for e in c.targets[0].elts)
            p1 = [x for x in util.method_calls(ge.node, "add_unit_predictions") if len(x.args) == 2 and isinstance(x.args[1], ast.Name) and x.args[1].id == n_pred]
            p2 = [x for x in util.method_calls(ge.node, "add_unit_turnout_predictions") if len(x.args) == 1 and isinstance(x.args[0], ast.Name) and x.args[0].id == n_turn]
            okpass = bool(p1) and bool(p2)
    hb2 = ctx.builder()
    for meth, colname in (("add_unit_predictions", None), ("add_unit_turnout_predictions", "pred_turnout")):
        hf = ctx.fn(MR, f"ModelResultsHandler.{meth}")
        hs = hb2.summarize(hf)
        nt = hs.attrs.get("nonreporting_units")
        last_param = ("param", hf.params[-1])
        okh = nt is not None and nt[0] == "setitem" and nt[3] == last_param and nt[1] == ("attr", ("param", "self"), "nonreporting_units")
        okpass = okpass and okh
    ctx.ob("C02.R4.unit-pass", f"{ge.qualname}|unit predictions reach the unit table unchanged", okpass, ge.where(),
           "both vectors returned by get_unit_predictions are written as pred_<estimand> / pred_turnout of the nonreporting units" if okpass
           else "the vectors returned by get_unit_predictions are not what the handler writes into the nonreporting units' pred columns")

    # ---- R5 positions / field order ---------------------------------------------------------------
    af = ctx.fn(MR, "ModelResultsHandler.add_agg_predictions")
    afs = ctx.builder().summarize(af)
    SELF_ = ("param", "self")
    ELEM_OK = lambda e_: e_[0] == "elem" and e_[1] == ("attr", SELF_, "prediction_interval_alphas")  # noqa: E731
    got = {}
    for t_ in [x for _, _, x, _ in afs.assigns] + [w[2] for w in afs.attr_writes]:
        for x in ir.walk(t_):
            if x[0] == "setitem" and x[2][0] == "fstr" and x[2][1] and x[2][1][0][0] == "const" and isinstance(x[2][1][0][1], str):
                side = x[2][1][0][1].split("_")[0]
                key_level = next((p_ for p_ in x[2][1] if p_[0] == "elem"), None)
                v = x[3]
                src_ok = (v[0] == "sub" and v[2][0] == "const" and v[1][0] == "sub" and v[1][1] == ("param", "agg_interval_predictions")
                          and v[1][2] == key_level and key_level is not None and ELEM_OK(key_level) and ("param", "estimand") in x[2][1])
                got.setdefault(side, set()).add(v[2][1] if src_ok else ir.show(v, maxdepth=4))
    ok = got.get("lower") == {0} and got.get("upper") == {1}
    detail = ("for every interval level of the handler: lower_a_e <- element 0, upper_a_e <- element 1 of that level's intervals" if ok
              else f"interval columns are filled from {({k_: sorted(map(str, v_)) for k_, v_ in got.items()})} (expected lower <- [level][0], upper <- [level][1])")
    ctx.ob("C02.R5.positions", f"{af.qualname}|element 0 -> lower, 1 -> upper, all levels", ok, af.where(), detail)
    for modn in (BASE, "elexmodel.models.ConformalElectionModel"):
        m = repo.mod(modn)
        node = m.constants.get("PredictionIntervals")
        fields = None
        if isinstance(node, ast.Call) and len(node.args) >= 2 and isinstance(node.args[1], ast.List):
            fields = [util.const(e) for e in node.args[1].elts]
        ctx.ob("C02.R5.fields", f"{modn}|PredictionIntervals field order", fields is not None and fields[:2] == ["lower", "upper"],
               f"{m.relpath}:{getattr(node, 'lineno', 1)}", f"fields {fields}")
    # unit level: ModelResultsHandler uses .lower / .upper
    uf = ctx.fn(MR, "ModelResultsHandler.add_unit_intervals")
    from ..colwrites import column_writes
    ufs = ctx.builder().summarize(uf)
    ALPHA_ = ("elem", ("attr", SELF_, "prediction_interval_alphas"), 0)
    src = {}
    for k_, v_ in column_writes(ufs.attrs.get("nonreporting_units")):
        for side in ("lower", "upper"):
            if k_ == ("fstr", (("const", side + "_"), ALPHA_, ("const", "_"), ("param", "estimand"))):
                src.setdefault(side, set()).add(v_ == ("attr", ("sub", ("param", uf.params[-1]), ALPHA_), side) or ir.show(v_, maxdepth=4))
    oku = src.get("lower") == {True} and src.get("upper") == {True}
    ctx.ob("C02.R5.unit", f"{uf.qualname}|unit lower/upper from .lower/.upper", oku, uf.where(), f"nonreporting unit bounds: {src}")


def _cmp_sig(ctx, fn, what, ps, isg, gaussian=False):
    pu, po, pi = ps
    iu, io, ii = isg
    if gaussian and not isinstance(iu, frozenset):
        # votes  OUTER  (last_election INNER modeled_bounds): universe = groups(votes) + groups(N that have a model)
        iu2 = _gauss_universe(iu)
        if iu2 is not None:
            iu = iu2
    same_u = isinstance(iu, frozenset) and iu == pu
    ctx.ob("C02.R3.universe", f"{fn.qualname}|{what} groups", same_u, fn.where(),
           "interval vector and prediction table cover the same groups: " + _show_u(pu) if same_u
           else f"prediction table covers {_show_u(pu)} but the interval vector covers {_show_u(iu)}: a group present in only one of them "
                f"shifts every following row of the positional assignment")
    ctx.ob("C02.R3.order", f"{fn.qualname}|{what} order", po == "sorted" and io == "sorted", fn.where(),
           "both are ascending by the aggregate keys" if po == io == "sorted" else f"prediction order {po}, interval order {io}")
    ctx.ob("C02.R3.index", f"{fn.qualname}|{what} index", pi == "range" and ii == "range", fn.where(),
           "both carry a 0..n-1 index, so Series assignment is positional" if pi == ii == "range" else f"prediction index {pi}, interval index {ii}")


def _gauss_universe(u):
    """('union', votes, ('inter', G(N via last_election), modeled_bounds...)) -> votes | G(N)  assuming C15.R3"""
    if u[0] == "union" and isinstance(u[1], frozenset) and u[2][0] == "inter" and isinstance(u[2][1], frozenset):
        return u[1] | u[2][1]
    return None


def _show_u(u):
    if isinstance(u, frozenset):
        return " u ".join(sorted("groups(" + am.FRAME_NAMES.get(g[1], ir.show(g[1], maxdepth=2)) + ")" for g in u))
    return str(u)[:160]
