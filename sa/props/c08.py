"""C08 - the national summary is bounded, ordered, and depends only on the contests.

 R1 typestate: every model attribute the summary reads (other than constructor settings) is written only at sites guarded
    by `self._is_top_level_aggregate(aggregate)`, so finer aggregates computed later cannot overwrite it; that predicate has to
    tell a district election from a statewide one (open known finding K2: it does not);
 R2 value sets (complete table): potential losses / gains are 0/1 vectors, losses only at predicted winners, gains only at
    predicted losers, in both correlation modes and with/without call and stop vectors; called contests are zero in both; and in
    order-statistic mode the per-draw indicator matrices that are summed into the RANKED national totals are the constant called
    outcome for a called contest (R2.called-ranking: otherwise its weight decides which draws the bounds are read from, F35);
 R3 formula shape: lower = P - sum(w * losses), upper = P + sum(w * gains), each output = round(x + base, 2) with the same base;
 R4 the weight-dictionary length check raises before the weights are used;
 R5 P = sum(w * [margin > 0]) under the hard threshold, weights ordered by sorted contest key;
 R6 client: a model is required, every requested level is computed, one frame is stored, columns come from positions 0/1/2.
 R8 the aggregate steps get the same unit frames in every iteration of the client's loops (restated from C13.R9);
 R7 the stored summary frame is built from this call's estimates only (restated from C12.R7.summary-fresh: a frame continued from an
    earlier summary keeps that call's prediction next to this call's bounds - pred outside [lower, upper] and outside
    [base, base + total] as soon as two summaries with other weights or another base are asked of one run).
"""
from __future__ import annotations

import ast
import itertools

from .. import ir, symexpr, util
from ..cfg import CFG
from ..effects import Guards, split_cond
from ..model import AnalysisError
from ..regions import B, I, TOP, ValueSets

BM = "elexmodel.models.BootstrapElectionModel"
NONE = ("const", None)


def _strip_shape(t):
    while t[0] == "call" and t[1][0] == "attr" and t[1][2] in ("flatten", "reshape", "ravel", "copy"):
        t = t[1][1]
    return t


def _is_sum(t):
    return t[0] == "call" and ((t[1][0] == "global" and t[1][1].split(".")[-1] == "sum") or (t[1][0] == "attr" and t[1][2] == "sum"))


def _sum_arg(t):
    return t[2][0] if t[1][0] == "global" else t[1][1]


_PER_CONTEST = ("divided_error_B_1", "divided_error_B_2", "aggregate_pred_margin", "called_contests", "stop_model_call")


def _see_through_selection(term, _memo=None):
    """The table below is evaluated PER CONTEST, so a row selection of a per-contest vector by a stored mask
    (`self.called_contests[self.<mask>]`, e.g. to leave out groups that are not contests of the election) does not change it, nor
    does `None if self.x is None else <selection of self.x>`: both are replaced by the vector itself."""
    if _memo is None:
        _memo = {}
    if not isinstance(term, tuple) or not term or not isinstance(term[0], str):
        return term
    if term in _memo:
        return _memo[term]
    t = ir.map_children(term, lambda x: _see_through_selection(x, _memo))
    SELF_ = ("param", "self")

    def vec(x):
        return x[0] == "attr" and x[1] == SELF_ and x[2] in _PER_CONTEST

    if t[0] == "sub" and vec(t[1]) and t[2][0] == "attr" and t[2][1] == SELF_:
        t = t[1]
    elif t[0] in ("ifexp", "phi") and t[1][0] == "cmp" and t[1][1] in ("is", "isnot", "is not") and vec(t[1][2]) and t[1][3] == ("const", None):
        none_branch, other = (t[2], t[3]) if t[1][1] == "is" else (t[3], t[2])
        if none_branch == ("const", None) and other == t[1][2]:
            t = other
    _memo[term] = t
    return t


def check(ctx):
    repo = ctx.repo
    ctx.explanation = (
        "Typestate over the model's attributes (writer sites x must-hold guards from the CFG), complete truth table of the "
        "0/1 loss/gain vectors by element-wise abstract evaluation of the def-use terms over value sets (relational atoms: "
        "predicted winner, call code, stop flag, mode flags), formula shape via term matching / rational normal form, and "
        "dominance of the length check."
    )
    ctx.assumptions += ["contest weights are non-negative (then 0/1 loss/gain vectors imply lower <= pred <= upper and the "
                        "[base, base + total] range under the hard threshold)",
                        "numpy element-wise semantics for - > ~ & astype isclose and boolean-mask assignment"]
    cls = repo.cls(BM, "BootstrapElectionModel")
    f = ctx.fn(BM, "BootstrapElectionModel.get_national_summary_estimates")
    b = ctx.builder()
    s = b.summarize(f)

    # ---- R1 typestate ----------------------------------------------------------------------
    reads = []
    helpers = [f] + [g for g in ctx.cg.callees(f) if g.cls is not None]
    for g in helpers:
        for n in util.own_nodes(g, ast.Attribute):
            if isinstance(n.value, ast.Name) and n.value.id == "self" and isinstance(n.ctx, ast.Load):
                par = getattr(n, "_parent", None)
                if isinstance(par, ast.Call) and par.func is n:
                    continue  # method call
                if n.attr not in reads:
                    reads.append(n.attr)
    ctx.sites("C08.R1", len(reads), 8, "model attributes read by the national summary")
    G = Guards(ctx)
    family = [c for c in repo.all_classes() if cls in c.mro() or c in cls.mro()]
    stateful = 0
    for attr in reads:
        ws = [(wf, recv, val, st) for wf, recv, val, st in util.attr_writes(repo, attr)
              if wf.cls in family and isinstance(recv, ast.Name) and recv.id == "self"]
        if not ws:
            continue
        outside = [w for w in ws if w[0].name != "__init__"]
        if not outside:
            continue  # constructor setting
        stateful += 1
        for wf, recv, val, st in outside:
            atoms = G.atoms(wf, st)
            guarded = any(pol and isinstance(e, ast.Call) and isinstance(e.func, ast.Attribute) and e.func.attr == "_is_top_level_aggregate"
                          and isinstance(e.func.value, ast.Name) and e.func.value.id == "self"
                          and len(e.args) == 1 and isinstance(e.args[0], ast.Name) and e.args[0].id in wf.params
                          for e, pol in atoms)
            # state that is explicitly run-once (bootstrap draws) is not aggregate-dependent
            if wf.name == "compute_bootstrap_errors":
                continue
            ctx.ob("C08.R1.writer", f"{wf.qualname}|self.{attr}", guarded, wf.where(st),
                   f"self.{attr} is stored only when the top-level (contest) aggregate is computed" if guarded
                   else f"self.{attr} (read by the national summary) is overwritten for every aggregate level: the summary then "
                        f"depends on which aggregate was computed last (order / presence of finer aggregates)")
    ctx.sites("C08.R1.stateful", stateful, 4, "summary inputs written outside the constructor")
    tl = cls.lookup("_is_top_level_aggregate")
    ctx.require(tl is not None, "_is_top_level_aggregate not found")
    tls = b.summarize(tl)
    txt = ir.show(tls.ret(), maxdepth=10)
    oktl = ("len(aggregate) == 1" in txt and "len(aggregate) == 2" in txt and "'postal_code' in aggregate" in txt and "'district' in aggregate" in txt)
    ctx.ob("C08.R1.toplevel", f"{tl.qualname}|definition", oktl, tl.where(),
           "top level = [postal_code] or [postal_code, district]" if oktl else f"top-level test changed: {txt[:160]}")

    # which table is "the contests" depends on the kind of election: [postal_code, district] is the contest level of a district
    # race but a finer aggregate of a statewide race (presidential ME / NE districts, a statewide office with a district table).
    # A predicate that does not look at the election kind lets that finer table overwrite the summary's inputs.
    uses_kind = any(isinstance(n, ast.Attribute) and isinstance(n.value, ast.Name) and n.value.id == "self" and n.attr == "district_election"
                    for n in ast.walk(tl.node))
    ctx.ob("C08.R1.toplevel-kind", f"{tl.qualname}|contest level depends on the kind of election", uses_kind, tl.where(),
           "[postal_code, district] counts as the contest level only in a district election" if uses_kind
           else "[postal_code, district] always counts as the contest level: in a statewide race the district table then overwrites the stored "
                "contest margins, error matrices and call vectors, and calls are validated against district names")

    # ---- structure of the result ------------------------------------------------------------
    ret = s.ret()
    ctx.require(ret[0] == "dict" and len(ret[1]) == 1 and ret[1][0][0] == ("const", "margin") and ret[1][0][1][0] == "list"
                and len(ret[1][0][1][1]) == 3, f"{f.where()}: result is not {{'margin': [pred, lower, upper]}}")
    outs = tuple(_see_through_selection(t) for t in ret[1][0][1][1])

    def unround(t):
        if t[0] == "call" and t[1] == ("global", "round") and len(t[2]) == 2 and t[2][1] == ("const", 2) and t[2][0][0] == "bin" \
                and t[2][0][1] == "+":
            a, c = t[2][0][2], t[2][0][3]
            if c == ("param", "base_to_add"):
                return a
            if a == ("param", "base_to_add"):
                return c
        return None

    inner = [unround(t) for t in outs]
    ok = all(x is not None for x in inner)
    ctx.ob("C08.R3.base", f"{f.qualname}|same base and rounding for pred/lower/upper", ok, f.where(),
           "each output is round(x + base_to_add, 2)" if ok else
           "outputs are not all round(x + base_to_add, 2): " + "; ".join(ir.show(t, maxdepth=3) for t in outs))
    if not ok:
        return
    P, LO, UP = inner
    okl = LO[0] == "bin" and LO[1] == "-" and LO[2] == P and _is_sum(LO[3])
    oku = UP[0] == "bin" and UP[1] == "+" and ((UP[2] == P and _is_sum(UP[3])) or (UP[3] == P and _is_sum(UP[2])))
    ctx.ob("C08.R3.shape", f"{f.qualname}|lower = P - sum(w*losses)", okl, f.where(),
           "lower = prediction - sum(...)" if okl else f"lower is {ir.show(LO, maxdepth=3)}")
    ctx.ob("C08.R3.shape", f"{f.qualname}|upper = P + sum(w*gains)", oku, f.where(),
           "upper = prediction + sum(...)" if oku else f"upper is {ir.show(UP, maxdepth=3)}")
    if not (okl and oku and _is_sum(P)):
        ctx.ob("C08.R5.pred", f"{f.qualname}|prediction formula", _is_sum(P), f.where(), f"prediction is {ir.show(P, maxdepth=3)}")
        return

    def factors(t):
        a = _sum_arg(t)
        if a[0] == "bin" and a[1] == "*":
            return a[2], a[3]
        return None

    pf = factors(P)
    lf = factors(LO[3])
    uf = factors(UP[3] if _is_sum(UP[3]) else UP[2])
    ctx.require(pf and lf and uf, f"{f.where()}: weighted sums not recognised")
    W = _strip_shape(pf[0]) if "asarray" in ir.show(pf[0], maxdepth=3) or "sorted" in ir.show(pf[0], maxdepth=8) else _strip_shape(pf[1])
    PROBS = pf[1] if _strip_shape(pf[0]) == W else pf[0]

    def other(pair):
        if _strip_shape(pair[0]) == W:
            return pair[1]
        if _strip_shape(pair[1]) == W:
            return pair[0]
        return None

    LOSS, GAIN = other(lf), other(uf)
    okw = LOSS is not None and GAIN is not None
    ctx.ob("C08.R3.weights", f"{f.qualname}|same weights in all three sums", okw, f.where(),
           "prediction, losses and gains are weighted by the same vector" if okw else "losses / gains are not weighted by the prediction's weight vector")
    if not okw:
        return
    # R5: weights ordered by sorted key, prediction under the hard threshold
    wtxt = ir.show(W, maxdepth=10)
    okw2 = "sorted(" in wtxt and ".items()" in wtxt and "[1]" in wtxt
    ctx.ob("C08.R5.order", f"{f.qualname}|weights sorted by contest key", okw2, f.where(),
           "weights are the dictionary values in sorted key order (matches the sorted contest columns)" if okw2
           else f"weights are {wtxt[:140]}: not aligned with the alphabetically ordered contests")
    okp = (PROBS[0] == "phi" and PROBS[1] == ("attr", ("param", "self"), "hard_threshold") and PROBS[2][0] == "cmp"
           and PROBS[2][1] == ">" and PROBS[2][2] == ("attr", ("param", "self"), "aggregate_pred_margin") and PROBS[2][3] == ("const", 0))
    ctx.ob("C08.R5.pred", f"{f.qualname}|prediction counts contests with positive reported margin", okp, f.where(),
           "hard threshold: P = sum(w * [aggregate_pred_margin > 0])" if okp else f"indicator is {ir.show(PROBS, maxdepth=4)}")

    # ---- R2 value-set table ------------------------------------------------------------------
    pred_cmps = [t for t in ir.walk(LOSS) if t[0] == "cmp" and t[1] == ">" and t[2] == PROBS and t[3] == ("const", 0.5)]
    pred_cmps_g = [t for t in ir.walk(GAIN) if t[0] == "cmp" and t[1] == ">" and t[2] == PROBS and t[3] == ("const", 0.5)]
    ctx.require(pred_cmps and pred_cmps_g, f"{f.where()}: predicted-winner indicator (probs > 0.5) not found in losses/gains")
    PC = pred_cmps[0]
    A_called = ("attr", ("param", "self"), "called_contests")
    A_stop = ("attr", ("param", "self"), "stop_model_call")
    A_corr = ("attr", ("param", "self"), "national_summary_correlation")
    states = 0
    bad = {}
    for p, corr, has_called, has_stop in itertools.product([True, False], [True, False], [True, False], [True, False]):
        for c in ([-1, 0, 1] if has_called else [None]):
            for st in ([True, False] if has_stop else [None]):
                env = {PC: B(p), A_corr: B(corr), ("isnone", A_called): not has_called, ("isnone", A_stop): not has_stop}
                if has_called:
                    env[A_called] = I(c)
                if has_stop:
                    env[A_stop] = B(st)
                vs = ValueSets(env)
                L, Gn = vs.ev(LOSS), vs.ev(GAIN)
                states += 1
                desc = f"winner={p} corr={corr} called={c} stop={st}"
                for name, val, allowed_one in (("losses", L, p), ("gains", Gn, not p)):
                    if val == TOP:
                        raise AnalysisError(f"{f.where()}: {name} vector not evaluable on the value-set domain ({desc})")
                    vals = {v[1] if v[0] != "b" else int(v[1]) for v in val}
                    if not vals <= {0, 1}:
                        bad.setdefault((name, "range", corr), []).append(f"{desc}: values {sorted(vals)}")
                    elif 1 in vals and not allowed_one:
                        bad.setdefault((name, "side", corr), []).append(f"{desc}: can be 1")
                    if has_called and c != -1 and not (has_stop and st) and vals != {0}:
                        bad.setdefault((name, "called", corr), []).append(f"{desc}: values {sorted(vals)}")
    ctx.extra["value_set_states"] = states
    ctx.extra["exhaustive"] = True
    # R2.called-ranking: in order-statistic mode the bounds are read from the draws at two quantile positions of the RANKING of all draws by
    # their national total. A called contest must be the same in every draw before those totals are formed - otherwise its weight takes
    # part in the ranking and thereby in which draws the bounds of the OTHER contests are read from ("called contests contribute no
    # uncertainty to either bound").
    ranked = None
    for _, _, t_, _ in s.assigns:
        for x in ir.walk(t_):
            if x[0] == "call" and ir.show(x[1]).endswith("argsort") and x[2]:
                ranked = x[2][0]
    ctx.require(ranked is not None, f"{f.where()}: ranking of the draws (argsort of the national totals) not found")
    per_draw = []
    for x in ir.walk(ranked):
        if x[0] == "bin" and x[1] == "*" and (_strip_shape(x[2]) == W or _strip_shape(x[3]) == W):
            per_draw.append(x[3] if _strip_shape(x[2]) == W else x[2])
    ctx.sites("C08.R2.called-ranking", len(per_draw), 2, "weighted per-draw indicator matrices summed into the ranked national totals")
    for k_, P_ in enumerate(per_draw):
        problems = []
        for c, want in ((1, 1), (0, 0)):
            env = {A_called: I(c), ("isnone", A_called): False, ("isnone", A_stop): True, A_corr: B(False)}
            val = ValueSets(env).ev(_see_through_selection(P_))
            vals = None if val == TOP else {v[1] if v[0] != "b" else int(v[1]) for v in val}
            if vals != {want}:
                problems.append(f"called {'left' if c == 1 else 'right'}: per-draw indicator is {'any value of the draw' if vals is None else sorted(vals)}, expected the constant {want}")
        ctx.ob("C08.R2.called-ranking", f"{f.qualname}|draw matrix {k_ + 1}: a called contest is decided in every draw", not problems, f.where(),
               "in the national totals that rank the draws a called contest counts as its called outcome in every draw" if not problems
               else "; ".join(problems) + " - its weight takes part in ranking the draws and so moves the bounds that are read from them")
    for name in ("losses", "gains"):
        for corr in (True, False):
            mode = "correlation mode" if corr else "order-statistic mode"
            r = bad.get((name, "range", corr))
            ctx.ob("C08.R2.range", f"{f.qualname}|potential_{name} in {{0,1}} ({mode})", not r, f.where(),
                   f"potential_{name} takes only the values 0/1 in {mode}" if not r
                   else f"potential_{name} can leave {{0,1}} in {mode} ({r[0]}): the interval can exclude the prediction")
            r = bad.get((name, "side", corr))
            side = "predicted winners" if name == "losses" else "predicted losers"
            ctx.ob("C08.R2.side", f"{f.qualname}|potential_{name} only at {side} ({mode})", not r, f.where(),
                   f"potential_{name} is 1 only at {side}" if not r else f"potential_{name} can be 1 outside the {side} ({r[0]})")
            r = bad.get((name, "called", corr))
            ctx.ob("C08.R2.called", f"{f.qualname}|called contests zero in potential_{name} ({mode})", not r, f.where(),
                   "called (not stop-listed) contests contribute no uncertainty" if not r
                   else f"a called contest still contributes to potential_{name} ({r[0]})")

    # ---- R4 length check -----------------------------------------------------------------------
    cfg = CFG(f.node)
    rs = [(pc, t, n) for pc, t, n in s.raises if "BootstrapElectionModelException" in ir.show(t, maxdepth=2)]
    ctx.sites("C08.R4", len(rs), 1, "raise on a weight dictionary of the wrong size")
    for pc, t, n in rs[:1]:
        c = pc[-1]
        txt = ir.show(c[0], maxdepth=8)
        okc = c[0][0] == "cmp" and ((c[1] and c[0][1] == "!=") or (not c[1] and c[0][1] == "==")) and "len(" in txt and "nat_sum_data_dict" in txt.replace("phi", "") \
            and txt.count("len(") >= 2 and "divided_error_B_1" in txt
        ctx.ob("C08.R4.cond", f"{f.qualname}|length check", okc, f.where(n),
               "raises when len(weights) != number of contests" if okc else f"length check is {txt[:160]}")
        test = n
        while not isinstance(test, ast.If):
            test = test._parent
        tn = cfg.by_ast[test]
        uses = [x for x in util.own_nodes(f, ast.Name) if x.id == "nat_sum_data_dict" and isinstance(x.ctx, ast.Load)
                and x.lineno > test.end_lineno]
        early = [x for x in util.own_nodes(f, ast.Name) if x.id == "nat_sum_data_dict" and isinstance(x.ctx, ast.Load)
                 and x.lineno < test.lineno and not isinstance(getattr(x, "_parent", None), ast.Compare)]
        dom = all(cfg.dominates(tn, cfg.node_of(x)) for x in uses) and bool(uses)
        ctx.ob("C08.R4.before-use", f"{f.qualname}|length check before use", dom and not early, f.where(test),
               "the check dominates every use of the weights" if dom and not early else "weights are used before / without the length check")

    # ---- R6 client -----------------------------------------------------------------------------
    cf = ctx.fn("elexmodel.client", "ModelClient.get_national_summary_votes_estimates")
    cs = b.summarize(cf)
    no_model = ("cmp", "is", ("attr", ("param", "self"), "model"), NONE)

    def _when_no_model(c):  # the condition holds whenever self.model is None (the test itself, or a disjunction containing it)
        return c == no_model or (c[0] == "bool" and c[1] == "or" and any(_when_no_model(x) for x in c[2]))

    need = any("ModelClientException" in ir.show(t, maxdepth=2) and pc and pc[-1][1] and _when_no_model(pc[-1][0]) for pc, t, n in cs.raises)
    ctx.ob("C08.R6.model", f"{cf.qualname}|requires a model", need, cf.where(),
           "raises ModelClientException when no estimate run has happened" if need else "does not reject a missing model with the client error")
    from ..colwrites import dict_entries
    d = next((x for _, t_, _ in cs.effects for x in ir.walk(t_) if dict_entries(x)), None)
    okloop = False
    if d is not None:
        ents = dict_entries(d)
        AL = ("param", "alphas")

        def _requested(seq):
            # the levels the caller asked for: the parameter itself, or - when the parameter may be left out - a decision on `alphas is None`
            # whose other branch is the parameter
            if seq == AL:
                return True
            if seq[0] in ("phi", "ifexp") and seq[1][0] == "cmp" and seq[1][2] == AL and seq[1][3] == NONE:
                return seq[3] == AL if seq[1][1] in ("is", "==") else seq[2] == AL
            return False
        seq = ents[0][2] if len(ents) == 1 else None
        LEVEL = ents[0][0] if len(ents) == 1 else None
        okloop = len(ents) == 1 and _requested(seq) and LEVEL[0] == "elem" and LEVEL[1] == seq and ents[0][1][0] == "call" \
            and ents[0][1][1][0] == "attr" and ents[0][1][1][2] == "get_national_summary_estimates" \
            and ents[0][1][2] == (("param", "nat_sum_data_dict"), ("param", "base_to_add"), LEVEL)
    ctx.ob("C08.R6.levels", f"{cf.qualname}|every requested level", okloop, cf.where(),
           "one summary per requested level, keyed by the level, with the caller's weights and base" if okloop
           else f"levels loop not recognised: {ir.show(d, maxdepth=5) if d else None}")
    stores = [t for pc, t, n in cs.effects if t[0] == "call" and t[1][0] == "attr" and t[1][2] == "add_national_summary_estimates"]
    ctx.ob("C08.R6.store", f"{cf.qualname}|stores one frame", len(stores) == 1 and stores[0][2] == (d,), cf.where(),
           "the dictionary of all levels is stored once" if len(stores) == 1 else f"{len(stores)} store calls")
    mr = ctx.fn("elexmodel.handlers.data.ModelResults", "ModelResultsHandler.add_national_summary_estimates")
    cols = {}
    # the frame that ends up in final_results["nat_sum_data"] (whatever its local name)
    stored = {x.id for n in util.own_nodes(mr, ast.Assign) if isinstance(n.targets[0], ast.Subscript)
              and ast.unparse(n.targets[0].slice) == "'nat_sum_data'" for x in ast.walk(n.value) if isinstance(x, ast.Name)}
    for _ in range(3):  # .. or the dict / frame it is built from (df = DataFrame(row, ..))
        for n in util.own_nodes(mr, ast.Assign):
            if isinstance(n.targets[0], ast.Name) and n.targets[0].id in stored:
                stored |= {x.id for x in ast.walk(n.value) if isinstance(x, ast.Name)}
    for n in util.own_nodes(mr, ast.Assign):
        t = n.targets[0]
        if isinstance(t, ast.Subscript) and isinstance(t.value, ast.Name) and t.value.id in stored:
            name = ast.unparse(t.slice)
            v = ast.unparse(n.value)
            cols[name] = v
    okcols = ("'agg_pred'" in cols and "[0]" in cols["'agg_pred'"] and any("lower_" in k and "[1]" in v for k, v in cols.items())
              and any("upper_" in k and "[2]" in v for k, v in cols.items()))
    ctx.ob("C08.R6.columns", f"{mr.qualname}|pred/lower/upper from positions 0/1/2", okcols, mr.where(),
           "agg_pred <- [0], lower_a <- [1], upper_a <- [2]" if okcols else f"column mapping is {cols}")
    # ---- R7 the stored frame is this call's -------------------------------------------------------------------
    # (a), (b) and (c) of the statement are about the numbers the client RETURNS AND STORES for one call; a frame that is continued from
    # what an earlier summary call stored keeps that call's agg_pred next to this call's bounds. Same structural fact as C12.R7.
    n7 = ctx.borrow("C12", "C12.R7.", "C08.R7.", "the summary of one call would carry the prediction of another: not within its own bounds, not base + weights")
    ctx.sites("C08.R7", n7, 1, "summary-fresh obligation restated from C12.R7")
    # R8: "depends only on the contests" - the contest-level table whose margins and errors the summary reads is computed from the same unit
    # frames whatever other tables the request asked for, in whatever order (restated from C13.R9)
    n8 = ctx.borrow("C13", "C13.R9.frames", "C08.R8.same-frames", "the contest-level quantities the summary reads would depend on the other aggregates of the request",
                    key=lambda k: "get_aggregate_" in k)
    ctx.sites("C08.R8", n8, 6, "frame arguments of the aggregate steps, restated from C13.R9")
