"""C10 - outstanding and excluded units cannot influence anyone else's estimate.

 R1 fit provenance: in every estimator, the targets and weights of every regression come from the reporting frame (or from
    values derived from it and random draws) and the design matrix is the featurizer's active matrix of the training rows;
 R2 feature purity: the featurizer reads only the configured features / fixed effects and reporting, unit_category, postal_code -
    never a results-derived column;
 R3 row-locality (taint analysis): every read of a partial-count column (results_*, turnout_factor, percent_expected_vote) of a
    frame containing nonreporting rows stays row-local inside the unit-level model code: it never reaches a regression fit, a
    random draw, a reduction along the row axis, a matrix product or a grouping key (group sums of the aggregate functions are the
    property's own exception and are out of this scope); exceptions confirmed by reading are frozen below;
 R4 historical hiding: every result column handed to the model in a historical evaluation is replaced by 0 where the unit is below
    the reporting threshold, with the same comparator as the unit split (sibling agreement);
 R5 non-modelled units are removed from both model frames (decided by the truth table of C01 / C09; referenced here), and the
    outlier-detection models - regressions themselves - are fitted on candidate units only: no unit excluded by an explicit rule
    is a row of their input (R5.outlier-input);
 R6 group-locality: where a group table reads the counted votes of nonreporting units from a second table by position (gaussian
    aggregate floor inside assign(lambda)), both tables have the same row signature (sorted by the keys, fresh range index), so a
    partial count only reaches the floor of its own group;
 R8 count-blind: the frame a unit below the threshold is a row of (reporting / nonreporting / each exclusion reason) does not
    depend on its partial count - complete truth table over the count-derived atoms of the unit split;
 R7 pev-present: the data handler fills a missing percent_expected_vote of the joined frame with a number - a unit kept as not
    reporting must not carry a NaN into the bootstrap model's clip bounds, whose NaN the 0/1 group products spread to every group.
"""
from __future__ import annotations

import ast

from .. import ir, util
from ..model import AnalysisError
from ..taint import CrossRow, partial_name
from ..unitmodel import CM, E, GEM, NPM, NU, RU, col
from ..unitsplit import UnitSplit
from .. import rowsets as rs

BM = "elexmodel.models.BootstrapElectionModel"
FZ = "elexmodel.handlers.data.Featurizer"
SELF = ("param", "self")

# cross-row uses of partial counts that are harmless, confirmed by reading (one line of reason each)
R3_ALLOW = {
    # keys are construct keys with local variable names anonymised (util.anon_locals)
    "BootstrapElectionModel._extrapolate_unit_margin|for ? in nonreporting_units[?].postal_code.unique():":
        "only decides WHICH states are looped over; inside the loop every nonreporting unit is handled through its own filter "
        "(nonreporting_filter) and receives corrections computed from reporting units only",
}


def check(ctx):
    repo = ctx.repo
    ctx.explanation = (
        "Non-interference is an information-flow property over pairs of runs; it is decided as absence of flow: a taint analysis "
        "over the def-use terms of the unit-level model code (interprocedural through resolved callees, with frame roles and two "
        "taint kinds) shows that partial counts of not-yet-reporting rows never reach an operation that mixes rows; fit arguments "
        "are traced to the reporting frame; the featurizer's column reads are enumerated; historical hiding is matched against the "
        "unit split's comparator."
    )
    ctx.assumptions += ["element-wise numpy / pandas operations, keyed merges and per-row apply are row-local",
                        "aliasing of frames through object attributes (versioned_data_handler.data) is not followed; "
                        "compute_versioned_margin_estimate works per unit id (groupby on the unit id)",
                        "'bit-for-bit identical' is decided as absence of data flow, not numerically"]
    _fit_provenance(ctx)
    _feature_purity(ctx)
    _row_locality(ctx)
    _historical(ctx)
    _excluded(ctx)
    _group_locality(ctx)


# ---------------------------------------------------------------------------------------------------
def _depends_on(t, frame):
    return any(x == frame for x in ir.walk(t))


def _fit_provenance(ctx):
    repo = ctx.repo
    b = ctx.builder()
    n = 0
    for modn, qn in ((CM, "ConformalElectionModel.get_unit_predictions"), (CM, "ConformalElectionModel.get_unit_prediction_interval_bounds")):
        f = ctx.fn(modn, qn)
        s = b.summarize(f)
        for pc, t, node in s.effects:
            if not (t[0] == "call" and t[1] == ("attr", SELF, "fit_model")):
                continue
            n += 1
            model, X, y, tau, w = t[2][:5]
            for what, arg in (("targets", y), ("weights", w)):
                ok = _depends_on(arg, RU) and not _depends_on(arg, NU)
                ctx.ob("C10.R1.fit-data", f"{f.qualname}|{what} of {ir.show(tau, maxdepth=2)}-fit", ok, f.where(node),
                       f"{what} come from the reporting frame only" if ok else f"{what} = {ir.show(arg, maxdepth=3)} depend on nonreporting rows")
            # X: filter_to_active_features(prepare_data(concat([.., N]))[: n_train or train_rows])
            okx = X[0] == "call" and X[1][0] == "attr" and X[1][2] == "filter_to_active_features" and X[2][0][0] == "sub" and X[2][0][2][0] == "slice" \
                and X[2][0][2][1] == ("const", None)
            ctx.ob("C10.R1.fit-design", f"{f.qualname}|design of {ir.show(tau, maxdepth=2)}-fit", okx, f.where(node),
                   "design = active features of the leading (training) rows of the prepared matrix" if okx else f"design = {ir.show(X, maxdepth=3)}")
    # bootstrap
    bc = repo.cls(BM, "BootstrapElectionModel")
    cf = ctx.fn(BM, "BootstrapElectionModel.compute_bootstrap_errors")
    cs = b.summarize(cf, self_cls=bc)
    fits = []
    for top in [t for _, _, t, _ in cs.assigns] + [t for _, t, _ in cs.effects]:
        for x in ir.walk(top):
            if x[0] == "call" and x[1][0] == "attr" and x[1][2] == "fit" and x not in fits:
                fits.append(x)
    for x in fits:
        n += 1
        args = list(x[2]) + [v for k, v in x[3] if k not in ("#new",)]
        # direct reads of partial-count columns of the nonreporting frame inside a fit argument (flows through helper
        # calls are the subject of the taint analysis R3, where every fit is a sink)
        bad = [a for a in args if _direct_partial_read(a)]
        loc = b.loc.get(x)
        ctx.ob("C10.R1.fit-data", f"{cf.qualname}|{util.stmt_text(loc[1], 80) if loc else ir.show(x, maxdepth=2)[:70]}", not bad, cf.where(loc[1]) if loc else cf.where(),
               "no fit argument reads a partial count of a nonreporting unit" if not bad
               else f"fit argument {ir.show(bad[0], maxdepth=3)} reads partial counts of nonreporting units")
    # the primary regressions take targets and weights straight from the reporting frame
    # the first two fits (original models): y / weights arguments are columns of the reporting frame
    prim = {}
    for x in fits:
        args_ = list(x[2]) + [v for k, v in x[3] if k != "#new"]
        if any(a[0] == "call" and a[1][0] == "attr" and a[1][2] == "reshape" and a[1][1][0] == "attr" and a[1][1][1][0] == "sub" and a[1][1][1][1] == RU for a in args_):
            for a in args_:
                if a[0] == "call" and a[1][0] == "attr" and a[1][2] == "reshape" and a[1][1][0] == "attr" and a[1][1][1][0] == "sub":
                    prim[a[1][1][1][2]] = a
    okp = len(prim) == 3 and all(_depends_on(t, RU) and not _depends_on(t, NU) for t in prim.values())
    ctx.ob("C10.R1.fit-data", f"{cf.qualname}|primary targets and weights", okp, cf.where(),
           "normalised margin, turnout factor and weights of the training rows are columns of the reporting frame" if okp
           else "training targets / weights are not taken from the reporting frame")
    ctx.sites("C10.R1", n, 7, "regression fits of the three estimators")


def _direct_partial_read(a):
    for x in ir.walk(a):
        if x[0] == "sub" and partial_name(x[2]) and _depends_on(x[1], NU):
            return True
        if x[0] == "attr" and partial_name(("const", x[2])) and _depends_on(x[1], NU):
            return True
    return False


def _train_slice_only(a):
    """a depends on N only through the design matrix sliced to the training rows / active features"""
    from ..aggmodel import Indicator
    for x in ir.walk(a):
        if x == NU:
            continue
    # any occurrence of N must sit under  filter_to_active_features(prepare_data(concat([R, N, ..]))[:n_R])  or  ind[:nR+nN][:nR]
    ok = True

    def rec(t, shielded):
        nonlocal ok
        if t == NU and not shielded:
            ok = False
            return
        if not isinstance(t, tuple) or not t:
            return
        sh = shielded
        if t[0] == "sub" and t[2][0] == "slice" and t[2][1] == ("const", None) and t[2][2] != ("const", None):
            c = Indicator.count(t[2][2])
            if c is not None and set(k for k, v in c.items() if v) == {"R"}:
                sh = True
        for ch in ir.children(t):
            rec(ch, sh)

    rec(a, False)
    return ok


def _frame_names(m):
    """Local names that denote (a view / copy / row subset / expansion of) a data frame handed to the method."""
    a = m.node.args
    names = {x.arg for x in a.posonlyargs + a.args + a.kwonlyargs
             if x.annotation is not None and ast.unparse(x.annotation).endswith("DataFrame")}
    changed = True
    while changed:
        changed = False
        for n in util.own_nodes(m, ast.Assign):
            if len(n.targets) != 1 or not isinstance(n.targets[0], ast.Name) or n.targets[0].id in names:
                continue
            v = n.value
            root = None
            if isinstance(v, ast.Name):
                root = v
            elif isinstance(v, ast.Subscript) and isinstance(v.value, ast.Name):
                root = v.value
            elif isinstance(v, ast.Call) and isinstance(v.func, ast.Attribute) and v.func.attr == "copy" and isinstance(v.func.value, ast.Name):
                root = v.func.value
            elif isinstance(v, ast.Call) and isinstance(v.func, ast.Attribute) and isinstance(v.func.value, ast.Name) and v.func.value.id == "self" \
                    and v.args and isinstance(v.args[0], ast.Name):
                root = v.args[0]
            if root is not None and root.id in names:
                names.add(n.targets[0].id)
                changed = True
    return names


def _dirty_literals(cls, m, expr, frames, seen, depth=0):
    """String literals naming results-derived columns that can reach `expr` through local definitions, loop / comprehension
    variables and attributes of self (depth-bounded, flow-insensitive over-approximation)."""
    out = []
    if depth > 6:
        return out
    for n in ast.walk(expr):
        if isinstance(n, ast.Constant) and isinstance(n.value, str) and partial_name(("const", n.value)):
            out.append((n.value, m.where(n)))
        elif isinstance(n, ast.Name) and isinstance(n.ctx, ast.Load) and n.id not in frames and n.id != "self":
            k = (m.fq, n.id)
            if k in seen:
                continue
            seen.add(k)
            for d in ast.walk(m.node):
                src = None
                if isinstance(d, (ast.Assign, ast.AugAssign, ast.AnnAssign)) and d.value is not None:
                    tg = d.targets if isinstance(d, ast.Assign) else [d.target]
                    if any(isinstance(x, ast.Name) and x.id == n.id for t in tg for x in ast.walk(t)):
                        src = d.value
                elif isinstance(d, (ast.For, ast.comprehension)):
                    if any(isinstance(x, ast.Name) and x.id == n.id for x in ast.walk(d.target)):
                        src = d.iter
                elif isinstance(d, ast.Call) and isinstance(d.func, ast.Attribute) and d.func.attr in ("append", "extend") \
                        and isinstance(d.func.value, ast.Name) and d.func.value.id == n.id and d.args:
                    src = d.args[0]
                if src is not None:
                    out += _dirty_literals(cls, m, src, frames, seen, depth + 1)
        elif isinstance(n, ast.Attribute) and isinstance(n.value, ast.Name) and n.value.id == "self" and isinstance(n.ctx, ast.Load):
            k = ("self", n.attr)
            if k in seen:
                continue
            seen.add(k)
            for m2 in cls.methods.values():
                for d in util.own_nodes(m2, (ast.Assign, ast.AugAssign)):
                    tg = d.targets if isinstance(d, ast.Assign) else [d.target]
                    if any(isinstance(t, ast.Attribute) and isinstance(t.value, ast.Name) and t.value.id == "self" and t.attr == n.attr for t in tg):
                        out += _dirty_literals(cls, m2, d.value, _frame_names(m2), seen, depth + 1)
    return out


def _feature_purity(ctx):
    repo = ctx.repo
    cls = repo.cls(FZ, "Featurizer")
    allowed_attrs = {"reporting", "unit_category", "postal_code"}
    frame_methods = {"copy", "loc", "columns", "values", "sum", "astype", "iloc", "index", "shape", "mean", "std"}
    nreads = nsym = 0
    for m in cls.methods.values():
        frames = _frame_names(m)
        for n in util.own_nodes(m):
            name = None
            if isinstance(n, ast.Attribute) and isinstance(n.value, ast.Name) and n.value.id in frames and isinstance(n.ctx, ast.Load):
                if n.attr in frame_methods:
                    continue
                name = n.attr
            elif isinstance(n, ast.Subscript) and isinstance(n.value, ast.Name) and n.value.id in frames and isinstance(n.slice, ast.Constant):
                name = n.slice.value
            if name is None or not isinstance(name, str):
                continue
            nreads += 1
            ok = name in allowed_attrs or name == "intercept"
            ctx.ob("C10.R2.reads", f"{m.qualname}|df.{name}", ok and not partial_name(("const", name)), m.where(n),
                   f"featurizer reads '{name}' (not a results-derived column)" if ok
                   else f"featurizer reads column '{name}': covariates must not be derived from (partial) results")
        # computed selections: no literal naming a results-derived column may reach them
        for n in util.own_nodes(m, ast.Subscript):
            sl = None
            if isinstance(n.value, ast.Name) and n.value.id in frames and not isinstance(n.slice, ast.Constant):
                sl = n.slice
            elif isinstance(n.value, ast.Attribute) and n.value.attr in ("loc", "iloc") and isinstance(n.value.value, ast.Name) and n.value.value.id in frames:
                sl = n.slice
            if sl is None:
                continue
            nsym += 1
            dirty = _dirty_literals(cls, m, sl, frames, set())
            ctx.ob("C10.R2.symbolic", util.key(m, n), not dirty, m.where(n),
                   "the selected columns are computed from the configured features / fixed effects only" if not dirty
                   else f"a results-derived column name reaches this selection: {dirty[0][0]!r} ({dirty[0][1]})")
    ctx.sites("C10.R2", nreads, 4, "literal column reads in the featurizer")
    ctx.sites("C10.R2.symbolic", nsym, 8, "computed column selections in the featurizer")


def _outlier_inputs(ctx, us, items):
    """R5.outlier-input: the outlier-detection models are regressions too (their fit and their cut-off are computed from the
    counts of every row they are given), so the frame handed to them must not contain a unit that is excluded by one of the
    explicit rules (blocklist, zero baseline, turnout-factor limits): otherwise such a unit's count decides which OTHER units
    are flagged and dropped from the model.  Decided on the truth table: rows(outlier input) & rows(explicit exclusion) = {}."""
    SELF_ = ("param", "self")
    explicit = [(cond, fr, cat) for cond, fr, cat in items
                if not any(x[0] == "call" and x[1] == ("attr", SELF_, "_fit_outlier_detection_model") for x in ir.walk(fr))]
    calls = []
    for cond, fr, cat in items:
        for x in ir.walk(fr):
            if x[0] == "call" and x[1] == ("attr", SELF_, "_fit_outlier_detection_model") and x not in calls:
                calls.append(x)
    ctx.sites("C10.R5.outlier-input", len(calls), 2, "outlier-detection model fits in the unit split")
    excl = rs.Or(*[rs.And(cond, us.rs.member(fr)) for cond, fr, cat in explicit])
    for x in calls:
        inp = us.rs.member(x[2][0])
        ok, cex, n = rs.equivalent(rs.And(inp, excl), rs.F)
        what = x[2][1][1] if len(x[2]) > 1 and x[2][1][0] == "const" else "?"
        ctx.ob("C10.R5.outlier-input", f"{us.f.qualname}|outlier model on {what}: fitted on candidate units only", ok, us.f.where(),
               f"no unit excluded by an explicit rule ({', '.join(str(c) for _, _, c in explicit)}) is a row of the outlier model's input "
               f"({n} truth-table rows)" if ok
               else f"a unit with [{rs.show_asg({str(k): v for k, v in cex.items()})}] is excluded by an explicit rule and still takes part in fitting the "
                    f"outlier model on {what}: its count moves the cut-off and decides which other units are modelled")


def _group_locality(ctx):
    """R6: at group level a partial count may only reach the floor of ITS OWN group.  The gaussian aggregate reads the counted
    votes of nonreporting units from a second table inside assign(lambda); pandas pairs rows by index label, so the pairing is
    by group only when both tables list the same groups in the same order (decided by the frame algebra's row signatures)."""
    from ..frames import Frames
    from .c01 import model_builder
    from .c03 import floor_alignment
    mb = model_builder(ctx)
    gc = ctx.repo.cls(GEM, "GaussianElectionModel")
    gf = ctx.fn(GEM, "GaussianElectionModel.get_aggregate_prediction_intervals")
    gs = mb.summarize(gf, self_cls=gc)
    floor_alignment(ctx, "C10.R6.group-aligned", mb, Frames(mb), gf, gs)


def _row_locality(ctx):
    repo = ctx.repo
    inl = ctx.builder(inline=lambda c, call, callee: callee.name in ("_generate_nonreporting_bounds",))
    cr = CrossRow(ctx, inl)
    scope = [
        (CM, "ConformalElectionModel", "get_unit_predictions", {"nonreporting_units"}),
        (NPM, "NonparametricElectionModel", "get_unit_prediction_intervals", {"nonreporting_units"}),
        (GEM, "GaussianElectionModel", "get_unit_prediction_intervals", {"nonreporting_units"}),
        (BM, "BootstrapElectionModel", "compute_bootstrap_errors", {"nonreporting_units"}),
        (BM, "BootstrapElectionModel", "get_unit_prediction_intervals", {"nonreporting_units"}),
    ]
    for modn, cn, meth, nf in scope:
        cls = repo.cls(modn, cn)
        m = cls.lookup(meth)
        ctx.require(m is not None, f"{cn}.{meth} not found")
        if m.fq not in ctx.analysed_functions:
            ctx.analysed_functions.append(m.fq)
        cr.analyze(m, cls, nf)
    ctx.count("C10.R3.sources", len({(f.qualname, ir.show(t, maxdepth=2)) for f, t in cr.sources_seen}))
    ctx.count("C10.R3.cross_row_operations_checked", cr.sinks_seen)
    ctx.sites("C10.R3", len({(f.qualname, ir.show(t, maxdepth=2)) for f, t in cr.sources_seen}), 4, "reads of partial-count columns on frames with nonreporting rows")
    ctx.extra["functions_tainted_analysis"] = sorted({k[0].qualname for k in cr._done})
    used_allow = set()
    for fd in cr.findings:
        reason = R3_ALLOW.get(fd.anon)
        if reason:
            used_allow.add(fd.anon)
            ctx.ob("C10.R3.row-local", fd.key, True, fd.where, f"cross-row use allowed: {reason}")
        else:
            ctx.ob("C10.R3.row-local", fd.key, False, fd.where,
                   f"a partial count of a not-yet-reporting unit reaches an operation that mixes units ({fd.why}; taint: {', '.join(fd.kinds)}): "
                   f"changing that unit's partial count changes other units' estimates")
    if not [f for f in cr.findings if f.anon not in R3_ALLOW]:
        ctx.ob("C10.R3.row-local", "unit-level model code|no cross-row use of partial counts", True, "src/elexmodel/models",
               f"{cr.sinks_seen} fits / draws / row-axis reductions / products checked in {len(cr._done)} function contexts; partial counts reach "
               f"none of them (frozen exceptions: {len(used_allow)})")
    # built-in positive example
    import ast as _ast
    probe_src = "def probe(self, reporting_units, nonreporting_units):\n    m = nonreporting_units['results_turnout'].mean()\n    return reporting_units['x'] - m\n"
    from ..model import FuncInfo, Module
    mod = repo.mod(BM)
    tree = _ast.parse(probe_src)
    for p in _ast.walk(tree):
        for c in _ast.iter_child_nodes(p):
            c._parent = p
    pf = FuncInfo(mod, repo.cls(BM, "BootstrapElectionModel"), tree.body[0])
    cr2 = CrossRow(ctx, ctx.builder())
    cr2.analyze(pf, repo.cls(BM, "BootstrapElectionModel"), {"nonreporting_units"})
    ctx.selftest("C10.R3.row-local", bool(cr2.findings), "mean over nonreporting results must be flagged")


def _historical(ctx):
    f = ctx.fn("elexmodel.client", "HistoricalModelClient._format_historical_current_data")
    b = ctx.builder()
    s = b.summarize(f)
    ret = s.ret()
    ctx.require(ret[0] == "tuple" and len(ret[1]) == 2, f"{f.where()}: does not return (historical_current_data, preprocessed_data)")
    hd = ret[1][0]
    # columns handed on
    sel = hd
    while sel[0] == "call" and sel[1][0] == "attr" and sel[1][2] == "copy":
        sel = sel[1][1]
    ctx.require(sel[0] == "sub", f"{f.where()}: final column selection not found")
    lo = sel[1]
    okloop = lo[0] == "loopout" and lo[5] == ("param", "estimands")
    ctx.ob("C10.R4.every-estimand", f"{f.qualname}|hiding applied per requested estimand", okloop, f.where(),
           "the hiding loop runs over every requested estimand" if okloop else "historical results are not hidden for every requested estimand")
    if okloop:
        body = lo[4]
        ok = False
        detail = f"hiding step is {ir.show(body, maxdepth=4)}"
        # the results_e column after one pass, as a selection over the column before it (whatever spelling: assign + numpy.where,
        # Series.where / mask, .loc[rows, column] = 0)
        from ..frames import Frames, where_form
        prev = body
        while prev[0] != "loopin":
            prev = prev[1][1] if prev[0] == "call" and prev[1][0] == "attr" else (prev[1] if prev[0] in ("setitem", "setattr") else None)
            if prev is None:
                break
        if prev is not None:
            Fh = Frames(b, {prev: "H"})
            RES = ("fstr", (("const", "results_"), ("elem", ("param", "estimands"), lo[1])))
            try:
                v = Fh.col(body, RES)
            except AnalysisError as e:
                v = None
                detail = f"hiding step not resolved: {e}"
            wf = where_form(v) if v is not None else None
            if wf is not None:
                c_, a_, b_ = wf
                thr = ("param", "percent_reporting_threshold")
                pev = [("col", prev, ("const", "percent_expected_vote"))]
                # the expected vote may be read from the merged frame before the loop: the same column
                cond_ok = c_[0] == "cmp" and c_[1] == ">=" and c_[3] == thr and (c_[2] in pev or (c_[2][0] == "col" and c_[2][2] == ("const", "percent_expected_vote")) or
                                                                               (c_[2][0] == "sub" and c_[2][2] == ("const", "percent_expected_vote")))
                ok = cond_ok and a_ == ("col", prev, RES) and b_ == ("lit", 0)
                detail = ("results_e := results_e where percent_expected_vote >= threshold, else 0: same comparator as the unit split" if ok
                          else f"hiding is where({ir.show(c_, maxdepth=4)}, {ir.show(a_, maxdepth=3)}, {ir.show(b_, maxdepth=3)}) (the unit split treats 'percent_expected_vote >= threshold' as reporting)")
            elif v is not None:
                detail = f"results_e after the hiding step is {ir.show(v, maxdepth=4)}: not a selection"
        ctx.ob("C10.R4.comparator", f"{f.qualname}|hidden where below the threshold (>= as in get_units)", ok, f.where(), detail)
    # sibling: the unit split's comparator
    us = UnitSplit(ctx)
    _, rels = rs.variables(us.fR)
    pe = [r for r in rels if r[1] == "percent_expected_vote"]
    okr = bool(pe) and rs.equivalent(us.fN, rs.And(us.fN, rs.Not(rs.compare(pe[0][1], pe[0][2], {"eq", "gt"}, never_missing=us.never_missing))))[0]
    ctx.ob("C10.R4.sibling", "CombinedDataHandler.get_units|nonreporting means percent_expected_vote < threshold", okr, us.f.where(),
           "get_units: nonreporting <=> not at or above the threshold (below it, or missing), so '>= threshold' is exactly the reporting side" if okr
           else "get_units no longer splits at '>= threshold'")
    # every result column passed on is one that was hidden
    cols = sel[2]
    names = []
    for x in ir.walk(cols):
        if x[0] == "comp" or (x[0] == "const" and isinstance(x[1], str)):
            names.append(ir.show(x, maxdepth=4))
    passed = [n for n in names if "results_" in n]
    extra = [n for n in passed if n == "'results_turnout'"]
    ctx.extra["historical_columns_passed"] = passed
    if extra:
        # observation, not an obligation: the estimates of the vote-count estimators do not read turnout-derived columns of
        # nonreporting units (R3), so this visibility does not reach an estimate; see DESIGN.md O4
        ctx.note("observation O4: results_turnout is passed to the model in historical runs and is hidden only when 'turnout' is an "
                 "estimand; no estimate depends on it (R3), so this is not counted against C10")


def _count_blind(ctx, us, items):
    """R8.count-blind: WHICH frame a unit below the reporting threshold is a row of must not depend on its partial count. Frame
    membership is shared state: the bootstrap model assigns its random draws and indicator rows by position in the nonreporting
    frame, so a unit that leaves (or enters) that frame because of its own partial count shifts the draws of every later unit.
    Decided on the truth table of the unit split: over all per-unit assignments in which the unit is below the threshold, the
    membership formulas of the reporting frame, the nonreporting frame and every exclusion reason take the same value for every
    valuation of the count-derived atoms (comparisons of turnout_factor / results_* columns, their missing-value atoms and the
    outlier-model flags) once the other atoms are fixed."""
    forms = [("reporting frame", us.fR), ("nonreporting frame", us.fN)] + \
            [(f"exclusion '{cat}'", rs.And(cond, us.rs.member(fr))) for cond, fr, cat in items]
    bools, rels = rs.variables(*[f for _, f in forms])
    pev = [k for k in rels if k[1] == "percent_expected_vote"]
    if len(pev) != 1 and any(not o.ok for o in ctx.obs):
        # the threshold comparison itself has changed and is already reported (R4.sibling): "below the threshold" has no reading here
        ctx.note("C10.R8.count-blind not evaluated: the unit split does not compare percent_expected_vote with the threshold in the documented "
                 "form (reported by another rule of this check)")
        return
    if len(pev) != 1:
        raise AnalysisError(f"{us.f.where()}: the unit split compares percent_expected_vote with {len(pev)} bounds, expected the threshold only")

    def counted(name):
        if isinstance(name, tuple):  # relation key ('rel', column, bound)
            return name[1] != "percent_expected_vote" and partial_name(("const", name[1]))
        if name.startswith("na:"):
            return name[3:] != "percent_expected_vote" and partial_name(("const", name[3:]))
        return name.startswith("outlier:")
    cb, cr = [b_ for b_ in bools if counted(b_)], [r for r in rels if counted(r)]
    ob_, orr = [b_ for b_ in bools if not counted(b_)], [r for r in rels if not counted(r)]
    ctx.sites("C10.R8.count-blind", len(cb) + len(cr), 3, "count-derived atoms of the unit split (turnout-factor limits, outlier flags)")
    import itertools
    for what, f in forms:
        cf = rs.compile_formula(f)
        bad, n = None, 0
        for base in rs.assignments(ob_, orr):
            if base[pev[0]] != "lt":
                continue
            seen = {}
            for bv in itertools.product([False, True], repeat=len(cb)):
                for rv in itertools.product(["lt", "eq", "gt"], repeat=len(cr)):
                    a = dict(base); a.update(zip(cb, bv)); a.update(zip(cr, rv))  # noqa: E702
                    n += 1
                    v = cf(a)
                    seen.setdefault(v, a)
                    if len(seen) == 2:
                        break
                if len(seen) == 2:
                    break
            if len(seen) == 2:
                bad = seen
                break
        if bad is None:
            ctx.ob("C10.R8.count-blind", f"{us.f.qualname}|{what}: membership of a unit below the threshold ignores its count", True, us.f.where(),
                   f"for a unit below the reporting threshold no count-derived atom decides membership ({n} truth-table rows)")
        else:
            diff = sorted(str(k) for k in bad[True] if bad[True][k] != bad[False][k])
            ctx.ob("C10.R8.count-blind", f"{us.f.qualname}|{what}: membership of a unit below the threshold ignores its count", False, us.f.where(),
                   f"a unit below the reporting threshold with [{rs.show_asg({str(k): v for k, v in bad[True].items()})}] is a row of the {what}, "
                   f"and is not once {', '.join(diff)} change(s): its partial count decides which frame it is in, and with it the position "
                   "(random draws, indicator rows) of every other unit of that frame")


def _excluded(ctx):
    us = UnitSplit(ctx)
    unexpected, nonmod, wrappers, items = us.nonmodelled()
    fNm = us.rs.member(nonmod)
    fUx = us.rs.member(unexpected)
    _outlier_inputs(ctx, us, items)
    # R7: the group totals of the bootstrap model are 0/1-indicator matrix products over ALL nonreporting units, and 0 * NaN is NaN:
    # one unit with a NaN prediction reaches every group. The per-unit clip bounds are computed from percent_expected_vote, which
    # comes from the feed through a LEFT join and can be missing for a unit that is kept as not reporting - so the joined column has
    # to be filled with a number when the data handler is built (F32)
    pev_ok = "percent_expected_vote" in us.never_missing
    ini_ = ctx.fn("elexmodel.handlers.data.CombinedData", "CombinedDataHandler.__init__")
    ctx.ob("C10.R7.pev-present", f"{ini_.qualname}|a unit without an expected vote in the feed gets a number", pev_ok, ini_.where(),
           "the joined percent_expected_vote is filled with a number: no unit carries a NaN into the bounds / group products of the bootstrap model" if pev_ok
           else "percent_expected_vote of a baseline unit can stay missing after the join: kept as 'not reporting', it gets NaN clip bounds in the "
                "bootstrap model, a NaN prediction, and the 0/1 indicator products spread that NaN to every group (nan_to_num then reports margin 0 "
                "and a NaN turnout for the state and for every county)")
    _count_blind(ctx, us, items)
    for name, fr in (("reporting", us.fR), ("nonreporting", us.fN)):
        ok1, cex, n = rs.equivalent(rs.And(fr, fNm), rs.F)
        ok2, cex2, n2 = rs.equivalent(rs.And(fr, fUx), rs.F)
        ctx.ob("C10.R5.removed", f"{us.f.qualname}|{name} frame excludes non-modelled and unexpected units", ok1 and ok2, us.f.where(),
               f"no blocklisted / zero-baseline / outlier / unexpected unit is a row of the {name} frame ({n + n2} truth-table rows)" if ok1 and ok2
               else f"a non-modelled or unexpected unit can be a row of the {name} frame: it would take part in fitting / prediction")
