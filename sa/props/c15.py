"""C15 - gaussian intervals use a group's own calibration if big enough, else its parent.

 R1 recursion of GaussianModel.fit: threshold T = min(10, number of calibration units); if the smallest group count is < T, the
    result is concat(fit one aggregation level up on all data, fit at this level on the groups with count >= T) - the two
    selections are complementary - else the per-group fit; counts cover groups from calibration AND nonreporting frames (outer
    join, missing counts = 0);
 R2 an empty calibration set returns the empty model;
 R3 matching in GaussianElectionModel.get_aggregate_prediction_intervals: first an inner join on all keys; then for
    i = 1 .. len(aggregate): bounds not matched so far x models whose last i key levels are null, inner on the parent keys, cross
    join at the top with at most one model; matched rows accumulate;
 R4 statistics and formulas: centre = baseline-weighted median, scale = beta x bootstrapped sigma at (3+alpha)/4, inflation =
    sum x^2 / (sum x)^2; with z = ppf((3+alpha)/4) of the STANDARD normal: unit correction = mu + z sqrt(infl + 1) sigma; aggregate
    bound = S(w L) - (W mu_l + z sigma_l sqrt(SS + infl W^2)) and S(w U) + (W mu_u + z sigma_u sqrt(SS + infl W^2)); the
    location-scale form is finite for sigma = 0, handing the scale to ppf(q, loc, scale) is NaN there and is reported (F27);
 R5 weighted median: sort by value, accumulate weights, first element if its weight exceeds 1/2, average of the two neighbours when
    the cumulative weight hits 1/2 exactly, else the next element.
Not decided: finiteness of the bootstrapped scale itself (numeric); a scale of exactly 0 is covered by R4.
"""
from __future__ import annotations

import ast
import re

from .. import ir, symexpr, util
from ..frames import Frames
from ..model import AnalysisError
from .c01 import model_builder

GMOD = "elexmodel.distributions.GaussianModel"
GEM = "elexmodel.models.GaussianElectionModel"
MU = "elexmodel.utils.math_utils"
SELF = ("param", "self")
CONF = ("param", "conformalization_data")
AGG = ("param", "aggregate")
E = ("param", "estimand")
NONE = ("const", None)


def _kw(t, name, default=None):
    return dict(t[3]).get(name, default)


def check(ctx):
    repo = ctx.repo
    ctx.explanation = (
        "The fallback is a recursion plus a multi-step merge. Both are read as def-use terms: the recursion's trigger, the two "
        "recursive calls and their data selections are matched structurally (complementarity of '< T' and '>= T' included); the "
        "matching loop is matched per iteration (slice arithmetic compared as rational functions); the bound formulas and the "
        "calibration statistics are compared with their definitions after normalisation."
    )
    ctx.assumptions += ["pandas merge / isnull / query semantics; scipy.stats.norm.ppf(q, loc, scale)",
                        "the recursion terminates because the key list shrinks (small groups) or all remaining groups are large"]
    cls = repo.cls(GMOD, "GaussianModel")
    f = ctx.fn(GMOD, "GaussianModel.fit")
    b = ctx.builder(inline=lambda c, call, callee: callee.name == "_get_n_units_per_group")
    s = b.summarize(f, self_cls=cls)
    rets = s.returns
    ctx.sites("C15.R1", len(rets), 2, "returns of GaussianModel.fit")
    # ---- R2 -----------------------------------------------------------------------------------------
    ncal = ir.nrows(CONF)
    # `if a: return x` + rest and `if a: return x else: rest` give the same path conditions, so "the return without a condition" does not
    # exist: the main return is the one that fits something, the early one(s) the rest
    main_ = [r for r in rets if any(x[0] == "call" and x[1][0] == "attr" and x[1][2] in ("_fit", "fit") for x in ir.walk(r[1]))]
    e = [r for r in rets if r not in main_]
    ok2 = any(pc[-1][1] and pc[-1][0] == ("cmp", "==", ncal, ("const", 0)) and t == ir.repo_call(("attr", SELF, "_empty_gaussian_model"), [("conformalization_data", CONF), ("aggregate", AGG)])
              for pc, t, n in e)
    ctx.ob("C15.R2.empty", f"{f.qualname}|no calibration units => empty model", ok2, f.where(),
           "fit returns the empty model when there are no calibration units" if ok2 else "no early return of the empty model for an empty calibration set")
    # the value of fit as a decision tree over its return conditions, below the test for an empty calibration set
    R = s.ret()
    EMPTY = ("cmp", "==", ncal, ("const", 0))
    def _is_empty_model(t):
        return t[0] == "call" and t[1][0] == "attr" and t[1][2] == "_empty_gaussian_model"
    if R[0] == "phi" and (_is_empty_model(R[2]) or _is_empty_model(R[3])):
        main = [R[3] if _is_empty_model(R[2]) else R[2]]  # (whether the test is the right one is R2's question)
    else:
        main = [R]
    ctx.require(len(main) == 1 and main[0][0] == "phi", f"{f.where()}: main return is not 'small groups ? combined : per-group fit'")
    COND, COMB, PER = main[0][1], main[0][2], main[0][3]
    # ---- R1 -----------------------------------------------------------------------------------------
    T = ("call", ("global", "min"), (("const", 10), ncal), ())
    # which branch is the fallback (the one that concatenates two fits) is read from the branches, not from their order; the test is
    # then normalised to "fallback iff <smallest count> < <threshold>". Complementing an ordering comparison is exact here: the counts
    # are integers (R1.counts: a size per group, missing = 0), never NaN
    _has_concat = lambda t_: any(x[0] == "call" and x[1][0] == "global" and x[1][1].endswith("concat") for x in ir.walk(t_))  # noqa: E731
    CN = COND
    if _has_concat(PER) and not _has_concat(COMB):
        COMB, PER = PER, COMB
        if CN[0] == "cmp" and CN[1] in ("<", "<=", ">", ">="):
            CN = ("cmp", {"<": ">=", ">=": "<", ">": "<=", "<=": ">"}[CN[1]], CN[2], CN[3])
        else:
            CN = ("un", "not", CN)
    if CN[0] == "cmp" and CN[1] in (">", ">="):  # `min(10, n) > counts.min()` is the same test as `counts.min() < min(10, n)`
        CN = ("cmp", {">": "<", ">=": "<="}[CN[1]], CN[3], CN[2])
    COND = CN
    okc = CN[0] == "cmp" and CN[1] == "<" and CN[3] in (T, ("call", ("global", "min"), (ncal, ("const", 10)), ())) and CN[2][0] == "call" \
        and ir.show(CN[2][1]).endswith("min") and CN[2][2][0][0] == "sub" and CN[2][2][0][2] == ("const", "n")
    ctx.ob("C15.R1.trigger", f"{f.qualname}|fallback iff min group count < min(10, n_cal)", okc, f.where(),
           "the fallback is taken when the smallest group has fewer than min(10, all calibration units) calibration units" if okc
           else f"trigger is {ir.show(COND, maxdepth=5)}")
    COUNTS = COND[2][2][0][1] if okc else None
    if COUNTS is not None:
        cnt, unit = COUNTS, None
        if COUNTS[0] == "phi":  # the unit level is the branch without grouping keys, whichever polarity the test is written / canonicalised in
            c_ = COUNTS[1]
            neg = c_[0] == "un" and c_[1] == "not"
            unit, cnt = (COUNTS[2], COUNTS[3]) if neg else (COUNTS[3], COUNTS[2])
        oku = unit == ("dict", ((("const", "n"), ncal),))
        ctx.ob("C15.R1.counts-unit", f"{f.qualname}|unit level: one group with all calibration units", oku, f.where(),
               "with no aggregate the single count is the number of calibration units" if oku else f"unit-level count is {ir.show(unit, maxdepth=3) if unit else None}")
        okcnt = False
        detail = f"group counts are {ir.show(cnt, maxdepth=4)}"
        if cnt[0] == "call" and cnt[1][0] == "attr" and cnt[1][2] == "fillna" and cnt[2] and cnt[2][0] == ("dict", ((("const", "n"), ("const", 0)),)):
            mg = cnt[1][1]
            if mg[0] == "call" and mg[1][0] == "attr" and mg[1][2] == "merge" and _kw(mg, "how") == ("const", "outer") and _kw(mg, "on") == AGG:
                left, right = ir.show(mg[1][1], maxdepth=8), ir.show(mg[2][0], maxdepth=8)
                okcnt = ("nonreporting_units.groupby(aggregate).size()" in left and "conformalization_data.groupby(aggregate).size().reset_index(name='n')" in right) or \
                        ("nonreporting_units.groupby(aggregate).size()" in right and "conformalization_data.groupby(aggregate).size().reset_index(name='n')" in left)
                detail = ("counts = calibration units per group, outer-joined with the groups of the nonreporting units, missing = 0" if okcnt else detail)
        ctx.ob("C15.R1.counts", f"{f.qualname}|counts over groups with calibration OR nonreporting units", okcnt, f.where(), detail)
    okcomb = COMB[0] == "call" and COMB[1][0] == "attr" and COMB[1][2] == "reset_index" and ir.show(COMB[1][1][1]).endswith("concat") and COMB[1][1][2][0][0] == "list" \
        and len(COMB[1][1][2][0][1]) == 2
    ctx.require(okcomb, f"{f.where()}: combined model is not concat([small-group fit, large-group fit])")
    parts = COMB[1][1][2][0][1]
    small = next((p for p in parts if _kw(p, "aggregate") == ("sub", AGG, ("slice", NONE, ("const", -1), NONE))), None)
    large = next((p for p in parts if _kw(p, "aggregate") == AGG), None)
    oksm = small is not None and small[1] == ("attr", SELF, "fit") and small[2][:4] == (CONF, ("param", "reporting_units"), ("param", "nonreporting_units"), E) \
        and _kw(small, "alpha") == ("param", "alpha") and _kw(small, "top_level") == ("const", False)
    ctx.ob("C15.R1.parent", f"{f.qualname}|small groups: fit one level up on all calibration data", oksm, f.where(),
           "small groups use fit(all calibration data, aggregate[:-1]) (state, then all units together)" if oksm
           else "the fallback model is not the fit one aggregation level up on all calibration data")
    oklg = False
    detail = "large-group fit not found"
    if large is not None and large[1] == ("attr", SELF, "fit"):
        cl = large[2][0]
        txt = ir.show(cl, maxdepth=10)
        # the selection of the large groups: rows of the count table with n >= the same threshold (query string or mask: one term)
        THR = (T, ("call", ("global", "min"), (ncal, ("const", 10)), ()))
        sel_ok = any(x[0] == "sub" and x[2][0] == "cmp" and x[2][1] == ">=" and x[2][3] in THR
                     and x[2][2] in (("attr", x[1], "n"), ("sub", x[1], ("const", "n"))) for x in ir.walk(cl))
        join_ok = ".merge(conformalization_data, how='inner', on=aggregate)" in txt and txt.endswith(".drop(columns=['n'])")
        semi = all(x[0] == "call" and ir.show(x[1]).endswith("semi_join") and x[2][1] == cl and _kw(x, "on") == AGG for x in large[2][1:3])
        rn = semi and large[2][1][2][0] == ("param", "reporting_units") and large[2][2][2][0] == ("param", "nonreporting_units")
        oklg = sel_ok and join_ok and rn and _kw(large, "alpha") == ("param", "alpha") and _kw(large, "top_level") == ("const", False)
        detail = ("large groups (count >= the same threshold) keep their own fit on their own calibration / reporting / nonreporting units" if oklg
                  else f"large-group selection: threshold complementary={sel_ok}, restricted to calibration data of those groups={join_ok}, frames semi-joined={rn}")
    ctx.ob("C15.R1.own", f"{f.qualname}|large groups: own fit, complementary selection", oklg, f.where(), detail)
    okper = PER == ir.repo_call(("attr", SELF, "_fit"), [("conformalization_data", CONF), ("estimand", E), ("aggregate", AGG), ("alpha", ("param", "alpha"))])
    ctx.ob("C15.R1.leaf", f"{f.qualname}|all groups large: per-group statistics", okper, f.where(),
           "when every group is large enough the per-group statistics are computed directly" if okper else f"leaf is {ir.show(PER, maxdepth=3)}")

    # ---- R4 statistics --------------------------------------------------------------------------------
    ff = ctx.fn(GMOD, "GaussianModel._fit")
    fs = ctx.builder().summarize(ff, self_cls=cls)
    lam = None
    for x in ir.walk(fs.ret()):
        if x[0] == "call" and x[1][0] == "attr" and x[1][2] == "apply" and x[2] and x[2][0][0] in ("lambda", "closure"):
            lam = x
    ctx.require(lam is not None, f"{ff.where()}: groupby(..).apply(lambda ..) not found")
    fb = None
    bb = ctx.builder()
    fs2 = bb.summarize(ff, self_cls=cls)
    for x in ir.walk(fs2.ret()):
        if x[0] == "call" and x[1][0] == "attr" and x[1][2] == "apply" and x[2] and x[2][0][0] in ("lambda", "closure"):
            fb = bb.apply_callable(x[2][0], [("param", "g")])
    ctx.require(fb is not None and fb[0] == "call" and fb[2] and fb[2][0][0] == "dict", f"{ff.where()}: per-group statistics are not a pd.Series({{..}})")
    d = dict((a[1], v) for a, v in fb[2][0][1] if a[0] == "const")
    G = ("param", "g")
    last = ("sub", G, ir.I(("fstr", (("const", "last_election_results_"), E))))
    q34 = symexpr.Normalizer().norm(symexpr.parse("(3 + alpha) / 4"))
    ok_inf = d.get("var_inflate") == ir.repo_call(("global", f"{MU}:compute_inflate"), [("x", last)])
    ctx.ob("C15.R4.inflate", f"{ff.qualname}|var_inflate from the group's baseline weights", ok_inf, ff.where(),
           "var_inflate = compute_inflate(baseline votes of the group's calibration units)" if ok_inf else f"var_inflate = {ir.show(d.get('var_inflate'), maxdepth=3)}")
    for side in ("lower", "upper"):
        mu = d.get(f"mu_{side}_bound")
        vals = ("attr", ("sub", G, ("const", f"{side}_bounds")), "values")
        okm = (mu is not None and mu[0] == "call" and mu[1] == ("global", f"{MU}:weighted_median") and mu[2][0] == vals
               and ir.show(mu[2][1], maxdepth=8).replace(" ", "") == ir.show(("attr", ("bin", "/", last, ("call", ("global", "numpy.sum"), (last,), ())), "values"), maxdepth=8).replace(" ", ""))
        ctx.ob("C15.R4.centre", f"{ff.qualname}|mu_{side} = baseline-weighted median of the {side} scores", okm, ff.where(),
               f"mu_{side}_bound = weighted_median({side}_bounds, baseline / sum(baseline))" if okm else f"mu_{side}_bound = {ir.show(mu, maxdepth=4) if mu else None}")
        sg = d.get(f"sigma_{side}_bound")
        oks = False
        cands = [r_ for l_, r_ in (ir.comm(sg, "*") if sg is not None else []) if l_ == ("attr", SELF, "beta") and r_[0] == "call" and r_[1] == ("global", f"{MU}:boot_sigma")]
        if cands:
            c = cands[0]
            conf_q = _kw(c, "conf")
            oks = (c[2][0] == vals and conf_q is not None and symexpr.Normalizer(leaf=lambda x: x[1] if x[0] == "param" else None).norm(conf_q) == q34
                   and _kw(c, "winsorize") == ("attr", SELF, "winsorize"))
        ctx.ob("C15.R4.scale", f"{ff.qualname}|sigma_{side} = beta x bootstrapped sigma at (3+alpha)/4", oks, ff.where(),
               f"sigma_{side}_bound = beta * boot_sigma({side}_bounds, conf=(3+alpha)/4, winsorize)" if oks else f"sigma_{side}_bound = {ir.show(sg, maxdepth=4) if sg else None}")
    ci = ctx.fn(MU, "compute_inflate")
    civ = symexpr.Normalizer(leaf=lambda x: "x" if x == ("param", "x") else None).norm(ctx.builder().summarize(ci).ret())
    want = symexpr.Normalizer().norm(symexpr.parse("sum(x**2) / sum(x)**2"))
    ctx.ob("C15.R4.inflate-def", "compute_inflate|sum x^2 / (sum x)^2", civ == want, ci.where(),
           "compute_inflate(x) = sum(x^2) / (sum x)^2" if civ == want else f"compute_inflate is {civ.key()}")

    # unit-level correction
    gcls = repo.cls(GEM, "GaussianElectionModel")
    uf = ctx.fn(GEM, "GaussianElectionModel.get_unit_prediction_intervals")
    ub = ctx.builder()
    us = ub.summarize(uf, self_cls=gcls)
    Nq = symexpr.Normalizer(leaf=lambda x: x[1] if x[0] == "param" else None)
    # the correction is the quantile of N(mu, sd^2) in location-scale form mu + sd * z, z = ppf((3 + alpha) / 4) of the STANDARD
    # normal: scipy's ppf(q, loc, scale) is the same number for sd > 0 but NaN for sd = 0 (identical calibration scores, beta = 0),
    # and C15 promises a finite interval (F27)
    def gleaf(x):
        if x[0] == "param":
            return x[1]
        cr_ = ir.column_ref(x)
        if cr_ is not None and cr_[1] in ("var_inflate",) + tuple(f"{p_}_{s_}_bound" for p_ in ("mu", "sigma") for s_ in ("lower", "upper")):
            return cr_[1]
        return None

    Ng = symexpr.Normalizer(leaf=gleaf)
    nfound = 0
    for side in ("lower", "upper"):
        cands = [t for pc, name, t, n in us.assigns
                 if any(ir.column_ref(x) is not None and ir.column_ref(x)[1] == f"mu_{side}_bound" for x in ir.walk(t))
                 and any(x[0] == "call" and ir.show(x[1]).endswith("ppf") for x in ir.walk(t))]
        if not cands:
            continue
        nfound += 1
        t = min(cands, key=lambda x: len(ir.show(x, maxdepth=30)))
        want = symexpr.Normalizer().norm(symexpr.parse(
            f"mu_{side}_bound + ppf((3 + alpha) / 4) * sqrt(var_inflate + 1) * sigma_{side}_bound"))
        try:
            got = Ng.norm(t)
            ok = got == want
            gk = got.key()
        except AnalysisError as ex:
            ok, gk = False, str(ex)
        scaled = [x for x in ir.walk(t) if x[0] == "call" and ir.show(x[1]).endswith("ppf") and (_kw(x, "scale") is not None or len(x[2]) > 2)]
        ctx.ob("C15.R4.unit-correction", f"{uf.qualname}|{side} correction", ok, uf.where(),
               f"{side} correction = mu_{side} + ppf((3+alpha)/4) * sqrt(var_inflate + 1) * sigma_{side} (finite for sigma = 0)" if ok
               else (f"{side} correction passes the scale to ppf(): NaN when sigma_{side} is 0 (identical calibration scores, beta = 0)" if scaled
                     else f"{side} correction = {gk}"))
    ctx.sites("C15.R4.unit", nfound, 2, "normal quantile corrections at unit level")
    gmcall = [t for pc, name, t, n in us.assigns if t[0] == "call" and t[1][0] == "attr" and t[1][2] == "fit" and "GaussianModel" in ir.show(t[1][1], maxdepth=2)]
    oku = bool(gmcall) and _kw(gmcall[0], "aggregate") == ("list", ()) and _kw(gmcall[0], "alpha") == ("param", "alpha")
    ctx.ob("C15.R4.unit-model", f"{uf.qualname}|unit model = all calibration units together", oku, uf.where(),
           "unit intervals use one model fitted on all calibration units (aggregate=[]) at this alpha" if oku else "unit-level gaussian model is not fitted with aggregate=[]")

    # aggregate bound formulas
    mb = model_builder(ctx)
    af = ctx.fn(GEM, "GaussianElectionModel.get_aggregate_prediction_intervals")
    as_ = mb.summarize(af, self_cls=gcls)
    mbt = None
    for _, _, t_, _ in as_.assigns:
        if t_[0] == "sub" and t_[1][0] == "call" and t_[1][1][0] == "attr" and t_[1][1][2] == "assign" and any(k_ in ("lb", "ub") for k_, _v in t_[1][3]):
            mbt = t_
    ctx.require(mbt is not None and mbt[0] == "sub", f"{af.where()}: selection of the lb / ub columns not found")
    F = Frames(mb)
    matched = mbt[1]
    base = matched
    while base[0] == "call" and base[1][0] == "attr" and base[1][2] == "assign":
        base = base[1][1]
    F.bases[base] = "matched bounds + models"

    def leaf(t):
        if t[0] == "col" and t[1] == base and t[2][0] == "const":
            return t[2][1]
        if t[0] == "param":
            return t[1]
        return None

    Na = symexpr.Normalizer(leaf=leaf)
    exp = {"lb": "nonreporting_aggregate_lower_bound - (nonreporting_weight_sum * mu_lower_bound + ppf((3 + alpha) / 4) * "
                 "sigma_lower_bound * sqrt(nonreporting_weight_ssum + var_inflate * nonreporting_weight_sum**2))",
           "ub": "nonreporting_aggregate_upper_bound + (nonreporting_weight_sum * mu_upper_bound + ppf((3 + alpha) / 4) * "
                 "sigma_upper_bound * sqrt(nonreporting_weight_ssum + var_inflate * nonreporting_weight_sum**2))"}
    for colname, spec in exp.items():
        try:
            v = F.col(matched, ("const", colname))
            got = Na.norm(v)
            want = symexpr.Normalizer().norm(symexpr.parse(spec))
            ok = got == want
            detail = f"{colname} = {spec}" if ok else f"{colname} is {got.key()}"
            if not ok and "scale=" in got.key():
                detail = (f"{colname} passes the scale to ppf(): NaN when the group's sigma is 0 (identical calibration scores, beta = 0), "
                          f"which the later fillna turns into a zero-width interval at the counted votes; {detail}")
        except AnalysisError as ex:
            ok, detail = False, f"{colname}: {ex}"
        ctx.ob("C15.R4.aggregate-bound", f"{af.qualname}|{colname}", ok, af.where(), detail)
    # the summed unit bounds and weights per group
    bt = None
    for pc, name, t, n in as_.assigns:
        if t[0] == "call" and t[1][0] == "attr" and t[1][2] == "reset_index" and t[1][1][0] == "call" and t[1][1][1][0] == "attr" \
                and t[1][1][1][2] == "apply" and "nonreporting_weight_ssum" in ir.show(t, maxdepth=3) + str(t)[:0]:
            bt = t
        elif bt is None and t[0] == "call" and t[1][0] == "attr" and t[1][2] == "reset_index" and t[1][1][0] == "call" and t[1][1][1][0] == "attr" \
                and t[1][1][1][2] == "apply" and t[1][1][1][1][0] == "call" and t[1][1][1][1][1][0] == "attr" and t[1][1][1][1][1][2] == "groupby" \
                and t[1][1][1][1][1][1][0] in ("call", "setitem"):
            bt = t
    okb = False
    if bt is not None:
        ap = bt[1][1]
        if ap[0] == "call" and ap[1][0] == "attr" and ap[1][2] == "apply" and ap[2] and ap[2][0][0] in ("lambda", "closure"):
            body2 = mb.apply_callable(ap[2][0], [("param", "g")])
            dd = dict((a[1], v) for a, v in body2[2][0][1]) if body2[0] == "call" and body2[2] and body2[2][0][0] == "dict" else {}
            Gp = ("param", "g")
            Lt = ir.I(("sub", Gp, ("fstr", (("const", "last_election_results_"), ("param", "estimand")))))

            def _sum_of(t):
                return t[2][0] if t is not None and t[0] == "call" and t[1] == ("global", "numpy.sum") and len(t[2]) == 1 else None

            def _weighted(t, colname):
                x = _sum_of(t)
                return x is not None and any(a_ == Lt and b_ in (("attr", Gp, colname), ("sub", Gp, ("const", colname))) for a_, b_ in ir.comm(x, "*"))

            ss = _sum_of(dd.get("nonreporting_weight_ssum"))
            ok_ss = ss is not None and (ss == ("call", ("global", "numpy.power"), (Lt, ("const", 2)), ()) or ss == ("bin", "**", Lt, ("const", 2))
                                        or ss == ("bin", "*", Lt, Lt))
            okb = (_weighted(dd.get("nonreporting_aggregate_lower_bound"), "nonreporting_lower_bounds")
                   and _weighted(dd.get("nonreporting_aggregate_upper_bound"), "nonreporting_upper_bounds")
                   and _sum_of(dd.get("nonreporting_weight_sum")) == Lt and ok_ss)
            gb = ap[1][1]
            okb = okb and gb[0] == "call" and gb[1][0] == "attr" and gb[1][2] == "groupby" and gb[2] == (AGG,)
            src = gb[1][1] if okb else None
            if okb:
                # the grouped frame: the nonreporting units with this level's unadjusted bounds as two more columns (assign(..) and
                # copy() + column assignment are one form in the def-use engine)
                kws, base_ = {}, src
                while base_[0] == "setitem":
                    if base_[2][0] == "const":
                        kws.setdefault(base_[2][1], base_[3])
                    base_ = base_[1]
                while base_[0] == "call" and base_[1][0] == "attr" and base_[1][2] == "copy" and not base_[2]:
                    base_ = base_[1][1]
                okb = (kws.get("nonreporting_lower_bounds") == ("sub", ("attr", SELF, "alpha_to_nonreporting_lower_bounds"), ("param", "alpha"))
                       and kws.get("nonreporting_upper_bounds") == ("sub", ("attr", SELF, "alpha_to_nonreporting_upper_bounds"), ("param", "alpha"))
                       and base_ == ("param", "nonreporting_units"))
    ctx.ob("C15.R4.sums", f"{af.qualname}|per-group sums of weighted unadjusted bounds and of weights", okb, af.where(),
           "per group: S(w*L), S(w*U), W = S(w), SS = S(w^2) over its nonreporting units, with this level's unadjusted bounds" if okb
           else "per-group sums of the unadjusted unit bounds / weights are not the documented ones")

    # ---- R3 matching loop --------------------------------------------------------------------------------
    lo = base
    okloop = lo[0] == "loopout"
    ctx.ob("C15.R3.loop", f"{af.qualname}|matching accumulates over the key levels", okloop, af.where(),
           "matched bounds are accumulated in a loop over the key levels" if okloop else f"matched bounds are {ir.show(lo, maxdepth=3)}")
    if okloop:
        init, bodyt, it = lo[3], lo[4], lo[5]
        BOUNDS = init[1][1] if init[0] == "call" and init[1][0] == "attr" and init[1][2] == "merge" else None
        GM = init[2][0] if BOUNDS is not None else None
        ok0 = BOUNDS is not None and _kw(init, "how") == ("const", "inner") and _kw(init, "on") == AGG and GM[0] == "call" and GM[1][0] == "attr" and GM[1][2] == "fit"
        ctx.ob("C15.R3.first", f"{af.qualname}|groups with their own model: inner join on all keys", ok0, af.where(),
               "first the groups that have a model at exactly their keys are matched (inner join on all keys)" if ok0 else f"initial match is {ir.show(init, maxdepth=3)}")
        LEN = ("call", ("global", "len"), (AGG,), ())
        okit = it == ("call", ("global", "range"), (("const", 1), ("bin", "+", LEN, ("const", 1))), ())
        I_ = next((x for x in ir.walk(bodyt) if x[0] == "elem" and x[2] == lo[1]), None)
        RNG0 = ("call", ("global", "range"), (LEN,), ())
        if not okit and I_ is not None and it in (("call", ("global", "reversed"), (RNG0,), ()),
                                                   ("call", ("global", "range"), (("bin", "-", LEN, ("const", 1)), ("const", -1), ("const", -1)), ())):
            # the same walk indexed from the other end: level = n - 1 .. 0 is i = n - level = 1 .. n in the same order; the body is read with
            # level written as n - i
            okit = True
            I2 = ("param", "<i>")
            bodyt = ir.subst(bodyt, {I_: ("bin", "-", LEN, I2)})
            I_ = I2
        ctx.ob("C15.R3.range", f"{af.qualname}|i = 1 .. len(aggregate)", okit, af.where(), "i runs over every key level" if okit else f"loop runs over {ir.show(it, maxdepth=3)}")
        okbody = bodyt[0] == "call" and ir.show(bodyt[1]).endswith("concat") and bodyt[2][0][0] == "list" and len(bodyt[2][0][1]) == 2 \
            and bodyt[2][0][1][0][0] == "loopin"
        ctx.ob("C15.R3.accumulate", f"{af.qualname}|newly matched rows are appended", okbody, af.where(),
               "modeled_bounds = concat([modeled_bounds, newly matched])" if okbody else f"loop body is {ir.show(bodyt, maxdepth=3)}")
        if okbody and I_ is not None and ok0:
            new = bodyt[2][0][1][1]
            PREV_IN = bodyt[2][0][1][0]
            Ns = symexpr.Normalizer(leaf=lambda x: "i" if x == I_ else ("n" if x == LEN else None))

            def slice_is(t, lo_s, hi_s):
                if t[0] != "slice" or t[3] != NONE:
                    return False
                def eq(a, spec):
                    if spec is None:
                        return a == NONE
                    return a != NONE and Ns.norm(a) == symexpr.Normalizer().norm(symexpr.parse(spec))
                return eq(t[1], lo_s) and eq(t[2], hi_s)

            oknew = new[0] == "phi" and new[2][0] == "call" and new[3][0] == "call"
            ctx.require(oknew, f"{af.where()}: merge of remaining bounds and models not recognised")
            c = new[1]
            cross, inner = new[2], new[3]
            nxt = c[2][2][0] if c[0] == "cmp" and c[2][0] == "call" and c[2][1] == ("global", "len") else None
            okcond = c[0] == "cmp" and c[1] == "==" and c[3] == ("const", 0) and nxt is not None
            # next_aggregate = aggregate[: n - i + 1][:-1]
            oknext = okcond and nxt[0] == "sub" and nxt[2] == ("slice", NONE, ("const", -1), NONE) and nxt[1][0] == "sub" and nxt[1][1] == AGG \
                and slice_is(nxt[1][2], None, "n - i + 1")
            ctx.ob("C15.R3.parent-keys", f"{af.qualname}|parent keys = aggregate[: n - i]", oknext, af.where(),
                   "at step i the models of the level above (keys aggregate[:n-i]) are used; the cross join is taken when no key is left" if oknext
                   else f"parent key list is {ir.show(nxt, maxdepth=4) if nxt else None} under {ir.show(c, maxdepth=3)}")
            RB, RM = inner[1][1], inner[2][0]
            okj = _kw(inner, "how") == ("const", "inner") and _kw(inner, "on") == nxt and _kw(cross, "how") == ("const", "cross") and cross[1][1] == RB and cross[2][0] == RM
            ctx.ob("C15.R3.join", f"{af.qualname}|inner on the parent keys, cross at the top", okj, af.where(),
                   "remaining bounds x remaining models: inner join on the parent keys, cross join when there is no parent key" if okj
                   else "join of remaining bounds and models is not inner-on-parent-keys / cross-at-top")
            asserts = [t for pc, t, n in as_.effects if t[0] == "call" and t[1] == ("global", "assert")]
            okas = any(x[0] == "cmp" and x[1] == "<=" and x[3] == ("const", 1) and x[2][0] == "call" and x[2][1] == ("global", "len") for t in asserts for x in ir.walk(t))
            ctx.ob("C15.R3.single-top", f"{af.qualname}|at most one model at the top", okas, af.where(),
                   "the cross join is guarded by 'at most one all-units model'" if okas else "nothing ensures a single top-level model before the cross join")
            # remaining bounds: rows of BOUNDS not yet in the matched set
            rbt = ir.show(RB, maxdepth=9)
            okrb = (RB[0] == "call" and RB[1][0] == "attr" and RB[1][2] == "reset_index" and RB[1][1][0] == "sub" and RB[1][1][1] == ("attr", BOUNDS, "iloc")
                    and ".query(\"_merge != 'both'\").index" in rbt.replace("'_merge != \\'both\\''", "\"_merge != 'both'\"") or "_merge != " in rbt)
            idx = RB[1][1][2] if RB[0] == "call" and RB[1][1][0] == "sub" else None
            okrb = False
            if idx is not None and idx[0] == "attr" and idx[2] == "index" and idx[1][0] == "sub" and idx[1][2][0] == "cmp":
                mg, cm = idx[1][1], idx[1][2]
                not_both = cm[1] == "!=" and cm[3] == ("const", "both") and cm[2] in (("attr", mg, "_merge"), ("sub", mg, ("const", "_merge")))
                okrb = (not_both and mg[0] == "call" and mg[1] == ("attr", BOUNDS, "merge") and mg[2][0] == PREV_IN and _kw(mg, "how") == ("const", "left")
                        and _kw(mg, "on") == AGG and _kw(mg, "indicator") == ("const", True) and RB[1][1][1] == ("attr", BOUNDS, "iloc"))
            ctx.ob("C15.R3.remaining-bounds", f"{af.qualname}|remaining bounds = groups not matched so far", okrb, af.where(),
                   "remaining bounds are the groups of `bounds` without a row in the matched set (left join + indicator != both)" if okrb
                   else "remaining bounds are not 'all groups minus the groups matched so far'")
            # remaining models: rows of the model table whose last i key levels are null, those key columns dropped
            rm = RM
            okrm = False
            if rm[0] == "call" and rm[1][0] == "attr" and rm[1][2] == "drop":
                last_i = dict(rm[3]).get("columns")
                src = rm[1][1]
                while src[0] == "call" and src[1][0] == "attr" and src[1][2] == "reset_index":
                    src = src[1][1]
                okslice = last_i is not None and last_i[0] == "sub" and last_i[1] == AGG and slice_is(last_i[2], "n - i", None)
                mask = src[2] if src[0] == "sub" else None
                okmask = (src[0] == "sub" and src[1] == GM and mask[0] == "call" and mask[1][0] == "attr" and mask[1][2] == "all" and _kw(mask, "axis") == ("const", 1)
                          and mask[1][1] == ("call", ("attr", ("sub", GM, last_i), "isnull"), (), ()))
                okrm = okslice and okmask
            ctx.ob("C15.R3.remaining-models", f"{af.qualname}|remaining models = rows null at the last i key levels", okrm, af.where(),
                   "models considered at step i are those fitted one or more levels up (last i keys null), with those keys dropped" if okrm
                   else "remaining models are not 'rows of the model table that are null at the last i key levels'")
    # the model handed to the loop is fitted for this aggregate and alpha
    gmc = [t for pc, name, t, n in as_.assigns if t[0] == "call" and t[1][0] == "attr" and t[1][2] == "fit" and "GaussianModel" in ir.show(t[1][1], maxdepth=2)]
    okg = bool(gmc) and _kw(gmc[0], "aggregate") == AGG and _kw(gmc[0], "alpha") == ("param", "alpha") and gmc[0][2][0] == ("attr", ("param", "unit_prediction_intervals"), "conformalization")
    ctx.ob("C15.R3.model", f"{af.qualname}|models fitted for this key list, level and calibration set", okg, af.where(),
           "GaussianModel.fit(calibration data of this level's unit intervals, aggregate=aggregate, alpha=alpha)" if okg else "the model table is not fitted for this aggregate / alpha / calibration set")

    # ---- R5 weighted median ---------------------------------------------------------------------------------
    wm = ctx.fn(MU, "weighted_median")
    ws = ctx.builder().summarize(wm)
    X, Wt = ("param", "x"), ("param", "weights")
    order = ("call", ("global", "numpy.argsort"), (X,), ())
    xs, wsrt = ("sub", X, order), ("sub", Wt, order)
    cum = ("call", ("global", "numpy.cumsum"), (wsrt,), ())
    midx = ("sub", ("sub", ("call", ("global", "numpy.where"), (("cmp", "<=", cum, ("const", 0.5)),), ()), ("const", 0)), ("const", -1))
    want_rets = [
        ((("cmp", ">", ("sub", cum, ("const", 0)), ("const", 0.5)), True), ("sub", xs, ("const", 0))),
        ((("cmp", "==", ("sub", cum, midx), ("const", 0.5)), True),
         ("bin", "/", ("bin", "+", ("sub", xs, midx), ("sub", xs, ("bin", "+", midx, ("const", 1)))), ("const", 2))),
        (None, ("sub", xs, ("bin", "+", midx, ("const", 1)))),
    ]
    # the function as a decision tree over its return conditions (guard clauses and if / else chains read the same)
    want_tree = ("phi", want_rets[0][0][0], want_rets[0][1], ("phi", want_rets[1][0][0], want_rets[1][1], want_rets[2][1]))
    okwm = ws.ret() == want_tree
    ctx.ob("C15.R5.weighted-median", "weighted_median|definition", okwm, wm.where(),
           "weighted median: first element if its weight > 1/2; average of the neighbours when the cumulative weight equals 1/2; else the next element" if okwm
           else "weighted_median no longer follows its definition (sort by value, cumulative weights, 1/2 thresholds)")
