"""C04 - nonparametric intervals are conformally calibrated.

Decides that the computation IS the split-conformal procedure of the statement (the probabilistic clause then follows from the
split-conformal theorem, which is cited, not checked):
 R1 conformity score = maximum(L(x) - r, r - U(x)) on the calibration rows, L / U being the lower / upper quantile regressions
    fitted on the training rows with tau = (1-alpha)/2 and (1+alpha)/2, residuals and baseline weights of the same rows;
 R2 quantile level = alpha * (1 + 1/n_cal), n_cal = number of calibration rows;
 R3 population-weighted correction: weights normalised by their sum; frame sorted by score before the cumulative sum; strict
    filter cum > q; result = minimum score of the remaining rows;
 R4 robust: max(unweighted quantile of the scores at that level, weighted correction); else the weighted correction;
 R5 one correction applied as lower - c and upper + c, then * last + last, floored at counted votes, rounded;
 R6 split: shuffle seeded by the model seed; training rows = first floor(n_train * frac); calibration rows = the rest up to
    n_train; design-matrix slices use the same bounds as the frame slices and the matrix is built from [shuffled, nonreporting].
Not decided: coverage >= alpha under exchangeability (distributional statement); q <= 1 for all (alpha, n) (arithmetic, see C14).
"""
from __future__ import annotations

import ast
import re

from .. import ir, symexpr, util
from ..frames import Frames
from ..model import AnalysisError
from ..unitmodel import CM, E, NPM, NU, RU, col, floor_shape

SELF = ("param", "self")
NTRAIN = ("attr", SELF, "n_train")


def _strip_vals(t):
    while True:
        if t[0] == "attr" and t[2] == "values":
            t = t[1]
        elif t[0] == "call" and t[1][0] == "attr" and t[1][2] in ("flatten", "copy", "to_numpy"):
            t = t[1][1]
        else:
            return t


def _is_predict(t):
    t = _strip_vals(t)
    return t if (t[0] == "call" and t[1][0] == "attr" and t[1][2] == "predict" and len(t[2]) == 1) else None


def check(ctx):
    repo = ctx.repo
    ctx.explanation = (
        "The def-use term of NonparametricElectionModel.get_unit_prediction_intervals (with the bounds helper, the population "
        "correction and the fraction helper inlined, solver / featurizer objects kept apart by construction site) is matched "
        "clause by clause against the split-conformal procedure the property defines; arithmetic sub-formulas are compared as "
        "rational functions."
    )
    ctx.assumptions += ["the probabilistic clause follows from R1-R6 by the split-conformal coverage theorem (cited, not checked)",
                        "QuantileRegressionSolver.fit/predict semantics trusted; DataFrame.query('a > @b') filters rows with a > b"]
    cls = repo.cls(NPM, "NonparametricElectionModel")
    f = ctx.fn(NPM, "NonparametricElectionModel.get_unit_prediction_intervals")
    helpers = ("get_unit_prediction_interval_bounds", "_compute_population_correction", "_compute_conf_frac")
    def _helper(h):  # a method of the class family, or - when it never used self and was moved out - the module function of that name
        return cls.lookup(h) or repo.mod(NPM).functions.get(h)
    for h in helpers:
        ctx.require(_helper(h) is not None, f"{h} not found")
    b = ctx.builder(inline=lambda c, call, callee: callee.name in helpers)
    s = b.summarize(f, self_cls=cls)
    ret = s.ret()
    ctx.require(ret[0] == "call" and len(ret[2]) == 3, f"{f.where()}: does not return PredictionIntervals(lower, upper, conformalization)")
    LOW, UPP, CONF = ret[2]
    _cal = CONF
    while _cal[0] == "setitem":
        _cal = _cal[1]
    F = Frames(b, {_cal: "calibration rows"})
    res, last = ir.I(("fstr", (("const", "residuals_"), E))), ir.I(("fstr", (("const", "last_election_results_"), E)))

    # ---- fits ------------------------------------------------------------------------------------
    fits = [t for pc, t, n in s.effects if t[0] == "call" and t[1] == ("attr", SELF, "fit_model")]
    ctx.sites("C04.R1.fits", len(fits), 2, "fit_model calls for the lower and upper quantile regression")
    N = symexpr.Normalizer()
    want_tau = {"lower": N.norm(symexpr.parse("(1 - alpha) / 2")), "upper": N.norm(symexpr.parse("(1 + alpha) / 2"))}
    solvers = {}
    for t in fits:
        a = t[2]
        ctx.require(len(a) >= 5, f"{f.where()}: fit_model call shape")
        tau = symexpr.Normalizer(leaf=lambda x: x[1] if x[0] == "param" else None).norm(a[3])
        side = next((k for k, v in want_tau.items() if v == tau), None)
        if side is None:
            ctx.ob("C04.R1.tau", f"{f.qualname}|quantile of a bound regression", False, f.where(),
                   f"a bound regression is fitted at tau = {tau.key()}, expected (1-alpha)/2 or (1+alpha)/2")
            continue
        solvers[side] = (a[0], a[1], a[2], a[4])
    ctx.ob("C04.R1.tau", f"{f.qualname}|lower and upper regressions at (1-+alpha)/2", set(solvers) == {"lower", "upper"}, f.where(),
           "lower bound fitted at tau = (1-alpha)/2, upper bound at tau = (1+alpha)/2" if set(solvers) == {"lower", "upper"}
           else f"fitted sides: {sorted(solvers)}")
    if set(solvers) != {"lower", "upper"}:
        return
    LQ, UQ = solvers["lower"][0], solvers["upper"][0]
    ctx.ob("C04.R1.two-solvers", f"{f.qualname}|separate solver objects", LQ != UQ, f.where(),
           "lower and upper regressions use separate solver objects" if LQ != UQ else "both bounds are fitted into the same solver object (the second fit overwrites the first)")
    # shared pieces
    Xtr, ytr, wtr = solvers["lower"][1], solvers["lower"][2], solvers["lower"][3]
    same = solvers["upper"][1:] == (Xtr, ytr, wtr)
    ctx.ob("C04.R1.same-data", f"{f.qualname}|both bound regressions use the same training data", same, f.where(),
           "same features, residuals and weights for both regressions" if same else "lower and upper regressions are fitted on different data")
    # training rows / shuffle ------------------------------------------------------------------------
    ctx.require(ytr[0] == "sub" and ytr[2] == res and wtr[0] == "sub" and wtr[2] == last, f"{f.where()}: training residuals / weights are not the residual and baseline columns")
    train = ytr[1]
    ok_split = (train[0] == "sub" and train[2][0] == "slice" and train[2][1] == ("const", None) and train[2][3] == ("const", None)
                and wtr[1] == train)
    ctx.require(ok_split, f"{f.where()}: training rows are not a prefix slice of the shuffled frame")
    SHUF, TR = train[1], train[2][2]
    sh = SHUF
    while sh[0] == "call" and sh[1][0] == "attr" and sh[1][2] == "reset_index":
        sh = sh[1][1]
    kw = dict(sh[3]) if sh[0] == "call" else {}
    ok_shuf = (sh[0] == "call" and sh[1] == ("attr", RU, "sample") and kw.get("frac") == ("const", 1)
               and kw.get("random_state") == ("attr", SELF, "seed") and kw.get("replace", ("const", False)) == ("const", False))
    ctx.ob("C04.R6.shuffle", f"{f.qualname}|seeded permutation of the reporting units", ok_shuf, f.where(),
           "reporting units are permuted with sample(frac=1, random_state=self.seed)" if ok_shuf else f"shuffle is {ir.show(sh, maxdepth=3)}")
    trn = symexpr.Normalizer(leaf=_leaf_tr).norm(TR)
    want_tr = symexpr.Normalizer().norm(symexpr.parse("max(floor(n_train * round(min(1 - (1 + alpha) / (n_reporting * (1 - alpha)), 0.9), 2)), 1)"))
    ctx.ob("C04.R6.train-rows", f"{f.qualname}|training rows = max(floor(n_train * fraction), 1)", trn == want_tr, f.where(),
           "number of training rows = max(floor(n_train * round(min(1 - (1+alpha)/(n(1-alpha)), 0.9), 2)), 1)" if trn == want_tr
           else f"training rows = {trn.key()}, documented {want_tr.key()}")
    # calibration frame --------------------------------------------------------------------------------
    cal = CONF
    while cal[0] == "setitem":
        cal = cal[1]
    c0 = cal
    while c0[0] == "call" and c0[1][0] == "attr" and c0[1][2] == "reset_index":
        c0 = c0[1][1]
    ok_cal = c0 == ("sub", SHUF, ("slice", TR, ("const", None), ("const", None)))
    ctx.ob("C04.R6.calibration-rows", f"{f.qualname}|calibration rows = the rest", ok_cal, f.where(),
           "calibration rows are the shuffled reporting units after the training rows" if ok_cal else f"calibration frame is {ir.show(c0, maxdepth=4)}")
    # design matrix and its slices -------------------------------------------------------------------------
    def unwrap_feat(t, meth):
        t = _strip_vals(t)
        if t[0] == "call" and t[1][0] == "attr" and t[1][2] == meth and len(t[2]) == 1:
            return t[1][1], t[2][0]
        return None, None

    fz_tr, x_tr = unwrap_feat(Xtr, "filter_to_active_features")
    ctx.require(fz_tr is not None and x_tr[0] == "sub", f"{f.where()}: training features are not featurizer.filter_to_active_features(x_all[..])")
    XALL = x_tr[1]
    ok_tr_slice = x_tr[2] == ("slice", ("const", None), TR, ("const", None))
    ctx.ob("C04.R6.slice-train", f"{f.qualname}|design rows [:train_rows] for training", ok_tr_slice, f.where(),
           "training features are the first train_rows rows of the design matrix" if ok_tr_slice else f"training features slice is {ir.show(x_tr[2])}")
    pd_ok = (XALL[0] == "call" and XALL[1][0] == "attr" and XALL[1][2] == "prepare_data" and XALL[1][1] == fz_tr)
    ctx.require(pd_ok, f"{f.where()}: design matrix is not featurizer.prepare_data(..) of the same featurizer")
    allu = XALL[2][0]
    # the frame handed to the featurizer may carry the "these rows are predicted, not fitted" mark on the calibration rows
    # (frame.iloc[train_rows:n_train, <reporting>] = 0, C16.R6): a column assignment, the rows and their order are those below it
    marked = None
    if allu[0] == "setattr" and allu[2] == "iloc" and allu[3][0] == "setitem" and allu[3][1] == ("attr", allu[1], "iloc"):
        marked = allu[3]
        allu = allu[1]
    ctx.extra["calibration_rows_marked_as_holdout"] = marked is not None
    order_ok = (allu[0] == "call" and ir.show(allu[1]).endswith("concat") and allu[2][0] == ("list", (SHUF, NU)))
    ctx.ob("C04.R6.matrix-order", f"{f.qualname}|design matrix rows = [shuffled reporting, nonreporting]", order_ok, f.where(),
           "the design matrix is built from the shuffled reporting units followed by the nonreporting units" if order_ok
           else f"design matrix built from {ir.show(allu, maxdepth=3)}")
    # scores ------------------------------------------------------------------------------------------------
    lb = F.col(CONF, ("const", "lower_bounds"))
    ub = F.col(CONF, ("const", "upper_bounds"))
    rcal = ("col", cal, res)

    def bound_ok(v, solver, sign):
        """sign=+1: predict - r ; sign=-1: r - predict"""
        if not (v[0] == "bin" and v[1] == "-"):
            return False, f"not a difference: {ir.show(v, maxdepth=3)}"
        a, c = (v[2], v[3]) if sign > 0 else (v[3], v[2])
        p = _is_predict(a)
        r = _strip_vals(c)
        if p is None:
            return False, "prediction term not found"
        if p[1][1] != solver:
            return False, "uses the other bound's regression"
        fz, xs = unwrap_feat(p[2][0], "generate_holdout_data")
        if fz != fz_tr or xs is None or xs != ("sub", XALL, ("slice", TR, NTRAIN, ("const", None))):
            return False, f"prediction is not on the calibration rows of the design matrix (x_all[train_rows:n_train]): {ir.show(xs, maxdepth=3) if xs else None}"
        if r != rcal and r != ("sub", cal, res):
            return False, f"residual term is {ir.show(r, maxdepth=3)}"
        return True, ""

    okl, whyl = bound_ok(lb, LQ, +1)
    oku, whyu = bound_ok(ub, UQ, -1)
    ctx.ob("C04.R1.score-lower", f"{f.qualname}|lower_bounds = L(x) - r on calibration rows", okl, f.where(),
           "lower_bounds = lower regression(calibration features) - residual" if okl else f"lower_bounds: {whyl}")
    ctx.ob("C04.R1.score-upper", f"{f.qualname}|upper_bounds = r - U(x) on calibration rows", oku, f.where(),
           "upper_bounds = residual - upper regression(calibration features)" if oku else f"upper_bounds: {whyu}")
    scores = s.env.get("scores")
    sc = None
    for t in ir.walk(ret):
        if t[0] == "call" and ir.show(t[1]).endswith("maximum") and len(t[2]) == 2 and all(ir.column_ref(x) is not None and ir.column_ref(x)[1] in ("lower_bounds", "upper_bounds") for x in t[2]):
            sc = t
    oks = sc is not None and {ir.column_ref(sc[2][0])[1], ir.column_ref(sc[2][1])[1]} == {"lower_bounds", "upper_bounds"} and ir.column_ref(sc[2][0])[0] == CONF and ir.column_ref(sc[2][1])[0] == CONF
    ctx.ob("C04.R1.score", f"{f.qualname}|score = maximum(lower_bounds, upper_bounds)", oks, f.where(),
           "conformity score = max(L(x) - r, r - U(x)) per calibration unit" if oks else "score is not the element-wise maximum of the two bound columns")
    if not oks:
        return
    SC = sc
    # ---- R2 quantile level -----------------------------------------------------------------------------------
    ncal = ir.nrows(CONF)
    qterms = [t for t in ir.walk(ret) if t[0] == "call" and ir.show(t[1]).endswith("quantile") and t[2] and t[2][0] == SC]
    corr = LOW
    g, _, _ = floor_shape(LOW)
    # g = (Lq(N) - c) * last + last
    Nn = symexpr.Normalizer(leaf=lambda x: "ncal" if x == ncal else (x[1] if x[0] == "param" else None))
    # find the correction term c: lower pre-floor = (PRED_L - c) * last + last
    nl = col(NU, "last_election_results_")
    c_term = None
    if g[0] == "bin" and g[1] == "+" and g[3] == nl and g[2][0] == "bin" and g[2][1] == "*" and g[2][3] == nl and g[2][2][0] == "bin" and g[2][2][1] == "-":
        predL, c_term = g[2][2][2], g[2][2][3]
    ctx.ob("C04.R5.apply-lower", f"{f.qualname}|lower = (L(x) - c) * last + last", c_term is not None, f.where(),
           "lower bound = (lower regression - correction) * baseline + baseline, then floored and rounded" if c_term is not None
           else f"lower bound before the floor is {ir.show(g, maxdepth=4)}")
    if c_term is None:
        return
    gu, okru, okfu = floor_shape(UPP)
    ok_up = (gu[0] == "bin" and gu[1] == "+" and gu[3] == nl and gu[2][0] == "bin" and gu[2][1] == "*" and gu[2][3] == nl
             and gu[2][2][0] == "bin" and gu[2][2][1] == "+" and c_term in (gu[2][2][2], gu[2][2][3]))
    ctx.ob("C04.R5.apply-upper", f"{f.qualname}|upper = (U(x) + c) * last + last with the same c", ok_up, f.where(),
           "upper bound = (upper regression + the same correction) * baseline + baseline" if ok_up
           else f"upper bound before the floor is {ir.show(gu, maxdepth=4)}")
    pl = _is_predict(predL)
    okp = pl is not None and pl[1][1] == LQ and unwrap_feat(pl[2][0], "generate_holdout_data") == (fz_tr, ("sub", XALL, ("slice", NTRAIN, ("const", None), ("const", None))))
    ctx.ob("C04.R6.slice-holdout", f"{f.qualname}|nonreporting predictions on design rows [n_train:]", okp, f.where(),
           "unadjusted bounds of nonreporting units come from the lower regression on x_all[n_train:]" if okp
           else "unadjusted lower bound of nonreporting units is not the lower regression on the nonreporting rows of the design matrix")
    if ok_up:
        pu_t = gu[2][2][2] if gu[2][2][3] == c_term else gu[2][2][3]
        pu = _is_predict(pu_t)
        okpu = pu is not None and pu[1][1] == UQ
        ctx.ob("C04.R6.slice-holdout", f"{f.qualname}|upper uses the upper regression", okpu, f.where(),
               "unadjusted upper bound comes from the upper regression" if okpu else "unadjusted upper bound does not come from the upper regression")
    # c_term = phi(self.robust ? max(quantile(scores, q), POP) : POP)
    okr = (c_term[0] == "phi" and c_term[1] == ("attr", SELF, "robust") and c_term[2][0] == "call" and c_term[2][1] == ("global", "max")
           and len(c_term[2][2]) == 2)
    POP = c_term[3] if c_term[0] == "phi" else None
    if okr:
        a, bb = c_term[2][2]
        qt = a if (a[0] == "call" and ir.show(a[1]).endswith("quantile")) else bb
        other = bb if qt is a else a
        okr = other == POP and qt[0] == "call" and qt[2] and qt[2][0] == SC
        if okr:
            q = dict(qt[3]).get("q") or (qt[2][1] if len(qt[2]) > 1 else None)
            qn = Nn.norm(q) if q is not None else None
            want_q = symexpr.Normalizer().norm(symexpr.parse("alpha * (1 + 1 / ncal)"))
            ctx.ob("C04.R2.level", f"{f.qualname}|quantile level = alpha (1 + 1/n_cal)", qn == want_q, f.where(),
                   "quantile level = alpha * (1 + 1/n_cal) with n_cal the number of calibration rows" if qn == want_q
                   else f"quantile level is {qn.key() if qn else None}, documented alpha*(1 + 1/ncal)")
    ctx.ob("C04.R4.robust", f"{f.qualname}|robust = max(unweighted quantile, weighted correction)", okr, f.where(),
           "robust: max(quantile(scores, q), population correction); otherwise the population correction" if okr
           else f"correction is {ir.show(c_term, maxdepth=3)}")
    if POP is None:
        return
    # ---- R3 population correction ------------------------------------------------------------------------------
    _arg = None
    if POP[0] == "call" and POP[1][0] == "global" and POP[2]:
        _arg = POP[2][0]
    elif POP[0] == "call" and POP[1][0] == "attr" and not POP[2]:
        _arg = POP[1][1]
    ok_min = POP[0] == "call" and ir.show(POP[1]).endswith("min") and _arg is not None and ir.column_ref(_arg) is not None and ir.column_ref(_arg)[1] == "scores"  # numpy.min(x) / x.min()
    ctx.ob("C04.R3.min", f"{f.qualname}|correction = minimum remaining score", ok_min, f.where(),
           "population correction = min of the scores that pass the filter" if ok_min else f"population correction is {ir.show(POP, maxdepth=3)}")
    if not ok_min:
        return
    fr = ir.column_ref(_arg)[0]
    while fr[0] == "call" and fr[1][0] == "attr" and fr[1][2] == "reset_index":
        fr = fr[1][1]
    # the filter: rows of the table whose cumulative weight `percent` strictly exceeds the level (query string and boolean mask are the
    # same term in the def-use form)
    qname = None
    qs = ir.show(fr, maxdepth=4)
    if fr[0] == "sub" and fr[2][0] == "cmp":
        c_ = fr[2]
        colt = c_[2]
        is_pct = colt in (("attr", fr[1], "percent"), ("sub", fr[1], ("const", "percent")))
        qterm = c_[3]
        if is_pct and c_[1] == ">":
            qname = qterm[1] if qterm[0] == "param" else "<inlined>"
        qs = ir.show(c_, maxdepth=4)
    mq = qname is not None
    ctx.ob("C04.R3.strict", f"{f.qualname}|filter cumulative weight > q (strict)", bool(mq), f.where(),
           "rows are kept where the cumulative weight strictly exceeds the quantile level" if mq
           else f"filter is {qs}: the documented rule is the strict 'percent > q'")
    if not mq:
        return
    pc_fn = _helper("_compute_population_correction")
    qparam_ok = qname in pc_fn.params
    arg_ok = False
    if qname == "<inlined>":
        # the helper was inlined: the level is already the caller's expression
        nz0 = symexpr.Normalizer(leaf=lambda x: "ncal" if x == ncal else (x[1] if x[0] == "param" else None))
        arg_ok = nz0.norm(qterm) == symexpr.Normalizer().norm(symexpr.parse("alpha * (1 + 1 / ncal)"))
    if qparam_ok:
        # summarise again without inlining the helper: the argument bound to that parameter must be the level of R2
        b2 = ctx.builder(inline=lambda c, call, callee: callee.name in ("get_unit_prediction_interval_bounds", "_compute_conf_frac"))
        s2 = b2.summarize(f, self_cls=cls)
        calls2 = [x for _, _, t_, _ in s2.assigns for x in ir.walk(t_) if x[0] == "call" and x[1] in (("attr", SELF, "_compute_population_correction"), ("global", pc_fn.fq))]
        if calls2:
            bound = ir.bind_args(pc_fn, calls2[0][2], calls2[0][3], method=pc_fn.cls is not None) or {}
            a = bound.get(qname)
            want_q = symexpr.Normalizer().norm(symexpr.parse("alpha * (1 + 1 / ncal)"))
            if a is not None:
                r2 = s2.ret()
                ncal2 = ir.nrows(r2[2][2]) if r2[0] == "call" and len(r2[2]) == 3 else None
                nz = symexpr.Normalizer(leaf=lambda x: "ncal" if x == ncal2 else (x[1] if x[0] == "param" else None))
                arg_ok = nz.norm(a) == want_q
    ctx.ob("C04.R3.level", f"{f.qualname}|weighted correction uses the same quantile level", arg_ok, f.where(),
           "the weighted correction is computed at the same level alpha(1 + 1/n_cal)" if arg_ok else "the weighted correction is computed at a different level")
    tbl = fr[1]
    base = tbl
    pct = None
    while base[0] == "setitem":
        if base[2] == ("const", "percent") and pct is None:
            pct = base[3]
        base = base[1]
    sorted_ok = base[0] == "call" and base[1][0] == "attr" and base[1][2] == "sort_values" and base[2] == (("const", "scores"),) and \
        dict(base[3]).get("ascending", ("const", True)) == ("const", True)
    # raw def-use term: percent = <sorted frame>.weights.cumsum()
    cum_on_sorted = (pct is not None and pct[0] == "call" and pct[1][0] == "attr" and pct[1][2] == "cumsum" and not pct[2]
                     and pct[1][1] in (("attr", base, "weights"), ("sub", base, ("const", "weights"))))
    ctx.ob("C04.R3.sorted", f"{f.qualname}|scores sorted ascending before accumulating", sorted_ok and cum_on_sorted, f.where(),
           "weights are accumulated in ascending score order" if sorted_ok and cum_on_sorted
           else "cumulative weights are not taken over the frame sorted by score (ascending)")
    df = base[1][1] if sorted_ok else None
    okw = False
    if df is not None and df[0] == "call" and ir.show(df[1]).endswith("DataFrame") and df[2] and df[2][0][0] == "dict":
        d = dict(df[2][0][1])
        w = d.get(("const", "weights"))
        sct = d.get(("const", "scores"))
        okw = (w is not None and w[0] == "bin" and w[1] == "/" and w[2] == ("sub", CONF, last) and w[3][0] == "call"
               and w[3][1] == ("attr", ("sub", CONF, last), "sum") and sct == SC)
    ctx.ob("C04.R3.weights", f"{f.qualname}|weights = baseline / sum(baseline) of the calibration rows", okw, f.where(),
           "weights are the calibration units' baseline votes normalised to sum 1, paired with their scores" if okw
           else "weights are not baseline / baseline.sum() of the calibration rows (or not paired with the scores)")
    # state needed by the split
    gp = ctx.fn(CM, "ConformalElectionModel.get_unit_predictions")
    gps = ctx.builder().summarize(gp)
    w = [x for x in gps.attr_writes if x[1] == "n_train"]
    okn = len(w) == 1 and w[0][2] == ir.nrows(RU)
    ctx.ob("C04.R6.n_train", f"{gp.qualname}|n_train = number of reporting units", okn, gp.where(),
           "self.n_train is the row count of the reporting frame" if okn else "self.n_train is not the number of reporting units")


def _leaf_tr(t):
    if t == NTRAIN:
        return "n_train"
    if t == ir.nrows(RU):
        return "n_reporting"
    if t[0] == "param":
        return t[1]
    return None
