"""C20 - a failed or inaccurate quantile-regression solve is retried, not fatal.

Decided statically (necessary conditions visible in the code shape; see DESIGN.md C20):
 R1 the first solver fit in fit_model is inside a try whose handler catches UserWarning and cvxpy SolverError,
    and the handler does not re-raise;
 R2 every argument of the retry call binds against the solver's real signature (read from installed source);
 R3 retry and first call agree on x, y, taus, weights, lambda_, fit_intercept (missing = callee default;
    `self.<attr>` that is a repo-wide constant is folded; a fit made through functools.partial is read with the bound arguments in
    place) and the retry passes normalize_weights=False;
 R4 a module-level filter turns the solver's inaccuracy warning into an error - judged against how the INSTALLED cvxpy issues it
    (message text and the module it is attributed to, read from its source) - and nothing in the package relaxes that filter;
 R5 every quantile-regression fit of the conformal model family goes through fit_model;
 R6 retry-safe use of the accumulating solver (fit() appends one vector per tau, read from the installed source): every
    fit_model call site hands over a fresh solver used once and a scalar quantile.
"""
from __future__ import annotations

import ast

from .. import ir, util
from ..cfg import CFG
from ..model import AnalysisError, attr_chain, external_signature

MOD = "elexmodel.models.ConformalElectionModel"
QRS = "elexsolver.QuantileRegressionSolver.QuantileRegressionSolver"


def _inaccuracy_warning_origin(ctx):
    """Read from the INSTALLED cvxpy how the 'Solution may be inaccurate' UserWarning is issued: its message text and the module
    it is attributed to (what a `module=` filter is matched against).  Older versions call warnings.warn inside
    cvxpy.problems.problem (attributed to that module); newer ones call cvxpy.utilities.warn.warn, which attributes the warning
    to the first caller OUTSIDE the package - for this repository elexsolver.QuantileRegressionSolver."""
    import importlib.util
    spec = importlib.util.find_spec("cvxpy.problems.problem")
    ctx.require(spec is not None and spec.origin, "installed cvxpy source not found")
    tree = ast.parse(open(spec.origin, encoding="utf-8").read())
    imported_warn_from = None
    for n in ast.walk(tree):
        if isinstance(n, ast.ImportFrom) and any(a.name == "warn" for a in n.names):
            imported_warn_from = n.module
    for n in ast.walk(tree):
        if isinstance(n, ast.Call) and n.args:
            txt = "".join(x.value for x in ast.walk(n.args[0]) if isinstance(x, ast.Constant) and isinstance(x.value, str))
            if "may be inaccurate" in txt:
                ch = attr_chain(n.func) or []
                if ch == ["warn"] and imported_warn_from and imported_warn_from.startswith("cvxpy"):
                    return {"message": txt, "attributed_to": "caller outside cvxpy (elexsolver.QuantileRegressionSolver)",
                            "module": "elexsolver.QuantileRegressionSolver", "via": f"{imported_warn_from}.warn"}
                if ch[-1:] == ["warn"]:
                    return {"message": txt, "attributed_to": "cvxpy.problems.problem", "module": "cvxpy.problems.problem", "via": "warnings.warn"}
    raise AnalysisError("the installed cvxpy no longer issues a 'Solution may be inaccurate' warning in problems/problem.py")


def _filter_matches(origin, modre, msgre):
    """Would warnings.filterwarnings(.., module=modre, message=msgre) select the inaccuracy warning?  Both are regular
    expressions matched at the START of the module name / message (message case-insensitively); empty = match all."""
    import re
    try:
        okm = modre == "" or re.compile(modre).match(origin["module"]) is not None
        oks = msgre == "" or re.compile(msgre, re.I).match(origin["message"]) is not None
    except re.error:
        return False
    return okm and oks


def _solver_accumulates(ctx):
    """Read from the installed solver: does fit() append one coefficient vector per tau to state kept on the object?"""
    import importlib.util
    spec = importlib.util.find_spec("elexsolver.QuantileRegressionSolver")
    ctx.require(spec is not None and spec.origin, "elexsolver.QuantileRegressionSolver source not found")
    tree = ast.parse(open(spec.origin, encoding="utf-8").read())
    for fn in ast.walk(tree):
        if isinstance(fn, ast.FunctionDef) and fn.name == "fit":
            for loop in ast.walk(fn):
                if isinstance(loop, ast.For):
                    for c in ast.walk(loop):
                        if isinstance(c, ast.Call) and isinstance(c.func, ast.Attribute) and c.func.attr in ("append", "extend") \
                                and (attr_chain(c.func.value) or [""])[0] == "self":
                            return True
    return False


def _retry_safe(ctx, family):
    """R6: the solver's fit() appends one coefficient vector per tau to the object, so a failed attempt leaves the object clean
    only if it fails before the first append, i.e. when ONE tau is fitted per call; and predict() multiplies by ALL stored
    vectors, so a solver object must be fitted exactly once.  Hence at every fit_model call site: the solver argument is a
    fresh construction used by this call only, and the tau argument is a scalar (not a list / tuple / comprehension)."""
    acc = _solver_accumulates(ctx)
    ctx.count("C20.R6.solver_accumulates", int(acc))
    if not acc:
        ctx.ob("C20.R6.retry-safe", "solver|fit does not keep per-tau state", True, "elexsolver", "fit() keeps no appended state: retries cannot double up")
        return False
    SELF = ("param", "self")
    b = ctx.builder(inline=lambda *a: False)
    fm = next((c.lookup("fit_model") for c in family if c.lookup("fit_model") is not None), None)
    ctx.require(fm is not None, "fit_model not found")
    bad = False
    nsites = 0
    for c in family:
        for m in c.methods.values():
            if m.name == "fit_model" or not list(util.method_calls(m.node, "fit_model")):
                continue
            sm = b.summarize(m, self_cls=c)
            calls = []
            for t in [t_ for _, _, t_, _ in sm.assigns] + [t_ for _, t_, _ in sm.effects]:
                for x in ir.walk(t):
                    if x[0] == "call" and x[1] == ("attr", SELF, "fit_model") and x not in calls:
                        calls.append(x)
            solvers = {}
            for x in calls:
                nsites += 1
                bound = ir.bind_args(fm, x[2], x[3], method=True) or {}
                model, tau = bound.get("model"), bound.get("tau")
                node = b.loc.get(x, (m, m.node))[1]
                fresh = model is not None and model[0] == "call" and any(k == "#new" for k, _ in model[3])
                ok_model = fresh and model not in solvers
                if fresh:
                    solvers[model] = x
                ok_tau = tau is not None and tau[0] not in ("list", "tuple", "comp", "loopout", "dict", "set")
                ok = ok_model and ok_tau
                bad = bad or not ok
                why = []
                if not fresh:
                    why.append("the solver handed to fit_model is not a fresh construction of this method")
                elif not ok_model:
                    why.append("the same solver object is fitted twice: predict() then uses the coefficient vectors of both fits")
                if not ok_tau:
                    why.append("several quantiles are fitted in one call: if the solve fails after the first one, the retry appends its "
                               "vectors behind the partial result and predict() reads the wrong rows")
                ctx.ob("C20.R6.retry-safe", util.key(m, node), ok, m.where(node),
                       "one fresh solver, one scalar quantile: a failed attempt leaves the solver empty for the retry" if ok else "; ".join(why))
    if nsites == 0:
        ctx.ob("C20.R6.retry-safe", "family|fit_model call sites", False, "ConformalElectionModel family", "no fit_model call site found")
        return True
    return bad


def _fold(repo, t):
    """Replace self.<attr> by its constant when every write in the repo assigns the same literal."""
    m = {}
    for s in ir.walk(t):
        if s[0] == "attr" and s[1] == ("param", "self"):
            c = util.const_attr(repo, s[2])
            if c is not None:
                m[s] = c
    return ir.subst(t, m) if m else t


def solver_fit_bindings(ctx):
    """Shared with C05.R6: every `<solver>.fit(..)` call of ConformalElectionModel.fit_model bound against the signature of the INSTALLED
    elexsolver.QuantileRegressionSolver.fit (positional arguments by position, keywords by name, defaults from the source).
    -> [{'kind': 'first' | 'retry', 'bound': {param: term}, 'problems': [..], 'node': ast}], the function"""
    f = ctx.fn(MOD, "ConformalElectionModel.fit_model")
    sig = external_signature("elexsolver.QuantileRegressionSolver", "QuantileRegressionSolver", "fit")
    params = sig["params"][1:]
    defaults = {}
    for p_, d_ in sig["defaults"].items():
        try:
            defaults[p_] = ("const", ast.literal_eval(d_))
        except Exception:
            defaults[p_] = ("unknown", ast.unparse(d_))
    solver_params = [p_ for (ff, p_), ts in ctx.resolver.param_types.items() if ff is f and ("ext", QRS) in ts]
    ctx.require(solver_params, f"{f.where()}: no parameter of fit_model is typed QuantileRegressionSolver")
    sp = solver_params[0]
    s = ctx.builder().summarize(f)
    out = []
    for pc, t, n in s.effects:
        if not (t[0] == "call" and t[1] == ("attr", ("param", sp), "fit")):
            continue
        bound, problems = {}, []
        args, kws = t[2], t[3]
        if len(args) > len(params) and not sig["vararg"]:
            problems.append(f"{len(args)} positional arguments but fit takes {len(params)}")
        for p_, a_ in zip(params, args):
            bound[p_] = a_
        for k_, v_ in kws:
            if k_ is None:
                problems.append("**kwargs expansion: cannot bind statically")
            elif k_ in params or k_ in sig["kwonly"]:
                if k_ in bound:
                    problems.append(f"argument '{k_}' given twice")
                bound[k_] = v_
            elif not sig["varkw"]:
                problems.append(f"unexpected keyword argument '{k_}'")
        for p_ in params:
            if p_ not in bound and p_ in defaults:
                bound[p_] = defaults[p_]
        out.append({"kind": "retry" if any(c[0] == "exc" for c, _ in pc) else "first", "bound": {k_: _fold(ctx.repo, v_) for k_, v_ in bound.items()},
                    "problems": problems, "node": n})
    return out, f


def check(ctx):
    repo = ctx.repo
    ctx.explanation = (
        "AST/CFG/def-use analysis of ConformalElectionModel.fit_model: try/except shape, binding of the retry call "
        "against QuantileRegressionSolver.fit's signature read from the installed elexsolver source, agreement of "
        "the two calls argument by argument (IR terms), warning filter, and who may call the solver directly."
    )
    ctx.assumptions += [
        "elexsolver.QuantileRegressionSolver.fit behaves as its signature says (semantics of the solver are trusted)",
        "cvxpy reports inaccurate solutions as the UserWarning found in its installed source (message and attribution read from there)",
    ]
    f = ctx.fn(MOD, "ConformalElectionModel.fit_model")
    sig = external_signature("elexsolver.QuantileRegressionSolver", "QuantileRegressionSolver", "fit")
    ctx.extra["solver_signature"] = {"params": sig["params"], "source": f"{sig['path']}:{sig['line']}"}
    params = sig["params"][1:]
    defaults = {}
    for p, d in sig["defaults"].items():
        try:
            defaults[p] = ("const", ast.literal_eval(d))
        except Exception:
            defaults[p] = ("unknown", ast.unparse(d))

    # the solver object: the parameter annotated with the solver class (or named model)
    solver_params = [p for (ff, p), ts in ctx.resolver.param_types.items() if ff is f and ("ext", QRS) in ts]
    ctx.require(solver_params, f"{f.where()}: no parameter of fit_model is typed QuantileRegressionSolver")
    sp = solver_params[0]

    # ---- locate the fit calls through the IR -------------------------------------------------
    b = ctx.builder()
    s = b.summarize(f)
    fits = [(pc, t, n) for pc, t, n in s.effects
            if t[0] == "call" and t[1] == ("attr", ("param", sp), "fit")]
    # also fits whose value is used (assigned) rather than expression statements
    fit_nodes = [c for c in util.method_calls(f.node, "fit")
                 if isinstance(c.func.value, ast.Name) and c.func.value.id == sp]
    # (a fit made through functools.partial(solver.fit, ..) is read by the def-use engine with the bound arguments in place: it is one
    # of `fits` without being a syntactic `solver.fit(..)` call)
    ctx.sites("C20.R1", max(len(fit_nodes), len(fits)), 2, "solver.fit calls in fit_model (first attempt + retry)")
    ctx.require(len(fits) >= len(fit_nodes), f"{f.where()}: a solver fit call is not a plain statement; shape not recognised")

    cfg = CFG(f.node)
    tries = [n for n in ast.walk(f.node) if isinstance(n, ast.Try)]
    first = [x for x in fits if not any(c[0] == "exc" for c, _ in x[0])]
    retry = [x for x in fits if any(c[0] == "exc" for c, _ in x[0])]

    # R1 -------------------------------------------------------------------------------------
    ok_first = len(first) == 1
    tr = None
    if ok_first:
        node = first[0][2]
        tr = next((t for t in tries if any(node is st or node in ast.walk(st) for st in t.body)), None)
    ctx.ob("C20.R1.try", f"{f.qualname}|first fit in try", ok_first and tr is not None, f.where(first[0][2] if first else None),
           "exactly one first-attempt solver fit, inside a try body" if ok_first and tr is not None
           else "the first solver fit is not (uniquely) inside a try body: a solver failure would be fatal")
    if tr is not None:
        for wanted in ("UserWarning", "SolverError"):
            hs = [h for h in tr.handlers if util.exception_covers(h.type, repo, f.module, wanted)]
            ctx.ob("C20.R1.catch", f"{f.qualname}|catches {wanted}", bool(hs), f.where(tr),
                   f"handler catches {wanted}" if hs else f"no except clause of the try around the first fit catches {wanted}")
        for h in tr.handlers:
            reraises = [n for n in ast.walk(h) if isinstance(n, ast.Raise)]
            has_retry = any(r[2] in list(ast.walk(h)) for r in retry)
            ctx.ob("C20.R1.handler", f"{f.qualname}|handler {util.expr_text(h.type) if h.type else 'bare'}",
                   not reraises and has_retry, f.where(h),
                   "handler re-fits and does not raise" if (not reraises and has_retry)
                   else ("handler raises instead of retrying" if reraises else "handler does not call solver.fit again"))
    # the first fit must be reached on every normal path of fit_model (no early return before it)
    if first:
        n1 = cfg.node_of(first[0][2])
        dom = cfg.dominates(n1, cfg.exit)
        ctx.ob("C20.R1.reach", f"{f.qualname}|fit dominates exit", dom, f.where(first[0][2]),
               "every normal path through fit_model attempts the fit" if dom else "some path returns without fitting")

    # R2 / R3 --------------------------------------------------------------------------------
    def bind(term, node):
        bound, problems = {}, []
        args, kws = term[2], term[3]
        if len(args) > len(params) and not sig["vararg"]:
            problems.append(f"{len(args)} positional arguments but fit takes {len(params)}")
        for p, a in zip(params, args):
            bound[p] = a
        for k, v in kws:
            if k is None:
                problems.append("**kwargs expansion: cannot bind statically")
            elif k in params or k in sig["kwonly"]:
                if k in bound:
                    problems.append(f"argument '{k}' given twice")
                bound[k] = v
            elif not sig["varkw"]:
                problems.append(f"unexpected keyword argument '{k}' (fit accepts: {', '.join(params)})")
        for p in params:
            if p not in bound:
                if p in defaults:
                    bound[p] = defaults[p]
                else:
                    problems.append(f"required argument '{p}' missing")
        return bound, problems

    ctx.sites("C20.R2", len(retry), 1, "retry solver.fit in the except handler")
    fb = None
    if first:
        fb, fprob = bind(first[0][1], first[0][2])
        ctx.ob("C20.R2.bind", f"{f.qualname}|first call binds", not fprob, f.where(first[0][2]),
               "first call binds against QuantileRegressionSolver.fit" if not fprob else "; ".join(fprob))
    for pc, t, n in retry:
        rb, prob = bind(t, n)
        ctx.ob("C20.R2.bind", f"{f.qualname}|retry call binds", not prob, f.where(n),
               "retry call binds against QuantileRegressionSolver.fit" if not prob
               else "retry call would raise TypeError instead of re-fitting: " + "; ".join(prob))
        if fb is None:
            continue
        for p in params:
            if p == "normalize_weights":
                v = _fold(repo, rb.get(p, ("unknown", "missing")))
                ctx.ob("C20.R3.normalize", f"{f.qualname}|retry normalize_weights", v == ("const", False), f.where(n),
                       "retry passes normalize_weights=False" if v == ("const", False)
                       else f"retry does not switch weight normalisation off (normalize_weights = {ir.show(v)})")
                fv = _fold(repo, fb.get(p, ("unknown", "missing")))
                okf = fv == ("const", True) or fv == ("param", "normalize_weights")
                ctx.ob("C20.R3.normalize", f"{f.qualname}|first normalize_weights", okf, f.where(first[0][2]),
                       "first attempt normalises weights (or follows the caller's flag)" if okf
                       else f"first attempt has normalize_weights = {ir.show(fv)}")
                continue
            a = _fold(repo, fb.get(p, ("unknown", "missing")))
            r = _fold(repo, rb.get(p, ("unknown", "missing")))
            ctx.ob("C20.R3.agree", f"{f.qualname}|retry {p}", a == r, f.where(n),
                   f"retry and first call agree on {p} = {ir.show(a)}" if a == r
                   else f"retry uses {p} = {ir.show(r)} but the failed attempt used {ir.show(a)}")

    # R4 -------------------------------------------------------------------------------------
    WARN_ORIGIN = _inaccuracy_warning_origin(ctx)
    ctx.extra["inaccuracy_warning"] = WARN_ORIGIN
    filt = []
    relax = []
    for m in repo.modules.values():
        for c in util.calls_in(m.tree):
            ch = attr_chain(c.func)
            if ch and len(ch) == 1:
                # `from warnings import filterwarnings`: the name is the module function
                imp = m.imports.get(ch[0], "")
                if imp.startswith("warnings."):
                    ch = ["warnings", imp.split(".", 1)[1]]
            if not ch or ch[0] != "warnings" and ch[-1] not in ("filterwarnings", "simplefilter", "resetwarnings"):
                continue
            if ch[-1] in ("filterwarnings", "simplefilter"):
                action = util.const(c.args[0]) if c.args else util.const(util.kwarg(c, "action"))
                cat = util.kwarg(c, "category") or (c.args[2] if len(c.args) > 2 and ch[-1] == "filterwarnings" else None)
                if ch[-1] == "simplefilter" and len(c.args) > 1:
                    cat = c.args[1]
                for _ in range(3):  # a module constant naming the category (SOLVER_WARNING = UserWarning) reads as the category
                    if isinstance(cat, ast.Name) and cat.id in m.constants:
                        cat = m.constants[cat.id]
                catn = (attr_chain(cat) or ["?"])[-1] if cat is not None else "Warning"
                modre = util.const(util.kwarg(c, "module"), "")
                toplevel = util.enclosing_stmt(c) in m.tree.body
                msgre = util.const(util.kwarg(c, "message"), "") or (util.const(c.args[1], "") if len(c.args) > 1 and ch[-1] == "filterwarnings" else "")
                covers = catn in ("UserWarning", "Warning") and _filter_matches(WARN_ORIGIN, modre, msgre)
                if action == "error" and covers and toplevel and m.name == MOD:
                    filt.append((m, c))
                elif action != "error" and catn in ("UserWarning", "Warning", "?") and _filter_matches(WARN_ORIGIN, modre, msgre):
                    relax.append((m, c))  # a non-error filter that selects the inaccuracy warning
            elif ch[-1] in ("resetwarnings",):
                relax.append((m, c))
            elif ch[-1] == "catch_warnings":
                relax.append((m, c))
    ctx.ob("C20.R4.filter", "module|warnings filter turns the solver's inaccuracy warning into an error", bool(filt),
           f"{repo.mod(MOD).relpath}:{filt[0][1].lineno if filt else 1}",
           f"a module-level filter of ConformalElectionModel turns the installed cvxpy's inaccuracy warning (issued via {WARN_ORIGIN['via']}, "
           f"attributed to {WARN_ORIGIN['attributed_to']}) into an error" if filt
           else f"no module-level warnings.filterwarnings('error', UserWarning, ..) of ConformalElectionModel selects the inaccuracy warning of the "
                f"installed cvxpy: it is issued via {WARN_ORIGIN['via']} and attributed to {WARN_ORIGIN['attributed_to']}, so a filter on "
                f"module='cvxpy' does not match; the warning is only printed, the inaccurate solution is used and never retried")
    for m, c in relax:
        ctx.ob("C20.R4.relax", f"{m.name}|{util.stmt_text(c)}", False, f"{m.relpath}:{c.lineno}",
               "this call relaxes / resets the warnings filter, so inaccurate-solution warnings may no longer raise")
    if not relax:
        ctx.ob("C20.R4.relax", "package|no relaxing filter", True, "src/elexmodel", "no call in the package resets or relaxes warning filters")
    # built-in positive example for the zero-expected rule
    probe = ast.parse("import warnings\nwarnings.simplefilter('ignore')\n")
    pc = [c for c in util.calls_in(probe) if (attr_chain(c.func) or [""])[-1] == "simplefilter" and util.const(c.args[0]) != "error"]
    ctx.selftest("C20.R4.relax", bool(pc), "warnings.simplefilter('ignore') must be recognised")

    # R5 -------------------------------------------------------------------------------------
    family = [c for c in repo.all_classes() if any(b.name == "ConformalElectionModel" for b in c.mro())]
    ctx.require(family, "ConformalElectionModel family not found")
    direct = []
    via = 0
    for c in family:
        for m in c.methods.values():
            for call in util.calls_in(m.node):
                for callee in ctx.resolver.resolve_call(m, call, c):
                    if callee == ("ext", QRS + ".fit"):
                        if m.name == "fit_model":
                            continue
                        direct.append((m, call))
                    elif getattr(callee, "name", None) == "fit_model":
                        via += 1
    r6_bad = _retry_safe(ctx, family)
    if not r6_bad:
        ctx.sites("C20.R5", via + len(direct), 3, "quantile-regression fit sites of the conformal family (median, lower, upper)")
    for m, call in direct:
        ctx.ob("C20.R5.direct", util.key(m, call), False, m.where(call),
               "quantile-regression fit bypasses fit_model: a solver failure here is fatal")
    if not direct:
        ctx.ob("C20.R5.direct", "family|all fits via fit_model", True, "ConformalElectionModel family",
               f"{via} fit_model call sites; no direct QuantileRegressionSolver.fit in {len(family)} classes")
    # each solver constructed in the family must be handed to fit_model before predict is used
    for c in family:
        for m in c.methods.values():
            loc = ctx.resolver.local_types(m)
            for name, ts in loc.items():
                if ("ext", QRS) not in ts or (m.name == "fit_model"):
                    continue
                if name in m.params:
                    continue
                passed = any(isinstance(a, ast.Name) and a.id == name
                             for call in util.method_calls(m.node, "fit_model") for a in list(call.args) + [k.value for k in call.keywords])
                ctx.ob("C20.R5.passed", f"{m.qualname}|{name}", passed, m.where(),
                       f"solver '{name}' is fitted through fit_model" if passed
                       else f"solver '{name}' is created but never passed to fit_model")
