"""C14 - enough reporting units means an estimate; too few means the dedicated error.

 R1 the dedicated error is raised exactly under  n_R < M  (strict), n_R = row count of the reporting frame returned by get_units;
 R2 M is the running maximum, from 0, over all requested interval levels of the model's own minimum;
 R3 the gate (and the duplicate-id check) dominates every model computation of get_estimates and its true branch always raises;
 R4 every dispatched estimator defines its minimum, and the minimum / training-fraction formulas are the documented ones (the
    bootstrap's is any positive number); R4.bootstrap-width: the bootstrap fits least squares, also on 4/5 of the rows, so its minimum
    has to look at the width of the design (today the constant 10: open known finding K6);
 R5 duplicate reporting unit ids - counted per unit id (value_counts / duplicated(subset=id)), not per identical row, and in the
    combined data BEFORE the exclusion rules of get_units, over every id that has a row at or above the threshold (F30) - raise
    ModelClientException (the base class, not the not-enough-subunits subclass);
 R6 split arithmetic, structural part: the number of training rows is  max(floor(n_train * fraction), 1)  with n_train the row
    count of the reporting frame - never 0 (an empty training set cannot be fit), the calibration rows are the rest, and the
    conformal quantile level is alpha (1 + 1/n_cal).  That these give n_cal >= 1 and a level < 1 for every n >= minimum is
    arithmetic over all (alpha, n): hand proof in DESIGN.md appendix B; here only that the code still is the formula the proof
    is about.
"""
from __future__ import annotations

import ast

from .. import ir, symexpr, util
from ..cfg import CFG
from ..model import AnalysisError, FuncInfo

CLIENT = "elexmodel.client"


def _strip(t):
    """Drop value-transparent wrappers."""
    while True:
        if t[0] == "call" and t[1][0] == "global" and t[1][1] in ("int", "float") and len(t[2]) == 1:
            t = t[2][0]
        else:
            return t


def _is_rowcount(t, frame_pred):
    t = _strip(t)
    if t[0] == "sub" and t[2] == ("const", 0) and t[1][0] == "attr" and t[1][2] == "shape":
        return frame_pred(t[1][1])
    if t[0] == "call" and t[1] == ("global", "len") and len(t[2]) == 1:
        return frame_pred(t[2][0])
    return False


def _get_units_elem(t, i):
    """t is element i of the tuple returned by <CombinedDataHandler>.get_units(..)"""
    return (t[0] == "sub" and t[2] == ("const", i) and t[1][0] == "call" and t[1][1][0] == "attr"
            and t[1][1][2] == "get_units")


def _counted_in_combined(l):
    """(ids come from <CombinedDataHandler(..)>.data['geographic_unit_fips'], row selection covers all reporting ids, text)"""
    vcs = [x for x in ir.walk(l) if x[0] == "call" and x[1][0] == "attr" and x[1][2] == "value_counts"]
    for vc in vcs:
        r = vc[1][1]
        sels = []
        while r[0] == "sub" and not (r[2][0] == "const" and isinstance(r[2][1], str)):
            sels.append(r[2])
            r = r[1]
        if not (r[0] == "sub" and r[2] == ("const", "geographic_unit_fips")):
            continue
        combined = r[1][0] == "attr" and r[1][2] == "data" and "CombinedDataHandler(" in ir.show(r[1][1], maxdepth=2)
        feed = r[1] == ("param", "current_data") or (r[1][0] == "phi" and ("param", "current_data") in (r[1][2], r[1][3])
                                                     and "isinstance(current_data" in ir.show(r[1][1], maxdepth=3))
        if not (combined or feed):
            continue
        if combined:
            return True, False, ("the combined data (baseline join feed): rows that the 'drop' policy removed because a result is missing, and units "
                                 "that are not in the baseline, are not in it - a second row of such a reporting unit is neither rejected nor counted")
        frame = r[1]

        def reporting_mask(m):
            m = ir.comm(m, ">=") if False else m
            return (m[0] == "cmp" and m[1] == ">=" and m[2] == ("sub", frame, ("const", "percent_expected_vote"))
                    and m[3] == ("param", "percent_reporting_threshold"))

        ok = True
        for m in sels:
            direct = reporting_mask(m)
            via_ids = (m[0] == "call" and m[1][0] == "attr" and m[1][2] == "isin" and m[1][1] == r and len(m[2]) == 1
                       and m[2][0][0] == "sub" and m[2][0][1] == r and reporting_mask(m[2][0][2]))
            if not (direct or via_ids):
                return True, False, ir.show(m, maxdepth=4)
        return True, ok, ""
    return False, False, ""


def _running_max(t, loop_iter_pred, elem_call_pred):
    """t == loopout(init=0, body=max(loopin, f(elem)))  in one of the idioms: if m > M: M = m / M = max(M, m)."""
    if t[0] == "call" and t[1] == ("global", "max") and len(t[2]) == 1 and t[2][0][0] == "comp":
        comp = t[2][0]
        gens = comp[3]
        return len(gens) == 1 and loop_iter_pred(gens[0][1]) and not gens[0][2] and elem_call_pred(comp[2]), "max(<comprehension>)"
    if t[0] == "call" and t[1] == ("global", "max") and t[2]:
        # max([0] + [f(a) for a in levels]) / max([f(a) for ..], default=0) / max(0, *[..]): the start value 0 written into the maximum
        from ..colwrites import list_templates
        items = []
        for a_ in t[2]:
            a_ = a_[1] if a_[0] == "starred" else a_
            tpl = list_templates(a_) if len(t[2]) == 1 or a_[0] in ("comp", "list", "bin") else [a_]
            if tpl is None:
                return False, f"max over {ir.show(a_, maxdepth=3)}"
            items += tpl
        consts = [x for x in items if x[0] == "const"]
        rest = [x for x in items if x[0] != "const"]
        dflt = dict(t[3]).get("default")
        if all(isinstance(x[1], (int, float)) and x[1] <= 0 for x in consts) and (dflt is None or (dflt[0] == "const" and dflt[1] == 0)) and len(rest) == 1:
            # the comprehension's element template: list_templates gives the element with its elem(levels) inside
            comp = next((y for a_ in t[2] for y in ir.walk(a_) if y[0] == "comp" and y[2] == rest[0]), None)
            if comp is not None and len(comp[3]) == 1 and loop_iter_pred(comp[3][0][1]) and not comp[3][0][2] and elem_call_pred(comp[2]):
                return True, "max(0, <comprehension>)"
        return False, f"maximum over {[ir.show(x, maxdepth=3) for x in items]}"
    if t[0] != "loopout":
        return False, f"not a loop result ({t[0]})"
    lid, name, init, body = t[1], t[2], t[3], t[4]
    if init != ("const", 0):
        return False, f"running maximum starts at {ir.show(init)}, not 0"
    # find the iterable of this loop: elem terms with this loop id
    elems = [x for x in ir.walk(body) if x[0] == "elem" and x[2] == lid]
    if not elems or not loop_iter_pred(elems[0][1]):
        return False, "loop does not iterate over the requested interval levels"

    def is_in(x):
        return x[0] == "loopin" and x[2] == lid

    if body[0] == "phi":
        cond, a, b = body[1], body[2], body[3]
        if cond[0] == "cmp" and cond[1] in (">", ">=") and is_in(cond[3]) and cond[2] == a and is_in(b) and elem_call_pred(a):
            return True, "if m > M: M = m"
        if cond[0] == "cmp" and cond[1] in ("<", "<=") and is_in(cond[2]) and cond[3] == a and is_in(b) and elem_call_pred(a):
            return True, "if M < m: M = m"
        return False, f"update is not a maximum: {ir.show(body, maxdepth=4)}"
    if body[0] == "call" and body[1] in (("global", "max"), ("global", "numpy.maximum")) and len(body[2]) == 2:
        x, y = body[2]
        if (is_in(x) and elem_call_pred(y)) or (is_in(y) and elem_call_pred(x)):
            return True, "M = max(M, m)"
    return False, f"update is not a maximum: {ir.show(body, maxdepth=4)}"


def check(ctx):
    repo = ctx.repo
    ctx.explanation = (
        "Def-use terms of ModelClient.get_estimates: the path condition of each raise is read back as a comparison of "
        "symbolic terms (row count of the first frame returned by get_units vs. a running maximum over the requested "
        "levels of model.get_minimum_reporting_units); CFG dominance orders the gate before every model computation; the "
        "minimum / training-fraction formulas of the three estimators are compared with the documented ones after "
        "normalisation to rational functions."
    )
    ctx.assumptions += [
        "not decided by analysis: that the calibration split is arithmetically valid for every (alpha, n) at or above the minimum "
        "(hand proof in DESIGN.md appendix B; R6 checks that the code is the formula the proof is about)",
    ]
    ge = ctx.fn(CLIENT, "ModelClient.get_estimates")
    b = ctx.builder()
    s = b.summarize(ge)
    cfg = CFG(ge.node)

    def _is_dup(pc):
        # the raise whose path condition looks at duplicates / counts of rows of a frame (any of the pandas idioms)
        return any(any(w in ir.show(c[0], maxdepth=12) for w in ("value_counts", "duplicated", "is_unique", "nunique", "drop_duplicates")) for c in pc[-1:])

    gate = [(pc, t, n) for pc, t, n in s.raises
            if "ModelNotEnoughSubunitsException" in ir.show(t, maxdepth=3) and not _is_dup(pc)]
    ctx.sites("C14.R1", len(gate), 1, "raise ModelNotEnoughSubunitsException in get_estimates")
    # the duplicate-id check: the raise whose path condition tests value_counts() of the unit ids
    dup = [(pc, t, n) for pc, t, n in s.raises
           if _is_dup(pc)]

    def is_R(t):
        return _get_units_elem(t, 0)

    def alpha_iter(t):
        return t == ("param", "prediction_intervals")

    def min_call(t):
        return (t[0] == "call" and t[1][0] == "attr" and t[1][2] == "get_minimum_reporting_units"
                and t[1][1][0] in ("attr", "phi") and len(t[2]) == 1 and t[2][0][0] == "elem" and alpha_iter(t[2][0][1]))

    for pc, t, n in gate:
        conds = [c for c in pc if c[0][0] != "loop"]
        last = conds[-1] if conds else None
        ok, detail = False, "raise is unconditional or its condition is not a comparison"
        if last is not None and last[0][0] == "cmp":
            op, l, r = last[0][1], last[0][2], last[0][3]
            pol = last[1]
            # normalise to  n ? M
            flip = {"<": ">", ">": "<", "<=": ">=", ">=": "<="}
            neg = {"<": ">=", ">": "<=", "<=": ">", ">=": "<"}
            if not pol:
                op = neg.get(op, op)
            if _is_rowcount(r, is_R) and not _is_rowcount(l, is_R):
                l, r, op = r, l, flip.get(op, op)
            if not _is_rowcount(l, is_R):
                detail = (f"the count compared is {ir.show(l, maxdepth=5)}, not the number of rows of the reporting frame "
                          f"returned by get_units")
            elif op != "<":
                detail = f"gate uses '{op}' where the property requires strict '<' (error iff below the minimum)"
            else:
                okm, why = _running_max(r, alpha_iter, min_call)
                ok, detail = okm, (f"raise iff n_reporting < max over requested levels of the model minimum ({why})" if okm
                                   else f"right-hand side is not the largest model minimum over all requested levels: {why}")
                ctx.ob("C14.R2.max", f"{ge.qualname}|minimum is max over alphas", okm, ge.where(n), why)
        ctx.ob("C14.R1.gate", f"{ge.qualname}|gate condition", ok, ge.where(n), detail)
        # no other condition restricts the raise
        others = [c for c in ir.own_conditions(s, pc)[:-1] if c[0][0] != "loop"]
        ctx.ob("C14.R1.unconditional", f"{ge.qualname}|gate not nested", not others, ge.where(n),
               "the gate is evaluated on every run" if not others else
               f"the gate is only evaluated under {', '.join(ir.show(c[0], maxdepth=3) for c in others)}")

    # R3: dominance -------------------------------------------------------------------------
    model_calls = []
    for c in util.own_nodes(ge, ast.Call):
        if isinstance(c.func, ast.Attribute) and isinstance(c.func.value, ast.Attribute) and c.func.value.attr == "model" \
                and c.func.attr.startswith(("get_unit", "get_aggregate")):
            model_calls.append(c)
    ctx.sites("C14.R3", len(model_calls), 4, "model computation calls in get_estimates")
    for pc, t, n in gate + dup:
        test = getattr(n, "_parent", None)
        while test is not None and not isinstance(test, ast.If):
            test = getattr(test, "_parent", None)
        ctx.require(test is not None, f"{ge.where(n)}: raise is not inside an if")
        tn = cfg.by_ast[test]
        always = all(isinstance(x, ast.Raise) for x in test.body[-1:]) and n in test.body
        which = "not-enough-subunits gate" if (pc, t, n) in gate else "duplicate-id check"
        ctx.ob("C14.R3.raises", f"{ge.qualname}|{which} true branch raises", always, ge.where(test),
               "true branch ends in the raise" if always else "true branch does not always raise")
        for c in model_calls:
            d = cfg.dominates(tn, cfg.node_of(c))
            ctx.ob("C14.R3.dominates", f"{ge.qualname}|{which} before {c.func.attr}", d, ge.where(c),
                   f"{which} precedes model.{c.func.attr} on every path" if d
                   else f"model.{c.func.attr} can run without the {which} having been evaluated")

    # R4: each estimator defines the minimum; formulas -------------------------------------------
    N = symexpr.Normalizer()
    spec_min = N.norm(symexpr.parse("ceil((1 + alpha) / (1 - alpha))"))
    for modn, cn, kind in (("elexmodel.models.NonparametricElectionModel", "NonparametricElectionModel", "nonparametric"),
                           ("elexmodel.models.GaussianElectionModel", "GaussianElectionModel", "gaussian"),
                           ("elexmodel.models.BootstrapElectionModel", "BootstrapElectionModel", "bootstrap")):
        cls = repo.cls(modn, cn)
        m = cls.lookup("get_minimum_reporting_units")
        ctx.require(m is not None, f"{cn}.get_minimum_reporting_units not found")
        if m.fq not in ctx.analysed_functions:
            ctx.analysed_functions.append(m.fq)
        inl = ctx.builder(inline=lambda caller, call, callee: callee.name == "_compute_conf_frac")
        ms = inl.summarize(m, self_cls=cls)
        rt = ms.ret()
        val = symexpr.Normalizer().norm(rt)
        if kind == "nonparametric":
            ok = val == spec_min
            ctx.ob("C14.R4.minimum", f"{cn}|minimum formula", ok, m.where(),
                   "minimum = ceil((1+alpha)/(1-alpha))" if ok else f"minimum is {val.key()}, documented ceil((1+alpha)/(1-alpha))")
        elif kind == "gaussian":
            ok = val.is_const() and val.cval() == 7
            ctx.ob("C14.R4.minimum", f"{cn}|minimum formula", ok, m.where(),
                   "minimum = 10 * 0.7 = 7" if ok else f"minimum is {val.key()}, documented 7 (10 x fixed 0.7 fraction)")
        else:
            # the statement names no number for the bootstrap: any positive constant, or max(<positive constant>, <width term>)
            pos = lambda x: x[0] == "const" and isinstance(x[1], (int, float)) and x[1] >= 1  # noqa: E731
            ok = pos(rt) or (rt[0] == "call" and rt[1] == ("global", "max") and any(pos(a_) for a_ in rt[2]))
            ctx.ob("C14.R4.minimum", f"{cn}|minimum formula", ok, m.where(),
                   f"minimum = {ir.show(rt, maxdepth=4)} (at least 1)" if ok else f"minimum is {ir.show(rt, maxdepth=4)}: not a positive number of units")
            # "whenever that minimum is met the run completes": the bootstrap fits least squares (also on 4/5 of the rows, inside the
            # cross-validation of lambda), which needs at least as many rows as the design has columns - so a minimum that never looks
            # at the design cannot be enough for every feature list
            width = any(x[0] == "attr" and x[2] in ("features", "fixed_effects", "featurizer", "strata") for x in ir.walk(rt))
            ctx.ob("C14.R4.bootstrap-width", f"{cn}|minimum accounts for the width of the design", width, m.where(),
                   "the bootstrap minimum depends on the requested features / fixed effects" if width else
                   f"the bootstrap minimum is {ir.show(rt, maxdepth=3)} whatever the design: with more columns than (4/5 of) the reporting units "
                   f"the least-squares fits of cv_lambda / the main fit fail with a shape error although the minimum is met")
    np_cls = repo.cls("elexmodel.models.NonparametricElectionModel", "NonparametricElectionModel")
    cf = np_cls.lookup("_compute_conf_frac")
    cs = ctx.builder().summarize(cf)
    got = symexpr.Normalizer().norm(cs.ret())
    want = symexpr.Normalizer().norm(symexpr.parse("round(min(1 - (1 + alpha) / (n_reporting_units * (1 - alpha)), 0.9), 2)"))
    ctx.ob("C14.R4.frac", "NonparametricElectionModel|training fraction formula", got == want, cf.where(),
           "fraction = round(min(1 - (1+alpha)/(n(1-alpha)), 0.9), 2)" if got == want
           else f"training fraction is {got.key()}, documented {want.key()}")
    g_cls = repo.cls("elexmodel.models.GaussianElectionModel", "GaussianElectionModel")
    gf = symexpr.Normalizer().norm(ctx.builder().summarize(g_cls.lookup("_compute_conf_frac")).ret())
    ctx.ob("C14.R4.frac", "GaussianElectionModel|training fraction", gf.is_const() and str(gf.cval()) == "7/10",
           g_cls.lookup("_compute_conf_frac").where(), f"gaussian training fraction = {gf.key()}")
    # the fraction handed to the split is computed from the number of reporting units and alpha
    for cls, meth in ((np_cls, "get_unit_prediction_intervals"), (g_cls, "get_unit_prediction_intervals")):
        f = cls.lookup(meth)
        fs = ctx.builder().summarize(f, self_cls=cls)
        calls = [t for _, _, t, _ in fs.assigns for x in [t] if x[0] == "call" and x[1][0] == "attr" and x[1][2] == "_compute_conf_frac"]
        ctx.require(calls, f"{f.where()}: _compute_conf_frac call not found")
        t = calls[0]
        if cls is np_cls:
            ok = len(t[2]) == 2 and _is_rowcount(t[2][0], lambda x: x == ("param", "reporting_units")) and t[2][1] == ("param", "alpha")
            ctx.ob("C14.R4.frac-args", f"{cls.name}|conf_frac arguments", ok, f.where(),
                   "fraction computed from the reporting row count and this alpha" if ok
                   else f"fraction computed from {ir.show(t, maxdepth=5)}")
        # and forwarded to get_unit_prediction_interval_bounds as conf_frac
        fwd = [x for _, _, x, _ in fs.assigns if x[0] == "call" and x[1][0] == "attr" and x[1][2] == "get_unit_prediction_interval_bounds"]
        ctx.require(fwd, f"{f.where()}: get_unit_prediction_interval_bounds call not found")
        a = fwd[0][2]
        ok = len(a) >= 5 and a[2] == t and a[3] == ("param", "alpha") and a[0] == ("param", "reporting_units")
        ctx.ob("C14.R4.frac-args", f"{cls.name}|conf_frac forwarded", ok, f.where(),
               "the split receives this fraction, this alpha and the reporting frame" if ok
               else f"split called with {ir.show(fwd[0], maxdepth=4)}")

    # R6 split arithmetic (structural part) -------------------------------------------------------
    from ..unitmodel import CM
    cm_cls = repo.cls(CM, "ConformalElectionModel")
    bf = ctx.fn(CM, "ConformalElectionModel.get_unit_prediction_interval_bounds")
    bs = ctx.builder().summarize(bf, self_cls=cm_cls)
    SELF_ = ("param", "self")
    trains = []
    pool = [bs.ret()] + [t_ for _, _, t_, _ in bs.assigns] + [t_ for _, t_, _ in bs.effects]
    for t in (x for r_ in pool for x in ir.walk(r_)):
        # reporting_units_shuffled[:TRAIN]
        if t[0] == "sub" and t[2][0] == "slice" and t[2][1] == ("const", None) and t[2][3] == ("const", None) and t[2][2] != ("const", None):
            if t[2][2] not in trains and any(x[0] == "call" and x[1][0] == "attr" and x[1][2] == "sample" for x in ir.walk(t[1])):
                trains.append(t[2][2])
    ctx.sites("C14.R6", len(trains), 1, "training-row count of the calibration split")
    nz = symexpr.Normalizer(leaf=lambda x: "n_train" if x == ("attr", SELF_, "n_train") else (x[1] if x[0] == "param" else None))
    want_tr = symexpr.Normalizer().norm(symexpr.parse("max(floor(n_train * conf_frac), 1)"))
    for tr in trains:
        got_tr = nz.norm(tr)
        ok = got_tr == want_tr
        ctx.ob("C14.R6.train-rows", f"{bf.qualname}|at least one training unit", ok, bf.where(),
               "training rows = max(floor(n_train * fraction), 1): the training set is never empty" if ok
               else f"training rows = {got_tr.key()}: at n = minimum the fraction rounds to ~0 and floor(..) = 0 leaves an empty training "
                    f"set (ZeroDivisionError in the solver); documented {want_tr.key()}")
    # n_train is the row count of the reporting frame of this call
    nt = [w for w in util.attr_writes(repo, "n_train")]
    okn = bool(nt) and all(ast.unparse(v) in ("reporting_units.shape[0]", "len(reporting_units)") for _, _, v, _ in nt)
    ctx.ob("C14.R6.n-train", "ConformalElectionModel|n_train = number of reporting units", okn,
           nt[0][0].where(nt[0][3]) if nt else bf.where(),
           "n_train is set from reporting_units.shape[0] only" if okn else f"n_train written as {[ast.unparse(v) for _, _, v, _ in nt]}")

    # R5 -------------------------------------------------------------------------------------
    if not dup:
        ctx.ob("C14.R5.duplicates", f"{ge.qualname}|duplicate ids rejected", False, ge.where(),
               "no raise in get_estimates is conditioned on repeated unit ids of the reporting frame")
    for pc, t, n in dup:
        exact = t[0] == "call" and t[1][0] == "global" and t[1][1].endswith(":ModelClientException")
        ctx.ob("C14.R5.class", f"{ge.qualname}|duplicate ids raise ModelClientException", exact, ge.where(n),
               "duplicate ids raise the client error" if exact
               else f"duplicate ids raise {ir.show(t[1]) if t[0] == 'call' else ir.show(t, maxdepth=2)} instead of ModelClientException")
        conds = [c for c in pc if c[0][0] != "loop"]
        last = conds[-1] if conds else None
        ok, detail = False, "condition not recognised"
        ne = ir.nonempty_entry(last) if last else None
        if last and (ne is not None or (last[1] and last[0][0] == "cmp" and last[0][1] in (">", ">=", "!="))):
            l = ne if ne is not None else last[0][2]
            txt = ir.show(l, maxdepth=12)
            uses_counts = "value_counts" in txt and "geographic_unit_fips" in txt
            on_R = any(_get_units_elem(x, 0) for x in ir.walk(l))
            gt1 = any(x[0] == "cmp" and x[1] == ">" and x[3] == ("const", 1) for x in ir.walk(l))
            thr = ne is not None or (last[0][3] == ("const", 0) and last[0][1] in (">", "!="))
            # F30 / F33: the ids have to be counted BEFORE the exclusion rules of get_units: in the feed itself (or in the combined data,
            # baseline join feed - which misses units that are not modelled), over the rows of every id that has a row at or above the
            # threshold (or over all rows)
            on_combined, sel_ok, sel_txt = _counted_in_combined(l)
            if uses_counts and gt1 and thr and on_R and not on_combined:
                ctx.ob("C14.R5.duplicates", f"{ge.qualname}|duplicate ids rejected", False, ge.where(n),
                       "the ids are counted among the modelled reporting units that get_units returns: a second row of a reporting unit goes "
                       "unnoticed when it is below the threshold (the unit is then counted and predicted) or when an exclusion rule (turnout "
                       "factor, blocklist ..) removes the id - both rows - from that frame")
                continue
            if uses_counts and gt1 and thr and on_combined:
                ctx.ob("C14.R5.duplicates", f"{ge.qualname}|duplicate ids rejected", sel_ok, ge.where(n),
                       "raises when the id of a unit that has a row at or above the threshold occurs more than once in the feed / the combined data "
                       "(before any exclusion rule)" if sel_ok else f"ids are counted before the exclusion rules but over {sel_txt}: not every reporting unit is covered")
                continue
            ok = uses_counts and on_R and gt1 and thr
            # other exact idioms: R[id].duplicated() / R.duplicated(subset=id) selecting rows, length > 0
            if not ok and on_R and thr:
                for x in ir.walk(l):
                    if x[0] == "call" and x[1][0] == "attr" and x[1][2] == "duplicated":
                        recv = x[1][1]
                        sub = dict(x[3]).get("subset", x[2][0] if x[2] else None)
                        by_id_col = recv[0] == "sub" and recv[2] == ("const", "geographic_unit_fips") and _get_units_elem(recv[1], 0)
                        by_subset = _get_units_elem(recv, 0) and sub in (("const", "geographic_unit_fips"), ("list", (("const", "geographic_unit_fips"),)))
                        if by_id_col or by_subset:
                            ok = True
            detail = ("raises when some unit id of the reporting frame occurs more than once" if ok else
                      f"duplicate test is {txt[:200]} {last[0][1]} {ir.show(last[0][3])}: it does not count repeated unit ids "
                      f"(rows that repeat an id but differ in another column pass)")
        ctx.ob("C14.R5.duplicates", f"{ge.qualname}|duplicate ids rejected", ok, ge.where(n), detail)
