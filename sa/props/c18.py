"""C18 - nothing is persisted unless asked; live results saved before the too-few-units error.

 R1 every call-graph path from an entry point to a persistent-write sink carries the guards the property names
    (save_output flag traced through locals / attributes / dict entries - following later update() / x[key] = v on the dict -
    / constructor arguments; remote 'results' writes additionally APP_ENV != "local"); write sites not in the frozen table are
    reported (R1.unlisted);
 R2 the live-results write dominates the raise of the not-enough-subunits error (on the paths where it is enabled), and the
    writer itself puts on every path from its entry to a normal return (must-pass-through in its CFG);
 R3 every remote key template starts with {S3_FILE_PATH}/{election_id}/ and its constant parts hold no whitespace;
 R4 prediction tables: exactly one put per entry of final_results, keyed by the entry's name;
 R5 same run (typestate of the client object): the national summary writes `self.<H>` (the results handler) under client
    attributes that get_estimates sets (save flag, election id, office, unit type, model). Every assignment of such an attribute
    in get_estimates must be dominated by an assignment of `self.<H>` in the same call (the previous run's results are dropped, or
    this run's are already in place), so a call that fails midway cannot leave old results next to new settings; no other method
    but __init__ assigns them; the handler is published only after every model step of the run (R5.published-complete, F36).
"""
from __future__ import annotations

import ast

from .. import ir, util
from ..cfg import CFG, _dominators
from ..effects import Guards, find_sinks, split_cond
from ..model import AnalysisError, FuncInfo, attr_chain

CLIENT = "elexmodel.client"
S3MOD = "elexmodel.handlers.s3"
HELPER_MODS = {S3MOD, "elexmodel.utils.file_utils"}

# write site (function that decides *what* is written) -> (flag that must guard it, APP_ENV != local required)
# frozen from today's tree, confirmed by reading; an unlisted write site reachable from an entry point is reported
SITE_TABLE = {
    "CombinedDataHandler.write_data": ("results", True, "live results"),
    "ModelResultsHandler.write_data": ("results", True, "prediction tables"),
    "GaussianModel._write_conformalization_data": ("conformalization", False, "gaussian conformalization data"),
    "GaussianModel._write_gaussian_bounds": ("conformalization", False, "gaussian bounds"),
    "PreprocessedDataHandler.save_data": ("data", False, "local preprocessed data file"),
    "ConfigHandler.save": ("config", False, "local config file"),
    "HistoricalModelClient._write_evaluation": ("results", True, "historical evaluation"),
}


# a write site that is not in the table by name (merged / renamed / inlined writer) is judged by the module it lives in: whatever the
# gaussian distribution module writes is a conformalization file
MODULE_TABLE = {
    "elexmodel.distributions.GaussianModel": ("conformalization", False, "gaussian conformalization files"),
}


def site_key(f):
    """the SITE_TABLE entry of a write site: by qualified name, or - for a writer that was moved (to module level, to another class) and
    kept its name - by the name alone when that is unambiguous"""
    if f.qualname in SITE_TABLE:
        return f.qualname
    c = [k for k in SITE_TABLE if k.split(".")[-1] == f.name]
    return c[0] if len(c) == 1 else f.qualname


def check(ctx):
    repo = ctx.repo
    cg = ctx.cg
    G = Guards(ctx)
    ctx.explanation = (
        "Effects analysis: all persistent-write sinks in the package (put_object, open for writing, to_csv to a path, "
        "makedirs, ...) are enumerated; every acyclic call-graph path from ModelClient.get_estimates / "
        "get_national_summary_votes_estimates / HistoricalModelClient.get_historical_evaluation to a sink is walked and "
        "the must-hold branch conditions along it (CFG forward must-analysis per frame) are classified as "
        "APP_ENV != 'local' or as a save_output flag by def-use tracing. Order of the live-results write w.r.t. the "
        "minimum-units raise is decided by dominance on the CFG of get_estimates; key templates are read as f-string terms."
    )
    ctx.assumptions += [
        "the storage client is only reached through elexmodel.handlers.s3 (sinks are recognised by method name)",
    ]
    roots = [ctx.fn(CLIENT, "ModelClient.get_estimates"),
             ctx.fn(CLIENT, "ModelClient.get_national_summary_votes_estimates"),
             ctx.fn(CLIENT, "HistoricalModelClient.get_historical_evaluation")]
    ge = roots[0]

    sinks = find_sinks(repo)
    ctx.sites("C18.R1.sinks", len(sinks), 4, "persistent-write sinks in the package")
    ctx.extra["sinks"] = [f"{k}: {f.where(c)} {d}" for k, f, c, d in sinks]

    # ---- R1 ------------------------------------------------------------------------------
    npaths = 0
    reachable_sites = set()
    reachable_modules = set()
    for kind, sf, scall, desc in sinks:
        for root in roots:
            paths = [[]] if sf is root else cg.paths(root, sf, limit=400)
            if len(paths) >= 400:
                raise AnalysisError(f"too many call paths from {root.qualname} to {sf.qualname}")
            for p in paths:
                frames = p + [(sf, scall)]
                if root is roots[2] and any(f is ge for f, _ in frames):
                    continue  # already covered with root get_estimates
                npaths += 1
                # write site = last frame outside the helper modules
                site = None
                for f, c in reversed(frames):
                    if f.module.name not in HELPER_MODS:
                        site = f
                        break
                if site is None:
                    site = frames[-1][0]
                reachable_sites.add(site_key(site))
                facts_env = False
                flags = set()
                for f, c in frames:
                    for expr, pol in G.atoms(f, c):
                        if G.is_env_nonlocal(f, expr, pol):
                            facts_env = True
                        elif pol:
                            t = G.trace(f, expr)
                            if isinstance(t, set):
                                flags |= t
                chain = " -> ".join(f.qualname for f, _ in frames)
                key = f"{root.qualname}|{chain}|{util.stmt_text(frames[-1][1], 60)}"
                where = frames[-1][0].where(frames[-1][1])
                want = SITE_TABLE.get(site_key(site)) or MODULE_TABLE.get(site.module.name)
                if site_key(site) not in SITE_TABLE and site.module.name in MODULE_TABLE:
                    reachable_modules.add(site.module.name)
                if want is None:
                    ctx.ob("C18.R1.unlisted", key, bool(flags), where,
                           f"write site {site.qualname} ({desc}) is not a known artefact; guarded by flags {sorted(flags)}"
                           if flags else f"{kind} write '{desc}' in {site.qualname} is reachable from {root.qualname} with no "
                                         f"save_output flag on the path {chain}: it happens even with save_output=[]")
                    continue
                flag, need_env, what = want
                ok = flag in flags and (facts_env or not need_env)
                miss = []
                if flag not in flags:
                    miss.append(f"no guard equal to '\"{flag}\" in save_output'")
                if need_env and not facts_env:
                    miss.append("no guard APP_ENV != \"local\"")
                ctx.ob("C18.R1.guard", key, ok, where,
                       f"{what}: path carries flags {sorted(flags)}" + (", APP_ENV != local" if facts_env else "") if ok
                       else f"{what} written on path {chain} without the required guard: " + "; ".join(miss))
    ctx.count("C18.R1.paths", npaths)
    for s in ("CombinedDataHandler.write_data", "ModelResultsHandler.write_data", "PreprocessedDataHandler.save_data",
              "ConfigHandler.save", "GaussianModel._write_conformalization_data", "GaussianModel._write_gaussian_bounds"):
        if s.startswith("GaussianModel.") and "elexmodel.distributions.GaussianModel" in reachable_modules:
            continue  # the gaussian writers were merged / renamed / inlined: their puts were judged through MODULE_TABLE
        ctx.require(s in reachable_sites, f"C18.R1: write site {s} is no longer reachable from the entry points "
                                          f"(call graph edge lost or anchor renamed)")
    # built-in positive example: an unguarded sink must yield no flags
    probe = ast.parse("def f(df):\n    df.to_csv('x.csv')\n")
    for n in ast.walk(probe):
        for c in ast.iter_child_nodes(n):
            c._parent = n
    ctx.selftest("C18.R1.guard", not CFG(probe.body[0]).guards(CFG(probe.body[0]).entry), "unguarded sink has no guards")

    # ---- R2 ------------------------------------------------------------------------------
    cfg = G.cfg(ge)
    writes = []
    for c in util.own_nodes(ge, ast.Call):
        for callee in ctx.resolver.resolve_call(ge, c):
            if isinstance(callee, FuncInfo) and callee.qualname == "CombinedDataHandler.write_data":
                writes.append(c)
    raises = [n for n in util.own_nodes(ge, ast.Raise)
              if n.exc is not None and "ModelNotEnoughSubunitsException" in ast.unparse(n.exc)]
    ctx.sites("C18.R2", len(writes), 1, "live-results write call in get_estimates")
    ctx.sites("C18.R2.raise", len(raises), 1, "raise ModelNotEnoughSubunitsException in get_estimates")
    for r in raises:
        rn = cfg.node_of(r)
        ok_any = False
        for w in writes:
            wn = cfg.node_of(w)
            # prune the "write disabled" edges: else-edges of the ifs lexically enclosing the write
            banned = set()
            child, p = util.enclosing_stmt(w), getattr(util.enclosing_stmt(w), "_parent", None)
            while p is not None and p is not ge.node:
                if isinstance(p, ast.If) and child in p.body:
                    banned.add(cfg.by_ast[p])
                child, p = p, getattr(p, "_parent", None)
            pred = {n: [(a, lab) for a, lab in cfg.pred[n]
                        if not (a in banned and lab and lab[0] == "cond" and lab[2] is False)] for n in cfg.nodes}
            dom = _dominators(cfg.nodes, cfg.entry, pred)
            if wn in dom.get(rn, ()):
                ok_any = True
        ctx.ob("C18.R2.order", f"{ge.qualname}|write before {util.stmt_text(r, 60)}", ok_any, ge.where(r),
               "the live-results write dominates the not-enough-subunits raise (when enabled)" if ok_any
               else "a path reaches the not-enough-subunits raise without having written the live results")

    # the callee itself must put on every normal path (a write call that can return without writing saves nothing)
    wdf = ctx.fn("elexmodel.handlers.data.CombinedData", "CombinedDataHandler.write_data")
    wcfg = CFG(wdf.node)
    wputs = [c for c in util.own_nodes(wdf, ast.Call) if isinstance(c.func, ast.Attribute) and c.func.attr == "put"
             and any(isinstance(x, FuncInfo) and x.module.name == S3MOD for x in ctx.resolver.resolve_call(wdf, c))]
    ctx.sites("C18.R2.unconditional", len(wputs), 1, "remote put calls in CombinedDataHandler.write_data")
    must = [c for c in wputs if wcfg.every_path_passes(wcfg.entry, wcfg.exit, {wcfg.node_of(c)})]
    ctx.ob("C18.R2.unconditional", f"{wdf.qualname}|every normal return has written the live results", bool(must), wdf.where(),
           f"{len(must)} of {len(wputs)} put calls lie on every path from entry to a normal return" if must
           else "the live-results writer can return without any put (early return / conditional write): a run that ends in the "
                "not-enough-subunits error has then saved nothing")
    if must:
        first = min(must, key=lambda c: (c.lineno, c.col_offset))
        keyt = ast.unparse(first.args[0]) if first.args else ""
        ctx.ob("C18.R2.unconditional", f"{wdf.qualname}|the unconditional put is the full live-results file", len(must) == len(wputs), wdf.where(first),
               "all puts of the live results are unconditional" if len(must) == len(wputs)
               else f"only {len(must)} of {len(wputs)} live-results files are written on every path")

    # ---- R3 ------------------------------------------------------------------------------
    b = ctx.builder()
    nkeys = 0
    for f in repo.all_functions():
        if f.module.name == S3MOD:
            continue
        puts = []
        for c in util.own_nodes(f, ast.Call):
            if isinstance(c.func, ast.Attribute) and c.func.attr == "put":
                cs = ctx.resolver.resolve_call(f, c)
                if any(isinstance(x, FuncInfo) and x.module.name == S3MOD for x in cs):
                    puts.append(c)
        if not puts:
            continue
        s = b.summarize(f)
        by_node = {}
        for pc, t, n in s.effects:
            for c in puts:
                if n is util.enclosing_stmt(c) and t[0] == "call":
                    by_node[c] = t
        for c in puts:
            t = by_node.get(c)
            ctx.require(t is not None and t[2], f"{f.where(c)}: put call shape not recognised")
            keyt = t[2][0]
            nkeys += 1
            problems = _key_problems(keyt)
            # a placeholder has to be a scalar: str() of a list / tuple / dict is "['a', 'b']" - brackets, quotes and ", " with a blank as
            # soon as it has two entries (e.g. the key list of an aggregate below the state level)
            for ph in (keyt[1] if keyt[0] == "fstr" else ()):
                why = _collection_valued(f, ph)
                if why:
                    problems.append(f"placeholder {ir.show(ph)} is a collection ({why}): its text contains ', ' whenever it has two entries")
            if problems and any("election_id" in p_ for p_ in problems):
                # the election id may reach the writer packed in another argument (a tuple of ids ..): read the template with the arguments of
                # every call site in place of the parameters
                per_site = []
                for g_, cn_ in ctx.cg.callers_of(f):
                    if not isinstance(cn_, ast.Call):
                        continue
                    gs_ = b.summarize(g_)
                    ct_ = next((x for _, t_, _ in list(gs_.effects) + [(None, t2, None) for _, _, t2, _ in gs_.assigns] for x in ir.walk(t_)
                                if x[0] == "call" and b.loc.get(x) and b.loc[x][1] is cn_), None)
                    if ct_ is None:
                        per_site = None
                        break
                    bind_ = ir.bind_args(f, ct_[2], ct_[3], method=f.cls is not None) or {}
                    k2 = ir.subst(keyt, {("param", p_): a_ for p_, a_ in bind_.items() if isinstance(a_, tuple)})
                    # (a, b, c)[i] of a display is its element
                    k2 = ir.map_terms(k2, lambda x: x[1][1][x[2][1]] if x[0] == "sub" and x[1][0] in ("tuple", "list") and x[2][0] == "const" and isinstance(x[2][1], int)
                                      and 0 <= x[2][1] < len(x[1][1]) else x) if hasattr(ir, "map_terms") else k2
                    per_site.append(_key_problems(k2))
                if per_site:
                    problems = [p_ for ps_ in per_site for p_ in ps_]
            ctx.ob("C18.R3.key", f"{f.qualname}|{util.stmt_text(c, 80)}", not problems, f.where(c),
                   f"key template {ir.show(keyt)} is rooted at S3_FILE_PATH/election_id and whitespace-free" if not problems
                   else f"key template {ir.show(keyt)}: " + "; ".join(problems))
    ctx.sites("C18.R3", nkeys, 6, "remote put call sites with a key template")

    # ---- R4 ------------------------------------------------------------------------------
    wd = ctx.fn("elexmodel.handlers.data.ModelResults", "ModelResultsHandler.write_data")
    loops = [n for n in util.own_nodes(wd, ast.For)
             if "final_results" in ast.unparse(n.iter) and isinstance(n.iter, ast.Call)
             and isinstance(n.iter.func, ast.Attribute) and n.iter.func.attr == "items"]
    ctx.sites("C18.R4", len(loops), 1, "loop over final_results.items() in ModelResultsHandler.write_data")
    lp = loops[0]
    kname, vname = [e.id for e in lp.target.elts] if isinstance(lp.target, ast.Tuple) else (None, None)
    puts = [c for c in util.method_calls(lp, "put")]
    allputs = [c for c in util.method_calls(wd.node, "put")]
    ok = len(puts) == 1 and len(allputs) == 1
    detail = "exactly one put per entry"
    if ok:
        p = puts[0]
        s = b.summarize(wd)
        t = next((t for pc, t, n in s.effects if n is util.enclosing_stmt(p)), None)
        elems = [x for x in ir.walk(t) if x[0] == "elem"] if t else []
        key_dep = any(x[0] == "sub" and x[1][0] == "elem" and x[2] == ("const", 0) for x in ir.walk(t[2][0])) if t else False
        val_dep = any(x[0] == "sub" and x[1][0] == "elem" and x[2] == ("const", 1) for x in ir.walk(t[2][1])) if t and len(t[2]) > 1 else False
        # guards inside the loop other than the `keys` filter
        cfg = G.cfg(wd)
        atoms = []
        for test, pol in cfg.guards(cfg.node_of(p)):
            atoms += split_cond(test, pol)
        extra = [ast.unparse(e) for e, pol in atoms if "keys" not in util.names_in(e) and "final_results" not in ast.unparse(e)]
        ok = key_dep and val_dep and not extra
        detail = ("one put per entry of final_results, key from the entry name, body from the entry's table" if ok else
                  f"put inside the loop is not one-per-entry: key uses entry name={key_dep}, body uses entry table={val_dep}, "
                  f"extra conditions={extra}")
    else:
        detail = f"{len(puts)} put call(s) inside the loop, {len(allputs)} in the function (expected exactly one, in the loop)"
    ctx.ob("C18.R4.each", f"{wd.qualname}|one put per final_results entry", ok, wd.where(lp), detail)
    # the estimate run calls it without a `keys` restriction
    for c in util.own_nodes(ge, ast.Call):
        for callee in ctx.resolver.resolve_call(ge, c):
            if callee is wd:
                kw = util.kwarg(c, "keys")
                nokeys = (kw is None or util.is_const(kw, None)) and len(c.args) <= 3
                ctx.ob("C18.R4.all", f"{ge.qualname}|{util.stmt_text(c, 80)}", nokeys, ge.where(c),
                       "get_estimates writes every returned table" if nokeys else "get_estimates restricts which tables are written")

    # ---- R5 ------------------------------------------------------------------------------
    _same_run_rule(ctx, G)


def _same_run_rule(ctx, G):
    ge = ctx.fn(CLIENT, "ModelClient.get_estimates")
    ns = ctx.fn(CLIENT, "ModelClient.get_national_summary_votes_estimates")

    def self_attr(n):
        return n.attr if isinstance(n, ast.Attribute) and isinstance(n.value, ast.Name) and n.value.id == "self" else None

    # H: receiver of the summary's write; S: every client attribute the summary reads
    holders = set()
    for c in util.own_nodes(ns, ast.Call):
        for callee in ctx.resolver.resolve_call(ns, c):
            if isinstance(callee, FuncInfo) and site_key(callee) in SITE_TABLE and isinstance(c.func, ast.Attribute) and self_attr(c.func.value):
                holders.add(self_attr(c.func.value))
    ctx.sites("C18.R5", len(holders), 1, "persistent write on a client attribute in get_national_summary_votes_estimates")
    reads = {self_attr(n) for n in util.own_nodes(ns, ast.Attribute) if isinstance(n.ctx, ast.Load) and self_attr(n)}
    reads = {a for a in reads if ns.cls.lookup(a) is None}  # data attributes, not methods

    def stores(fn):
        out = []
        for n in util.own_nodes(fn, ast.Attribute):
            if isinstance(n.ctx, ast.Store) and self_attr(n):
                out.append(n)
        return out

    cfg = G.cfg(ge)
    st = stores(ge)
    n_checked = 0
    for H in sorted(holders):
        hnodes = [cfg.node_of(n) for n in st if n.attr == H]
        for n in st:
            if n.attr == H or n.attr not in reads:
                continue
            n_checked += 1
            nn = cfg.node_of(n)
            ok = any(h is not nn and cfg.dominates(h, nn) for h in hnodes)
            ctx.ob("C18.R5.same-run", f"{ge.qualname}|{util.stmt_text(n, 70)}: after self.{H} of the earlier run is gone", ok, ge.where(n),
                   f"self.{n.attr} (read by the national summary next to self.{H}) is assigned only after self.{H} has been reassigned in this call" if ok
                   else f"self.{n.attr} is assigned while self.{H} can still hold the previous run's results: if this call fails before it "
                        f"replaces them, get_national_summary_votes_estimates() writes the previous run's summary under this call's {n.attr}")
    ctx.sites("C18.R5.same-run", n_checked, 2, "client attributes shared by get_estimates and the national summary")
    # ... and the handler is published (assigned something other than None) only when the run's model steps are behind it: a model step
    # that raises (an unknown name on the stop list is only detected in the aggregate interval step) must not leave a half-filled handler of
    # the failed run for a later national summary (F36)
    for H in sorted(holders):
        pubs = [n for n in st if n.attr == H and not (isinstance(util.enclosing_stmt(n), ast.Assign) and util.is_const(util.enclosing_stmt(n).value, None))]
        steps = [c for c in util.own_nodes(ge, ast.Call) if isinstance(c.func, ast.Attribute) and isinstance(c.func.value, ast.Attribute)
                 and isinstance(c.func.value.value, ast.Name) and c.func.value.value.id == "self" and c.func.value.attr == "model"]
        ctx.sites("C18.R5.published-complete", len(steps), 3, "model steps (self.model.<step>(..)) in get_estimates")
        for n in pubs:
            after = cfg.reachable_from(cfg.node_of(n))
            late = [c for c in steps if cfg.node_of(c) in after]
            ctx.ob("C18.R5.published-complete", f"{ge.qualname}|{util.stmt_text(n, 60)}: after every model step", not late, ge.where(n),
                   f"self.{H} receives the run's results only after all {len(steps)} model steps" if not late else
                   f"self.{H} is published before {len(late)} model step(s) (first: {util.stmt_text(late[0], 70)}): if one of them raises, a later "
                   f"get_national_summary_votes_estimates() summarises - and with 'results' writes - the half-finished failed run")
    # nobody else assigns them
    for fn in ctx.repo.all_functions():
        if fn.cls is None or fn is ge or fn.name == "__init__" or ns.cls not in fn.cls.mro():
            continue
        for n in stores(fn):
            if n.attr in reads | holders:
                ctx.ob("C18.R5.same-run", f"{fn.qualname}|self.{n.attr} assigned outside get_estimates", False, fn.where(n),
                       f"{fn.qualname} assigns self.{n.attr}, which the national summary combines with the state of the last get_estimates call")


def _key_problems(t):
    problems = []
    if t[0] != "fstr":
        return [f"not an f-string template ({t[0]})"]
    parts = t[1]
    if not (parts and parts[0][0] == "global" and parts[0][1].endswith("S3_FILE_PATH")):
        problems.append("does not start with {S3_FILE_PATH}")
    if not (len(parts) > 2 and parts[1] == ("const", "/") and _is_election_id(parts[2])
            and parts[3][0] == "const" and parts[3][1].startswith("/")):
        problems.append("second path segment is not {election_id}")
    for p in parts:
        if p[0] == "const" and isinstance(p[1], str) and any(ch.isspace() for ch in p[1]):
            problems.append(f"constant part {p[1]!r} contains whitespace")
    return problems


def _collection_valued(f, t):
    """why the term formatted into a key is a list / tuple / dict / set (None if nothing says so): a display, or a parameter / local that
    the same function slices, concatenates with a list display, or declares with a list default"""
    if t[0] in ("list", "tuple", "dict", "set", "listcomp"):
        return f"a {t[0]} display"
    if t[0] == "call" and t[1][0] == "global" and t[1][1] in ("list", "tuple", "sorted", "set", "dict"):
        return f"result of {t[1][1]}()"
    name = t[1] if t[0] in ("param", "name") and isinstance(t[1], str) else None
    if name is None:
        return None
    a = f.node.args
    pos = a.posonlyargs + a.args
    for arg, d in list(zip(pos[len(pos) - len(a.defaults):], a.defaults)) + [(k, d) for k, d in zip(a.kwonlyargs, a.kw_defaults) if d is not None]:
        if arg.arg == name and isinstance(d, (ast.List, ast.Tuple, ast.Dict, ast.Set)):
            return "list default"
    for arg in pos + a.kwonlyargs:
        if arg.arg == name and arg.annotation is not None and ast.unparse(arg.annotation).split("[")[0].lower() in ("list", "tuple", "dict", "set", "typing.list"):
            return "annotated as a collection"
    for n in ast.walk(f.node):
        if isinstance(n, ast.Subscript) and isinstance(n.value, ast.Name) and n.value.id == name and isinstance(n.slice, ast.Slice):
            return "sliced in the same function"
        if isinstance(n, ast.BinOp) and isinstance(n.op, ast.Add):
            for x, y in ((n.left, n.right), (n.right, n.left)):
                if isinstance(x, ast.Name) and x.id == name and isinstance(y, (ast.List, ast.Tuple)):
                    return "concatenated with a list display in the same function"
    return None


def _is_election_id(t):
    if t[0] == "param":
        return t[1] == "election_id"
    if t[0] == "attr":
        return t[2] == "election_id"
    return False
