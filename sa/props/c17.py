"""C17 - margin histories interpolate within bounds; irregular histories are discarded.

 R1 both irregularity tests (non-monotone re-scaled turnout; |batch margin| > 1) return early, before any estimate is computed; the
    batch return is also taken when the dem or the gop count goes down between two versions (R1.party-decrease, F37: the quotient of two
    negative differences is back inside [-1, 1]); the monotonicity test looks at the turnout itself (R1.raw-turnout); every OTHER
    return that hands back estimates (a shortcut frame with error_type 'none') is dominated by both tests as well (R1.before);
 R2 each early return is a 101-row frame (percents 0..100) of NaN estimates / corrections with its own error_type;
 R3 est(p) = (m_i v_i + b_i (p - v_i)) / p  with i = last observation <= p  (searchsorted(side='right') - 1, clipped to the valid
    range), b_i the margin of the batch that follows observation i; the weights v_i/p and (p - v_i)/p are a convex combination
    because v_i <= p by the choice of i;
 R4 before the first observation (i = -1): v = 0, m = b = first observed margin, so est = first observed margin; at p = 0, where
    there is nothing to average, the value is the out buffer of the division, which must be a float copy of b_i (R4.zero-percent);
 R5 correction = last observed margin - est; one row per whole percent 0..int(max percent); the percent axis is the turnout
    re-scaled to the latest reported percent, computed in a buffer that is floating point whatever the dtype of the vote counts
    (R5.rescale-float: zeros_like(<integer column>) + casting='unsafe' truncates every share below 1 to 0);
 R6 _extrapolate_unit_margin averages, per nonreporting unit, only corrections that are non-null and whose percent is within
    max_dist_to_observed of an actual observation.
 R7 the history stored by get_versioned_results (S3 route) is the whole download: columns added, rows re-ordered, no version left out.
Not decided: numeric range for given data.
"""
from __future__ import annotations

import ast

from .. import ir, symexpr, util
from ..cfg import CFG
from ..model import AnalysisError

VD = "elexmodel.handlers.data.VersionedData"
BM = "elexmodel.models.BootstrapElectionModel"
DF = ("param", "df")


def _root(t):
    while t[0] in ("setitem",):
        t = t[1]
    return t


def _disjuncts(t, pol):
    """the disjuncts (term, polarity) of a condition taken with polarity pol"""
    if t[0] == "un" and t[1] == "not":
        return _disjuncts(t[2], not pol)
    if t[0] == "bool" and ((t[1] == "or" and pol) or (t[1] == "and" and not pol)):
        return [d for x in t[2] for d in _disjuncts(x, pol)]
    if t[0] == "bin" and ((t[1] == "|" and pol) or (t[1] == "&" and not pol)):
        return [d for x in t[2:4] for d in _disjuncts(x, pol)]
    return [(t, pol)]


def _reduction(t, names):
    """np.any(v) / v.any() -> ('any', v)   (names: the reductions looked for)"""
    if t[0] == "call" and t[1][0] == "global" and t[1][1] in {"numpy." + n for n in names} and t[2]:
        return t[1][1].split(".")[1], t[2][0]
    if t[0] == "call" and t[1][0] == "attr" and t[1][2] in names and not t[2]:
        return t[1][2], t[1][1]
    return None


_FLIP = {"<": ">=", ">=": "<", ">": "<=", "<=": ">"}
_SWAP = {"<": ">", ">": "<", "<=": ">=", ">=": "<="}


def _step_compare(t):
    """an elementwise comparison of consecutive versions of one column: ('<', column) means  x[i+1] < x[i]  (a decrease)
    np.diff(x) < 0,  0 > np.diff(x),  x[1:] < x[:-1],  x[:-1] > x[1:]"""
    if t[0] != "cmp" or t[1] not in _FLIP:
        return None
    op, a, b = t[1], t[2], t[3]
    if a == ("const", 0):
        op, a, b = _SWAP[op], b, a
    if b == ("const", 0) and a[0] == "call" and a[1] == ("global", "numpy.diff") and len(a[2]) == 1 and not a[3]:
        col = _colarr(a[2][0])
        return (op, col) if col else None

    def sl(x):  # x[1:] -> (column, 'tail'); x[:-1] -> (column, 'head')
        if x[0] == "sub" and x[2][0] == "slice":
            lo, hi, st = x[2][1:4]
            col = _colarr(x[1])
            none = (None, ("const", None))
            if col and st in none:
                if lo == ("const", 1) and hi in none:
                    return col, "tail"
                if lo in none and hi == ("const", -1):
                    return col, "head"
        return None

    sa, sb = sl(a), sl(b)
    if sa and sb and sa[0] == sb[0] and {sa[1], sb[1]} == {"tail", "head"}:
        return (op if sa[1] == "tail" else _SWAP[op]), sa[0]
    return None


def _decrease_tests(t, pol):
    """columns c for which (t taken with polarity pol) holds whenever c decreases between two versions:
    any(step < 0) / not all(step >= 0) / min(step) < 0"""
    out = set()
    r = _reduction(t, ("any", "all"))
    if r:
        if r[0] == "any" and pol and r[1][0] == "bin" and r[1][1] == "|":  # any(a | b) = any(a) or any(b)
            for x in r[1][2:4]:
                out |= _decrease_tests(("call", ("global", "numpy.any"), (x,), ()), True)
            return out
        sc = _step_compare(r[1])
        if sc:
            if r[0] == "any" and pol and sc[0] == "<":
                out.add(sc[1])
            if r[0] == "all" and not pol and sc[0] == ">=":
                out.add(sc[1])
        return out
    if t[0] == "cmp" and t[1] in _FLIP:
        op, a, b = t[1], t[2], t[3]
        if a == ("const", 0):
            op, a, b = _SWAP[op], b, a
        if not pol:
            op = _FLIP[op]
        r = _reduction(a, ("min",)) if b == ("const", 0) else None
        if r and op == "<" and r[1][0] == "call" and r[1][1] == ("global", "numpy.diff") and len(r[1][2]) == 1:
            col = _colarr(r[1][2][0])
            if col:
                out.add(col)
    return out


def _colarr(t):
    """df'[name].to_numpy() / df'[name].values -> name (df' = df with column assignments)"""
    if t[0] == "call" and t[1][0] == "attr" and t[1][2] == "to_numpy" and not t[2]:
        t = t[1][1]
    elif t[0] == "attr" and t[2] == "values":
        t = t[1]
    else:
        return None
    if t[0] == "sub" and t[2][0] == "const" and isinstance(t[2][1], str) and _root(t[1]) == DF:
        return t[2][1]
    return None


def _is_float_dtype(t):
    return t in (("global", "float"), ("global", "numpy.float64"), ("global", "numpy.float_"), ("const", "float"), ("const", "float64"),
                 ("global", "numpy.double"))


def _float_copy_of(t):
    """x.astype(float) / numpy.array(x, dtype=float) / numpy.asarray(x, dtype=float) -> x ; else None"""
    if t[0] == "call" and t[1][0] == "attr" and t[1][2] == "astype" and t[2] and _is_float_dtype(t[2][0]):
        return t[1][1]
    if t[0] == "call" and t[1][0] == "global" and t[1][1] in ("numpy.array", "numpy.asarray") and t[2] and _is_float_dtype(dict(t[3]).get("dtype", ("const", None))):
        return t[2][0]
    return None


def _float_buffer(t):
    """Is `t` provably a floating-point array whatever the dtype of the data? (zeros_like(x) inherits x's dtype and is not)"""
    if _float_copy_of(t) is not None:
        return True
    if t[0] == "call" and t[1][0] == "global":
        name = t[1][1]
        dt = dict(t[3]).get("dtype")
        if name in ("numpy.zeros_like", "numpy.ones_like", "numpy.empty_like", "numpy.full_like"):
            return dt is not None and _is_float_dtype(dt)
        if name in ("numpy.zeros", "numpy.ones", "numpy.empty"):
            return dt is None or _is_float_dtype(dt)
    return False


KEEPS_ROWS = {"sort_values", "reset_index", "copy", "rename", "astype", "fillna", "assign", "sort_index", "set_index", "convert_dtypes", "infer_objects"}
DROPS_ROWS = {"query", "dropna", "drop_duplicates", "head", "tail", "sample", "nlargest", "nsmallest", "truncate", "first", "last", "filter"}


def _history_complete(ctx, b):
    """R7.history-complete: irregular histories can only be recognised if the per-unit pass sees every version that was downloaded: the
    frame get_versioned_results stores (S3 route) is the download with columns added and rows re-ordered - no row of it is left out
    (a zero-vote version between two versions with votes IS the irregularity)."""
    f = ctx.fn(VD, "VersionedDataHandler.get_versioned_results")
    s = b.summarize(f)

    def is_get(t):
        return t[0] == "call" and t[1][0] == "attr" and t[1][2] == "get" and t[1][1][0] == "attr" and t[1][1][2] == "s3_client"

    def spine(t):
        """-> None if every row of the download reaches t, else a description of the step that leaves rows out"""
        for _ in range(60):
            k = t[0]
            if is_get(t):
                return None
            if k in ("setitem", "setattr", "mut"):
                t = t[1]
            elif k == "phi":
                return spine(t[2]) or spine(t[3])
            elif k == "call" and t[1][0] == "attr" and t[1][2] in KEEPS_ROWS:
                t = t[1][1]
            elif k == "call" and t[1][0] == "attr" and t[1][2] == "drop":
                kws = dict((k_, v_) for k_, v_ in t[3])
                if "columns" in kws or kws.get("axis") in (("const", 1), ("const", "columns")):
                    t = t[1][1]
                else:
                    return f"{ir.show(t, maxdepth=2)[:80]} drops rows"
            elif k == "call" and t[1][0] == "attr" and t[1][2] in DROPS_ROWS:
                return f".{t[1][2]}(..) leaves versions out"
            elif k == "call" and t[1][0] == "attr" and t[1][2] == "add_estimand_results" and t[2]:
                t = t[2][0]
            elif k == "sub" and t[2][0] == "const" and isinstance(t[2][1], int):
                t = t[1]  # element of the (frame, columns) pair returned by the estimandizer
            elif k == "sub" and t[2][0] in ("list", "const", "fstr"):
                t = t[1]  # column selection
            elif k == "sub":
                return f"row filter [{ir.show(t[2], maxdepth=3)[:90]}] leaves versions out"
            elif k == "attr" and t[2] in ("loc", "iloc"):
                t = t[1]
            else:
                raise AnalysisError(f"{f.where()}: stored history not understood as a view of the download: {ir.show(t, maxdepth=3)[:140]}")
        raise AnalysisError(f"{f.where()}: stored history too deep")

    n = 0
    for pc, attr, t, node in [(w[0], w[1], w[2], w[3] if len(w) > 3 else None) for w in s.attr_writes]:
        if attr != "data" or t == ("const", None) or is_get(t) or not any(is_get(x) for x in ir.walk(t)):
            continue
        n += 1
        why = spine(t)
        ctx.ob("C17.R7.history-complete", f"{f.qualname}|every downloaded version reaches the per-unit pass", why is None, f.where(node) if node is not None else f.where(),
               "the stored history is the download with columns added / rows re-ordered" if why is None
               else f"{why}: the per-unit pass no longer sees the versions that make a history irregular (500 -> 0 -> 820 reads as 500 -> 820)")
    ctx.sites("C17.R7", n, 1, "assignment of the downloaded history to self.data in get_versioned_results")


def check(ctx):
    repo = ctx.repo
    ctx.explanation = (
        "The per-unit interpolation is vectorised numpy code whose edge cases depend on index arithmetic. Its def-use term is "
        "normalised with the index expressions as named atoms (i = searchsorted(right) - 1, clipped; where(i == -1, a, b)) and "
        "compared with the statement's formula as a rational function; the early returns are checked on the CFG and by shape; "
        "the consumer's filter is matched structurally."
    )
    ctx.assumptions += ["numpy.searchsorted(a, v, side='right') - 1 is the index of the last element of the sorted array a that is <= v",
                        "np.divide(x, y, where=c, out=buf) is x / y where c holds and keeps buf's values elsewhere, in buf's dtype"]
    f = ctx.fn(VD, "VersionedDataHandler.compute_versioned_margin_estimate")
    g = f.nested.get("compute_estimated_margin")
    ctx.require(g is not None, f"{f.where()}: per-unit function compute_estimated_margin not found")
    b = ctx.builder()
    s = b.summarize(g)
    rets = s.returns
    ctx.sites("C17.R1", len(rets), 3, "returns of the per-unit function (two early, one main)")
    # the error frames are literals that do not read the unit's history; the main return is the one computed from it (which of them sits in
    # an `if` body, an `else` or after a guard clause is a matter of spelling: the path conditions are the same)
    main = [r for r in rets if any(x == DF for x in ir.walk(r[1]))]
    early = [r for r in rets if r not in main]
    ctx.require(len(main) == 1, f"{g.where()}: expected exactly one unconditional return")
    # ---- R1 / R2 -------------------------------------------------------------------------------------
    kinds = {}
    for pc, t, n in early:
        c = pc[-1]
        txt = ir.show(c[0], maxdepth=12)
        diffs = [x for x in ir.walk(c[0]) if x[0] == "call" and x[1] == ("global", "numpy.diff") and x[2]]
        if diffs and "results_turnout" in txt and ">= 0" in txt and ("numpy.all" in txt or ">= 0).all()" in txt):
            okc = (not c[1]) or txt.startswith("(not ")
            # the test has to look at the turnout history ITSELF: the share of the final turnout (turnout / turnout[-1], written
            # into a zero buffer where the final turnout is 0) is constant 0 for a history that ends with no votes, which then
            # passes as monotone (500 -> 1000 -> 0)
            raw = _colarr(diffs[0][2][0]) == "results_turnout"
            kinds["monotone"] = (okc and raw, t, n, txt)
            if okc and not raw:
                ctx.ob("C17.R1.raw-turnout", f"{g.qualname}|monotonicity tested on the turnout itself", False, g.where(n),
                       f"monotonicity is tested on {ir.show(diffs[0][2][0], maxdepth=3)[:120]}, which is identically 0 when the last version has no "
                       f"votes: a history revised down to nothing at the end passes as monotone")
        elif "numpy.abs(" in txt and (".max() > 1" in txt or "> 1).any()" in txt or "numpy.max(numpy.abs(" in txt or "numpy.any((numpy.abs(" in txt) \
                and "results_dem" in txt and "results_gop" in txt and "results_weights" in txt:
            # max |b| > 1  and  any(|b| > 1)  are the same test (the batch margins have no NaN at that point: R3.batch)
            kinds["batch"] = (c[1], t, n, txt)
    # F37: a batch that takes votes away from a party is impossible too, and the quotient test cannot see it: with both differences
    # negative (or one negative, one zero) the batch margin lands inside [-1, 1] again. The batch return has to be taken as well whenever
    # the dem or the gop count goes down between two versions.
    if "batch" in kinds:
        seen_ = set()
        for pc, t, n in early:
            if t != kinds["batch"][1]:
                continue
            c_ = pc[-1]
            for d_ in _disjuncts(c_[0], c_[1]):
                seen_ |= _decrease_tests(*d_)
        okneg = {"results_dem", "results_gop"} <= seen_
        ctx.ob("C17.R1.party-decrease", f"{g.qualname}|a batch that takes votes away from a party is an impossible batch", okneg, g.where(kinds["batch"][2]),
               "the batch return is also taken when the dem or the gop count decreases between two versions" if okneg else
               f"only the quotient |batch margin| > 1 is tested (decrease seen for: {sorted(seen_) or 'none'}): a version that revises both parties "
               f"downwards (or one, the other unchanged) has a batch margin inside [-1, 1] with the sign flipped and passes as regular")
    for k, what in (("monotone", "re-scaled turnout not non-decreasing"), ("batch", "a batch margin outside [-1, 1]")):
        ok = k in kinds and kinds[k][0]
        ctx.ob("C17.R1.test", f"{g.qualname}|early return for {what}", ok, g.where(kinds[k][2]) if k in kinds else g.where(),
               f"a history with {what} returns before any estimate is computed" if ok else f"no early return for {what}")
    cfg = CFG(g.node)
    mn = cfg.node_of(main[0][2])
    for k in kinds:
        test = kinds[k][2]
        while not isinstance(test, ast.If):
            test = test._parent
        dom = cfg.dominates(cfg.by_ast[test], mn)
        ctx.ob("C17.R1.before", f"{g.qualname}|{k} test precedes the estimates", dom, g.where(test),
               "the test dominates the main return" if dom else "the estimates can be returned without this test having run")
    # any OTHER return that hands back estimates (a shortcut frame with error_type 'none' / numbers in est_correction) is a regular
    # answer as well: both irregularity tests have to have run before it, or an irregular history leaves through the shortcut
    classified = {id(v[2]) for v in kinds.values()}
    for pc, t, n in early:
        if id(n) in classified:
            continue
        d_ = dict((a[1], bb) for a, bb in t[2][0][1] if a[0] == "const") if t[0] == "call" and t[2] and t[2][0][0] == "dict" else {}
        et = d_.get("error_type")
        nan_ = lambda x: x is not None and "numpy.nan" in ir.show(x, maxdepth=6)  # noqa: E731
        if et is not None and et[0] == "const" and et[1] not in ("none", None) and nan_(d_.get("est_margin")) and nan_(d_.get("est_correction")):
            continue  # one more kind of discarded history (missing estimates, error recorded)
        rn = cfg.node_of(n)
        missing = []
        for k in ("monotone", "batch"):
            if k not in kinds:
                missing.append(k)
                continue
            test = kinds[k][2]
            while not isinstance(test, ast.If):
                test = test._parent
            if not cfg.dominates(cfg.by_ast[test], rn):
                missing.append(k)
        ctx.ob("C17.R1.before", f"{g.qualname}|shortcut return after the irregularity tests", not missing, g.where(n),
               "the shortcut answer is given only after both irregularity tests" if not missing
               else f"estimates are returned under {ir.show(pc[-1][0], maxdepth=4)[:100]} without the {' / '.join(missing)} test having run: an irregular "
                    "history that meets this condition is answered with non-missing corrections and no error recorded")
    errs = set()
    for k, (okc, t, n, txt) in kinds.items():
        d = dict((ir.show(a), bb) for a, bb in t[2][0][1]) if t[0] == "call" and t[2] and t[2][0][0] == "dict" else {}

        def is_nan101(x):
            return ir.show(x, maxdepth=6) in ("(numpy.nan * numpy.ones(101))", "(numpy.ones(101) * numpy.nan)", "numpy.full(101, numpy.nan)")

        ok = (ir.show(d.get("'percent_expected_vote'", ("const", None))) == "numpy.arange(101)" and is_nan101(d.get("'est_margin'", ("const", 0)))
              and is_nan101(d.get("'est_correction'", ("const", 0))) and d.get("'error_type'", ("const", "none"))[0] == "const"
              and d["'error_type'"][1] not in ("none", None))
        if ok:
            errs.add(d["'error_type'"][1])
        ctx.ob("C17.R2.frame", f"{g.qualname}|{k}: 101 rows of missing estimates with an error type", ok, g.where(n),
               f"returns percents 0..100 with NaN est_margin / est_correction and error_type '{d['\'error_type\''][1]}'" if ok
               else f"early return frame is {ir.show(t, maxdepth=4)[:200]}")
    ctx.ob("C17.R2.distinct", f"{g.qualname}|distinct error types", len(errs) == len(kinds) == 2, g.where(), f"error types {sorted(errs)}")
    # ---- main return --------------------------------------------------------------------------------------
    mt = main[0][1]
    ctx.require(mt[0] == "call" and mt[2] and mt[2][0][0] == "dict", f"{g.where(main[0][2])}: main return is not a DataFrame literal")
    d = dict((a[1], bb) for a, bb in mt[2][0][1] if a[0] == "const")
    for need in ("percent_expected_vote", "est_margin", "est_correction", "error_type"):
        ctx.require(need in d, f"{g.where(main[0][2])}: column {need} missing from the main return")
    ctx.ob("C17.R2.none", f"{g.qualname}|regular histories carry error_type 'none'", d["error_type"] == ("const", "none"), g.where(main[0][2]),
           f"error_type = {ir.show(d['error_type'])}")
    PERCS = d["percent_expected_vote"]
    EST = d["est_margin"]
    # PERCS = arange(0, int(max(PV)) + 1)
    # (the def-use engine writes arange(0, n) as arange(n))
    TOP = PERCS[2][0] if PERCS[0] == "call" and ir.show(PERCS[1]).endswith("arange") and len(PERCS[2]) == 1 and not PERCS[3] else ("const", None)
    okp = (TOP[0] == "bin" and TOP[1] == "+" and TOP[3] == ("const", 1)
           and TOP[2][0] == "call" and TOP[2][1] == ("global", "int") and len(TOP[2][2]) == 1 and TOP[2][2][0][0] == "call"
           and ir.show(TOP[2][2][0][1]).endswith("max") and len(TOP[2][2][0][2]) >= 1
           and _colarr(TOP[2][2][0][2][0]) == "percent_expected_vote")
    ctx.ob("C17.R5.percents", f"{g.qualname}|one row per whole percent 0..int(max percent)", okp, g.where(main[0][2]),
           "percents = arange(0, int(max(percent_expected_vote)) + 1)" if okp else f"percent axis is {ir.show(PERCS, maxdepth=5)}")
    if not okp:
        return
    PV = TOP[2][2][0][2][0]
    IDX = None
    for t in ir.walk(EST):
        if t[0] == "bin" and t[1] == "-" and t[3] == ("const", 1) and t[2][0] == "call" and ir.show(t[2][1]).endswith("searchsorted"):
            IDX = t
    if IDX is None:
        ctx.ob("C17.R3.index", f"{g.qualname}|i = last observation <= p", False, g.where(main[0][2]),
               "the estimate does not index the history with searchsorted(percent_vote, p, side='right') - 1 (the last observation <= p)")
        return
    ss = IDX[2]
    oki = len(ss[2]) == 2 and ss[2][0] == PV and ss[2][1] == PERCS and dict(ss[3]).get("side") == ("const", "right")
    ctx.ob("C17.R3.index", f"{g.qualname}|i = last observation <= p", oki, g.where(main[0][2]),
           "i = searchsorted(percent_vote, p, side='right') - 1" if oki
           else f"index is {ir.show(IDX, maxdepth=4)}: with side='left' an observation exactly at p is skipped")
    CL = None
    for t in ir.walk(EST):
        if t[0] == "call" and ir.show(t[1]).endswith("clip") and t[2] and t[2][0] == IDX:
            CL = t
    okc = CL is not None and len(CL[2]) == 3 and CL[2][1] == ("const", 0) and ir.show(CL[2][2], maxdepth=6) == "(len(" + ir.show(PV, maxdepth=5) + ") - 1)"
    okc = CL is not None and len(CL[2]) == 3 and CL[2][1] == ("const", 0) and CL[2][2] == ("bin", "-", ("call", ("global", "len"), (PV,), ()), ("const", 1))
    ctx.ob("C17.R3.clip", f"{g.qualname}|index clipped to the valid range", okc, g.where(main[0][2]),
           "indices are clipped to [0, len - 1]" if okc else f"clipping is {ir.show(CL, maxdepth=4) if CL else None}")
    if CL is None:
        return
    BEFORE = ("cmp", "==", IDX, ("const", -1))

    def leaf(t):
        if t == PERCS:
            return "p"
        if t[0] == "call" and ir.show(t[1]).endswith("where") and len(t[2]) == 3 and t[2][0] == BEFORE:
            nz = symexpr.Normalizer(leaf=leaf)
            return f"W[{nz.norm(t[2][1]).key()}|{nz.norm(t[2][2]).key()}]"
        if t[0] == "sub":
            name = _colarr(t[1])
            if name is not None:
                if t[2] == CL:
                    return f"{name}_i"
                if t[2] == ("const", 0):
                    return f"{name}_first"
                if t[2] == ("const", -1):
                    return f"{name}_last"
        return None

    # est = divide(NUM, PERCS, where=PERCS != 0, out=<float copy of the batch-margin selection>)
    okd = (EST[0] == "call" and ir.show(EST[1]).endswith("divide") and len(EST[2]) == 2 and EST[2][1] == PERCS)
    kw = dict(EST[3]) if okd else {}
    okd = okd and kw.get("where") == ("cmp", "!=", PERCS, ("const", 0)) and kw.get("out") is not None
    ctx.ob("C17.R3.divide", f"{g.qualname}|est = numerator / p where p != 0", okd, g.where(main[0][2]),
           "est = numerator / p for p != 0 (p = 0 keeps the value of the out buffer)" if okd else f"estimate is {ir.show(EST, maxdepth=3)}")
    if okd:
        # value at p = 0 (no votes to average over): the out buffer; it has to be the margin of the batch that follows, which
        # before the first observation is the first observed margin (statement: 'equals the first observed margin before the
        # first observation', for every percent from 0)
        out = kw["out"]
        base = _float_copy_of(out)
        lf = leaf(base) if base is not None else None
        okz = lf == "W[results_normalized_margin_first|batch_margin_i]"
        ctx.ob("C17.R4.zero-percent", f"{g.qualname}|est at 0 percent = margin of the following batch", okz, g.where(main[0][2]),
               "at p = 0 the estimate is the following batch's margin (the first observed margin if nothing was observed yet), as a float copy"
               if okz else f"at p = 0 the estimate is the out buffer {ir.show(out, maxdepth=3)}: not the first observed margin / following batch margin")
    if okd:
        N = symexpr.Normalizer(leaf=leaf)
        got = N.norm(EST[2][0])
        m, v, bm = "results_normalized_margin", "percent_expected_vote", "batch_margin"
        want = symexpr.Normalizer().norm(symexpr.parse("Wm * Wv + Wb * (p - Wv)"))
        # build the expected atoms by name
        Wm, Wv, Wb = f"W[{m}_first|{m}_i]", f"W[0|{v}_i]", f"W[{m}_first|{bm}_i]"
        exp = symexpr.atom(Wm) * symexpr.atom(Wv) + symexpr.atom(Wb) * (symexpr.atom("p") - symexpr.atom(Wv))
        ok = got == exp
        ctx.ob("C17.R3.formula", f"{g.qualname}|numerator = m_i v_i + b_i (p - v_i)", ok, g.where(main[0][2]),
               "numerator = m_i * v_i + b_i * (p - v_i) with (m, v, b) = (first margin, 0, first margin) before the first observation" if ok
               else f"numerator is {got.key()}; documented {exp.key()}")
        ctx.ob("C17.R4.before-first", f"{g.qualname}|before the first observation est = first observed margin", ok, g.where(main[0][2]),
               "for i = -1: v = 0 and m = b = first observed margin, hence est = first observed margin" if ok
               else "the 'before the first observation' substitution (v = 0, m = b = first margin) is not what the code does")
    # correction
    Nc = symexpr.Normalizer(leaf=lambda t: "EST" if t == EST else leaf(t))
    gc = Nc.norm(d["est_correction"])
    okcorr = gc == symexpr.atom("results_normalized_margin_last") - symexpr.atom("EST")
    ctx.ob("C17.R5.correction", f"{g.qualname}|correction = final margin - estimate", okcorr, g.where(main[0][2]),
           "est_correction = last observed margin - est_margin" if okcorr else f"est_correction is {gc.key()}")
    # re-scaled percent axis and batch margin definitions
    df1 = PV
    while df1[0] != "sub":
        df1 = df1[1][1] if df1[0] == "call" else df1[1]
    frame = df1[1]
    cols = {}
    t = frame
    while t[0] == "setitem":
        cols.setdefault(t[2][1] if t[2][0] == "const" else None, t[3])
        t = t[1]
    pe = cols.get("percent_expected_vote")
    def _last_of(t, name):
        return t[0] == "sub" and t[2] == ("const", -1) and _colarr(t[1]) == name

    okpe = False
    for share, latest in (ir.comm(pe, "*") if pe is not None else []):
        if share[0] == "call" and ir.show(share[1]).endswith("divide") and len(share[2]) == 2 and _colarr(share[2][0]) == "results_turnout" \
                and _last_of(share[2][1], "results_turnout") and _last_of(latest, "percent_expected_vote"):
            okpe = True
    # the ratio is written into an out= buffer with casting='unsafe': the buffer must be floating point whatever the dtype of
    # the vote counts (zeros_like(<int column>) truncates every share < 1 to 0 and collapses the history onto 0 percent)
    divs = [x for x in ir.walk(pe)] if pe is not None else []
    divs = [x for x in divs if x[0] == "call" and ir.show(x[1]).endswith("divide") and dict(x[3]).get("out") is not None]
    for x in divs:
        okb = _float_buffer(dict(x[3])["out"])
        ctx.ob("C17.R5.rescale-float", f"{g.qualname}|turnout share computed in floating point", okb, g.where(),
               "the share turnout / final turnout is written into a float buffer" if okb
               else f"the share turnout / final turnout is written into {ir.show(dict(x[3])['out'], maxdepth=3)} with casting='unsafe': for integer "
                    f"vote counts every share below 1 is truncated to 0, so all versions but the last sit at 0 percent")
    ctx.ob("C17.R5.rescale", f"{g.qualname}|percent axis = turnout / final turnout * latest percent", okpe, g.where(),
           "percent_expected_vote is re-scaled from the turnout history to the latest reported percent" if okpe
           else f"percent axis is {ir.show(pe, maxdepth=5) if pe else None}")
    bmv = cols.get("batch_margin")
    txt = ir.show(bmv, maxdepth=10) if bmv else ""
    def _fdiff(name):  # forward difference of a column, 0 after the last version
        arr = ("attr", ("sub", DF, ("const", name)), "values")
        return ("call", ("global", "numpy.diff"), (arr,), (("append", ("sub", arr, ("const", -1))),))
    Q = ("bin", "/", ("bin", "-", _fdiff("results_dem"), _fdiff("results_gop")), _fdiff("results_weights"))
    from ..frames import where_form
    wf = where_form(bmv) if bmv else None
    # the quotient with its NaN entries (0 / 0: a batch without votes) set to 0 - written as a mask assignment or as numpy.where
    okbm = wf is not None and wf[0] == ("call", ("global", "numpy.isnan"), (Q,), ()) and wf[1] in (("lit", 0), ("lit", 0.0)) and wf[2] == Q
    ctx.ob("C17.R3.batch", f"{g.qualname}|b_i = margin of the batch after observation i (NaN -> 0)", okbm, g.where(),
           "batch margin = (diff dem - diff gop) / diff two-party votes, forward differences, empty batches 0" if okbm
           else f"batch margin is {txt[:200]}")
    _history_complete(ctx, b)
    # ---- R6 consumer --------------------------------------------------------------------------------------------
    ef = ctx.fn(BM, "BootstrapElectionModel._extrapolate_unit_margin")
    cstat = ef.nested.get("compute_correction_statistics")
    if cstat is None:  # the closure may have been hoisted to a method (or a module function) that groupby.apply is given
        owner = repo.cls(BM, "BootstrapElectionModel")
        cstat = next((fn_ for nm_, fn_ in list(owner.methods.items()) + list(repo.mod(BM).functions.items())
                      if nm_.lstrip("_") == "compute_correction_statistics"), None)
    ctx.require(cstat is not None, f"{ef.where()}: compute_correction_statistics not found")
    cs = ctx.builder().summarize(cstat)
    # the frame whose corrections are averaged: a row selection of the group's frame - one mask with &, or one selection after the other
    from ..colwrites import row_filters
    nm = [x for pc, t, n in cs.returns for x in ir.walk(t) if x[0] == "call" and ir.show(x[1]).endswith("nanmean") and x[2]
          and x[2][0][0] == "attr" and x[2][0][2] == "values" and ir.column_ref(x[2][0][1]) is not None and ir.column_ref(x[2][0][1])[1] == "est_correction"]
    filt = nm[0][2][0][1][1] if nm else None
    parts = row_filters(filt, DF) if filt is not None else None
    okf = False
    detail = "filter not recognised"
    if parts:
        dist = any(p[0] == "cmp" and p[1] in ("<", "<=") and p[2] == ("sub", DF, ("const", "dist_to_observed")) and p[3][0] == "attr" and p[3][2] == "max_dist_to_observed"
                   and p[3][1] in (("param", "self"), ("global", "self")) for p in parts)
        nn = any(p == ("call", ("attr", ("sub", DF, ("const", "est_correction")), "notnull"), (), ()) for p in parts)
        okf = dist and nn
        detail = ("only corrections that exist (regular histories) and lie close to an actual observation are used" if okf
                  else f"rows are selected by {[ir.show(p, maxdepth=4) for p in parts]}: " + ("missing the distance condition" if not dist else "missing the non-null condition"))
    elif filt is not None:
        detail = f"the averaged corrections are those of {ir.show(filt, maxdepth=4)}: not a row selection of the group's frame"
    ctx.ob("C17.R6.filter", f"{cstat.qualname}|non-null and near an observation", okf, cstat.where(), detail)
    means = nm if parts else []
    ctx.ob("C17.R6.mean", f"{cstat.qualname}|correction = mean over the filtered rows", bool(means), cstat.where(),
           "est_correction = nanmean of the filtered corrections" if means else "the averaged corrections are not the filtered ones")
    es = ctx.builder().summarize(ef)
    dterm = None
    for pc, name, t, n in es.assigns:
        if True:
            for x in ir.walk(t):
                if x[0] == "setitem" and x[2] == ("const", "dist_to_observed"):
                    dterm = x[3]
    okdist = False
    if dterm is not None and dterm[0] == "call" and dterm[1][0] == "attr" and dterm[1][2] == "abs" and not dterm[2]:
        d_ = dterm[1][1]
        if d_[0] == "bin" and d_[1] == "-":
            l_, r_ = ir.column_ref(d_[2]), ir.column_ref(d_[3])
            okdist = l_ is not None and r_ is not None and l_[1] == "percent_expected_vote" and r_[1] == "nearest_observed_vote"
    elif dterm is not None and dterm[0] == "call" and dterm[1] in (("global", "numpy.abs"), ("global", "numpy.absolute")) and len(dterm[2]) == 1:
        d_ = dterm[2][0]
        if d_[0] == "bin" and d_[1] == "-":
            l_, r_ = ir.column_ref(d_[2]), ir.column_ref(d_[3])
            okdist = l_ is not None and r_ is not None and l_[1] == "percent_expected_vote" and r_[1] == "nearest_observed_vote"
    ctx.ob("C17.R6.distance", f"{ef.qualname}|distance = |percent - nearest observed percent|", okdist, ef.where(),
           "dist_to_observed = |percent_expected_vote - nearest_observed_vote|" if okdist else f"distance is {ir.show(dterm, maxdepth=4) if dterm else None}")
