"""C07 - race calls and call-stops are always honoured; contradictory calls are rejected.

 R1 validation: _format_called_contests raises for a non-empty lhs/rhs intersection and for names outside the modelled
    contests, before the vector exists; the vector assigns lhs_value / rhs_value / fill by membership; it is built at top
    level by the prediction and the interval function from the caller's lists, for calls (1 / 0 / -1) and for the stop list
    (R1.validated: the stop vector too comes from _format_called_contests); R1.always-validated: some validation must run
    whatever aggregates are requested (today all sites sit under the top-level test: open known finding K3);
 R2 prediction table (complete, 7 regions x 3 call codes): L => pred' >= +0.005, R => pred' <= -0.005, none => unchanged; the
    adjusted value is EVALUATED on the region domain whatever idiom the helper uses (mask assignment, np.where, clip);
 R3 bounds table (complete, 7 x 7 regions x 3 call codes x stop): L & !stop => lower' >= 0; R & !stop => upper' <= 0;
    stop & none => lower' <= 0 <= upper'; none & !stop => both unchanged; non-top-level aggregates untouched;
 R4 pass-through: get_estimates forwards the same lhs/rhs lists to the prediction and interval calls, and the stop list to
    the interval call, under the keyword names the model reads.
"""
from __future__ import annotations

import ast

from .. import ir, util
from ..cfg import CFG
from ..model import AnalysisError
from ..regions import RegionEval, Regions

BM = "elexmodel.models.BootstrapElectionModel"
SELF = ("param", "self")


def _kwget(t, key):
    return (t[0] == "call" and t[1][0] == "attr" and t[1][2] == "get" and t[1][1] == ("param", "**kwargs")
            and len(t[2]) == 2 and t[2][0] == ("const", key) and t[2][1] == ("list", ()))


def _is_fcc(t):
    return t[0] == "call" and t[1] == ("attr", SELF, "_format_called_contests")


def _innermost_call(term, suffix):
    """the call of a function named *suffix that contains no other such call: the straddle (minimum / maximum around the
    prediction) is applied first, so it sits below any clamp a call adjustment may be written with"""
    cands = [x for x in ir.walk(term) if x[0] == "call" and ir.show(x[1]).endswith(suffix)]
    for c in cands:
        if not any(o is not c and o != c for o in ir.walk(c) if o[0] == "call" and ir.show(o[1]).endswith(suffix)):
            return c
    return None


def interval_adjustment_terms(ctx):
    """Shared with C06.R7: the top-level views of the two returned bounds of get_aggregate_prediction_intervals, the terms they
    start from (the straddled bounds), the call / stop vectors, the region domain over {-0.005, 0, +0.005} and the constant folder.
    -> dict(R, fold, LO, UP, L0, U0, CALLED, STOP, TOPC, codes, fn)"""
    repo = ctx.repo
    cls = repo.cls(BM, "BootstrapElectionModel")
    from ..util import const_attr
    thr = {}
    for a in ("lhs_called_threshold", "rhs_called_threshold"):
        c = const_attr(repo, a)
        ctx.require(c is not None, f"self.{a} is not a repository-wide constant")
        thr[a] = c[1]
    R = Regions(sorted({thr["lhs_called_threshold"], 0, thr["rhs_called_threshold"]}, reverse=True))

    def fold(t):
        if t[0] == "attr" and t[1] == SELF and t[2] in thr:
            return ("const", thr[t[2]])
        return None

    b = ctx.builder(inline=lambda caller, call, callee: callee.name == "_adjust_called_contests")
    gi = ctx.fn(BM, "BootstrapElectionModel.get_aggregate_prediction_intervals")
    isum = b.summarize(gi, self_cls=cls)
    TOPC = ir.repo_call(("attr", SELF, "_is_top_level_aggregate"), [("aggregate", ("param", "aggregate"))])
    ir_ret = isum.ret()
    ctx.require(ir_ret[0] == "call" and len(ir_ret[2]) == 2, f"{gi.where()}: result is not PredictionIntervals(lower, upper)")
    LO, UP = ir_ret[2]
    LO, UP = ir.resolve_phi(LO, TOPC, True), ir.resolve_phi(UP, TOPC, True)
    L0 = _innermost_call(LO, "minimum")
    U0 = _innermost_call(UP, "maximum")
    ctx.require(L0 is not None and U0 is not None, f"{gi.where()}: straddled bounds (minimum / maximum around the prediction) not found under the adjustment")
    fccs = [x for x in ir.walk(LO) if _is_fcc(x)] + [x for x in ir.walk(UP) if _is_fcc(x)]
    called_i = [x for x in fccs if len(x[2]) == 6 and x[2][1] != ("list", ())]
    stop_i = [x for x in fccs if len(x[2]) == 6 and x[2][1] == ("list", ())]
    ctx.require(called_i and stop_i, f"{gi.where()}: call / stop vectors not found in the interval adjustment")
    codes = called_i[0][2][3:6]
    ctx.require(all(c[0] == "const" for c in codes), f"{gi.where()}: call codes are not literals")
    return dict(R=R, fold=fold, LO=LO, UP=UP, L0=L0, U0=U0, CALLED=called_i[0], STOP=stop_i[0], TOPC=TOPC,
                codes=tuple(c[1] for c in codes), fn=gi, thr=thr)


def check(ctx):
    repo = ctx.repo
    ctx.explanation = (
        "The call logic is read as def-use terms (np.where / mask-assignment chains) and evaluated element-wise over a finite "
        "abstract domain: each real value is one of 7 regions relative to {-0.005, 0, +0.005}, the call code one of the three "
        "codes passed to _format_called_contests, the stop flag a boolean. All abstract states are enumerated (exhaustive), "
        "so every row of the decision table is covered, not the four the tests exercise. Validation and pass-through are "
        "decided on path conditions of raises and on call-argument terms."
    )
    ctx.assumptions += ["numpy element-wise semantics of where / maximum / minimum / isclose / boolean masks",
                        "comparisons are exact on the region domain because every compared constant is a region boundary"]
    cls = repo.cls(BM, "BootstrapElectionModel")
    from ..util import const_attr

    thr = {}
    for a in ("lhs_called_threshold", "rhs_called_threshold"):
        c = const_attr(repo, a)
        ctx.require(c is not None, f"self.{a} is not a repository-wide constant")
        thr[a] = c[1]
    ctx.ob("C07.thresholds", "BootstrapElectionModel|thresholds +-0.005", thr == {"lhs_called_threshold": 0.005, "rhs_called_threshold": -0.005},
           cls.lookup("__init__").where(), f"thresholds are {thr}")
    R = Regions([thr["lhs_called_threshold"], 0, thr["rhs_called_threshold"]])
    ZERO = R.of_const(0)
    TL = R.of_const(thr["lhs_called_threshold"])
    TR = R.of_const(thr["rhs_called_threshold"])

    def fold(t):
        if t[0] == "attr" and t[1] == SELF and t[2] in thr:
            return ("const", thr[t[2]])
        return None

    # ---- R1: validation ----------------------------------------------------------------------
    fc = ctx.fn(BM, "BootstrapElectionModel._format_called_contests")
    b0 = ctx.builder()
    fs = b0.summarize(fc)
    want = {"both": False, "lhs": False, "rhs": False}

    def setname(t):
        if t[0] == "call" and t[1] in (("global", "set"), ("global", "frozenset")) and len(t[2]) == 1 and t[2][0][0] == "param":
            return t[2][0][1]
        return None

    for pc, t, n in fs.raises:
        if "BootstrapElectionModelException" not in ir.show(t, maxdepth=2) or not pc:
            continue
        e = ir.nonempty_entry(pc[-1])  # raised when the set is not empty (any spelling of that test)
        if e is None:
            continue
        if e[0] == "bin" and e[1] in ("&", "-"):
            a, bb = setname(e[2]), setname(e[3])
        elif e[0] == "call" and e[1][0] == "attr" and e[1][2] in ("intersection", "difference") and len(e[2]) == 1:
            a, bb = setname(e[1][1]), setname(e[2][0]) or (e[2][0][1] if e[2][0][0] == "param" else None)
            e = ("bin", "&" if e[1][2] == "intersection" else "-", None, None)
        else:
            continue
        if e[1] == "&" and {a, bb} == {"lhs_called_contests", "rhs_called_contests"}:
            want["both"] = True
        if e[1] == "-" and bb == "contests" and a == "lhs_called_contests":
            want["lhs"] = True
        if e[1] == "-" and bb == "contests" and a == "rhs_called_contests":
            want["rhs"] = True
    msgs = {"both": "a contest named for both parties", "lhs": "a left-hand call of a contest that is not modelled",
            "rhs": "a right-hand call of a contest that is not modelled"}
    for k, okk in want.items():
        ctx.ob("C07.R1.reject", f"{fc.qualname}|rejects {k}", okk, fc.where(),
               f"raises BootstrapElectionModelException for {msgs[k]}" if okk else f"no raise for {msgs[k]}")
    cfg = CFG(fc.node)
    fulls = [c for c in util.calls_in(fc.node) if (util.dotted(c.func) or "").endswith("full")]
    ctx.sites("C07.R1.vector", len(fulls), 1, "creation of the per-contest vector")
    tests = [cfg.by_ast[n] for n in util.own_nodes(fc, ast.If) if any(isinstance(x, ast.Raise) for x in n.body)]
    dom = all(cfg.dominates(t, cfg.node_of(fulls[0])) for t in tests) and len(tests) >= 3
    ctx.ob("C07.R1.before", f"{fc.qualname}|validation before the vector", dom, fc.where(fulls[0]),
           "all three validations dominate the creation of the vector" if dom else "the vector can be built without all validations having run")
    rt = fs.ret()
    okv = False
    if rt[0] == "loopout":
        init, body = rt[3], rt[4]
        e = [x for x in ir.walk(body) if x[0] == "elem"]
        enum_ok = bool(e) and e[0][1] == ("call", ("global", "enumerate"), (("param", "contests"),), ())
        el = e[0] if e else None
        okv = (enum_ok and init[0] == "call" and init[2] == (("call", ("global", "len"), (("param", "contests"),), ()), ("param", "fill_value"))
               and body[0] == "phi" and body[1] == ("cmp", "in", ("sub", el, ("const", 1)), ("param", "lhs_called_contests"))
               and body[2][0] == "setitem" and body[2][2] == ("sub", el, ("const", 0)) and body[2][3] == ("param", "lhs_value")
               and body[3][0] == "phi" and body[3][1] == ("cmp", "in", ("sub", el, ("const", 1)), ("param", "rhs_called_contests"))
               and body[3][2][0] == "setitem" and body[3][2][2] == ("sub", el, ("const", 0)) and body[3][2][3] == ("param", "rhs_value")
               and body[3][3][0] == "loopin")
    if not okv and rt[0] == "loopout":
        # the same loop in other words: index by range(len(contests)) and contests[i], membership tested against set(..) / list(..) copies
        # of the two lists, if / elif or two ifs - evaluated per contest for the three possible memberships
        P_ = lambda n_: ("param", n_)  # noqa: E731
        init, body, dom = rt[3], rt[4], rt[5]
        LENC = ("call", ("global", "len"), (P_("contests"),), ())
        el = next((x for x in ir.walk(body) if x[0] == "elem" and x[2] == rt[1]), None)
        idx = con = None
        if el is not None and dom == ("call", ("global", "enumerate"), (P_("contests"),), ()):
            idx, con = ("sub", el, ("const", 0)), ("sub", el, ("const", 1))
        elif el is not None and dom == ("call", ("global", "range"), (LENC,), ()):
            idx, con = el, ("sub", P_("contests"), el)
        init_ok = init[0] == "call" and ir.show(init[1]).endswith("full") and len(init[2]) >= 2 and init[2][0] == LENC and init[2][1] == P_("fill_value")

        def member(c_, inL, inR):
            if c_[0] == "cmp" and c_[1] in ("in", "not in") and c_[2] == con:
                raw = c_[3]
                while raw[0] == "call" and raw[1][0] == "global" and raw[1][1] in ("set", "frozenset", "list", "tuple", "sorted") and len(raw[2]) == 1:
                    raw = raw[2][0]
                if raw in (P_("lhs_called_contests"), P_("rhs_called_contests")):
                    v = inL if raw == P_("lhs_called_contests") else inR
                    return v if c_[1] == "in" else not v
            if c_[0] == "bool":
                vs = [member(x, inL, inR) for x in c_[2]]
                return None if any(v is None for v in vs) else (all(vs) if c_[1] == "and" else any(vs))
            if c_[0] == "un" and c_[1] == "not":
                v = member(c_[2], inL, inR)
                return None if v is None else not v
            return None

        def evl(t, inL, inR):
            if t[0] == "loopin":
                return "F"
            if t[0] == "setitem" and t[2] == idx:
                return {P_("lhs_value"): "L", P_("rhs_value"): "R", P_("fill_value"): "F"}.get(t[3])
            if t[0] == "phi":
                m = member(t[1], inL, inR)
                return None if m is None else evl(t[2] if m else t[3], inL, inR)
            return None
        if idx is not None and init_ok:
            got_ = {k_: evl(body, *v_) for k_, v_ in (("left", (True, False)), ("right", (False, True)), ("neither", (False, False)))}
            okv = got_ == {"left": "L", "right": "R", "neither": "F"}
    why_not = f"vector construction changed: {ir.show(rt, maxdepth=6)[:200]}"
    if not okv:
        # other idiom: start from full(len(contests), fill) and assign by boolean masks. Evaluated per contest for the three possible
        # memberships (left list only / right list only / neither; both is rejected by the validation above).
        P = lambda n_: ("param", n_)  # noqa: E731
        unsafe = []

        def from_contests(x):
            while x[0] == "call" and ir.show(x[1]).split(".")[-1] in ("asarray", "array", "list", "Series", "Index") and x[2]:
                x = x[2][0]
            return x == P("contests")

        def evcond(c_, el, inL, inR):
            """membership test of the comprehension's contest in one of the two lists, and boolean combinations"""
            if c_[0] == "cmp" and c_[1] in ("in", "not in") and c_[2] == ("sub", el, ("const", 1)):
                raw = c_[3]
                while raw[0] == "call" and ir.show(raw[1]).split(".")[-1] in ("list", "sorted", "tuple", "set", "frozenset") and raw[2]:
                    raw = raw[2][0]
                if raw not in (P("lhs_called_contests"), P("rhs_called_contests")):
                    return None
                v = inL if raw == P("lhs_called_contests") else inR
                return v if c_[1] == "in" else not v
            if c_[0] == "un" and c_[1] == "not":
                v = evcond(c_[2], el, inL, inR)
                return None if v is None else not v
            if c_[0] == "bool":
                vs = [evcond(x, el, inL, inR) for x in c_[2]]
                if any(v is None for v in vs):
                    return None
                return all(vs) if c_[1] == "and" else any(vs)
            return None

        def evpositions(m, inL, inR):
            """[i for i, contest in enumerate(contests) if <membership>]: is this contest's position in the list"""
            if m[0] == "comp" and m[1] in ("list", "gen") and len(m[3]) == 1 and m[3][0][1] == ("call", ("global", "enumerate"), (P("contests"),), ()):
                el = ("elem", m[3][0][1], m[4])
                if m[2] != ("sub", el, ("const", 0)):
                    return None
                vs = [evcond(c_, el, inL, inR) for c_ in m[3][0][2]]
                return None if any(v is None for v in vs) else all(vs)
            return None

        def evmask(m, inL, inR):
            pos = evpositions(m, inL, inR)
            if pos is not None:
                return pos
            if m[0] == "call" and ir.show(m[1]).endswith("isin") and (len(m[2]) == 2 or (m[1][0] == "attr" and len(m[2]) == 1)):
                pandas_method = m[1][0] == "attr" and not ir.show(m[1]).startswith("numpy")
                x, y = (m[1][1], m[2][0]) if pandas_method else (m[2][0], m[2][1])
                if not from_contests(x):
                    return None
                raw = y
                wrapped = False
                while raw[0] == "call" and ir.show(raw[1]).split(".")[-1] in ("list", "sorted", "tuple", "asarray", "array") and raw[2]:
                    wrapped = wrapped or ir.show(raw[1]).split(".")[-1] in ("list", "sorted", "tuple")
                    raw = raw[2][0]
                if raw not in (P("lhs_called_contests"), P("rhs_called_contests")):
                    return None
                if not (wrapped or pandas_method):
                    unsafe.append(ir.show(m, maxdepth=3))  # numpy.isin treats a set / dict as ONE object: the mask is all False
                return inL if raw == P("lhs_called_contests") else inR
            return None

        def ev_(t, inL, inR):
            if t[0] == "call" and ir.show(t[1]).endswith("full") and len(t[2]) >= 2:
                return "F" if t[2][1] == P("fill_value") and "contests" in ir.show(t[2][0]) else None
            if t[0] == "setitem":
                m = evmask(t[2], inL, inR)
                if m is None:
                    return None
                if m:
                    return {P("lhs_value"): "L", P("rhs_value"): "R", P("fill_value"): "F"}.get(t[3])
                return ev_(t[1], inL, inR)
            if t[0] == "call" and t[1] == ("global", "numpy.where") and len(t[2]) == 3:
                # vector[mask] = value reaches the rule as numpy.where(mask, value, vector)
                m = evmask(t[2][0], inL, inR)
                if m is None:
                    return None
                if m:
                    return {P("lhs_value"): "L", P("rhs_value"): "R", P("fill_value"): "F"}.get(t[2][1], ev_(t[2][1], inL, inR))
                return ev_(t[2][2], inL, inR)
            if t[0] in ("phi", "ifexp"):
                a_, b_ = ev_(t[2], inL, inR), ev_(t[3], inL, inR)
                c_ = t[1]
                # guards of the form len(<list>) > 0 are implied by membership and irrelevant without it
                if c_[0] == "cmp" and c_[2][0] == "call" and c_[2][1] == ("global", "len") and c_[2][2] and c_[2][2][0] in (P("lhs_called_contests"), P("rhs_called_contests")):
                    member = inL if c_[2][2][0] == P("lhs_called_contests") else inR
                    if member and c_[1] in (">", "!=", ">=") :
                        return a_
                    if member and c_[1] == "==" and c_[3] == ("const", 0):
                        return b_  # canonical polarity: (len == 0) with the non-empty branch second
                if c_[0] == "cmp" and c_[2][0] == "call" and c_[2][1] == ("global", "len") and c_[2][2] and c_[3] == ("const", 0) and c_[1] in (">", "!=", "=="):
                    if evpositions(c_[2][2][0], inL, inR):
                        return b_ if c_[1] == "==" else a_  # this contest is one of the positions, so the list is not empty
                return a_ if a_ == b_ else None
            if t[0] == "call" and t[1][0] == "attr" and t[1][2] in ("copy", "astype"):
                return ev_(t[1][1], inL, inR)
            return None

        got = {k_: ev_(rt, *v_) for k_, v_ in (("left", (True, False)), ("right", (False, True)), ("neither", (False, False)))}
        okv = got == {"left": "L", "right": "R", "neither": "F"} and not unsafe
        if unsafe:
            why_not = (f"the membership mask is {unsafe[0]}: numpy.isin treats a set, frozenset or dict (all accepted by the validation, which uses "
                       f"set arithmetic) as ONE object, the mask is all False and the call / stop is silently ignored; wrap the list (list(..))")
        elif not okv:
            why_not = f"per contest the vector is {got} (expected left -> lhs_value, right -> rhs_value, neither -> fill): {ir.show(rt, maxdepth=5)[:160]}"
    ctx.ob("C07.R1.assign", f"{fc.qualname}|vector by membership", okv, fc.where(),
           "vector[i] = lhs_value if contest i in lhs list, rhs_value if in rhs list, else fill (in contest order)" if okv else why_not)

    # the validation has to happen on EVERY request that carries call lists, not only when the contest-level table is among the
    # requested aggregates: a call site of _format_called_contests that is not under `_is_top_level_aggregate(..)` (or a validation in
    # the client) is needed for "naming an unknown contest / a contest for both parties raises instead of producing estimates"
    from ..effects import Guards as _Guards
    G_ = _Guards(ctx)
    sites_v = []
    for g_ in repo.all_functions():
        for c_ in util.own_nodes(g_, ast.Call):
            if isinstance(c_.func, ast.Attribute) and c_.func.attr == "_format_called_contests" and g_.name != "_format_called_contests":
                under_top = any(pol and isinstance(e, ast.Call) and isinstance(e.func, ast.Attribute) and e.func.attr == "_is_top_level_aggregate"
                                for e, pol in G_.atoms(g_, c_))
                sites_v.append((g_, c_, under_top))
    ctx.sites("C07.R1.always", len(sites_v), 1, "call sites of _format_called_contests")
    unconditional = [x for x in sites_v if not x[2]]
    ctx.ob("C07.R1.always-validated", f"{cls.name}|call lists are validated on every request", bool(unconditional), fc.where(),
           f"{len(unconditional)} validation site(s) run whatever aggregates are requested" if unconditional
           else f"all {len(sites_v)} validations of the call / stop lists sit under `_is_top_level_aggregate(aggregate)`: a request that does not "
                f"include the contest-level table (aggregates=['county_fips', 'unit'], ['unit'] ..) accepts a contest named for both parties or "
                f"an unknown contest and returns estimates")
    # ---- terms of the two public functions (with _adjust_called_contests inlined) ---------------------
    b = ctx.builder(inline=lambda caller, call, callee: callee.name == "_adjust_called_contests")
    gp = ctx.fn(BM, "BootstrapElectionModel.get_aggregate_predictions")
    gi = ctx.fn(BM, "BootstrapElectionModel.get_aggregate_prediction_intervals")
    ps = b.summarize(gp, self_cls=cls)
    isum = b.summarize(gi, self_cls=cls)
    TOPC = ir.repo_call(("attr", SELF, "_is_top_level_aggregate"), [("aggregate", ("param", "aggregate"))])

    # prediction ------------------------------------------------------------------------------
    pr = ps.ret()
    stored = [w for w in ps.attr_writes if w[1] == "aggregate_pred_margin"]
    ctx.require(len(stored) >= 1, f"{gp.where()}: self.aggregate_pred_margin is no longer stored by the prediction function")
    adj = stored[0][2]
    def _col(table, name):
        t = table
        while t[0] == "setitem":
            if t[2] == ("const", name):
                return t[3]
            t = t[1]
        return None

    def _flat(t):
        while t is not None and t[0] == "call" and t[1][0] == "attr" and t[1][2] in ("reshape", "flatten"):
            t = t[1][1]
        return t

    # views of the returned table and of the stored vector at / below the top level (whatever the branch layout)
    top_tab, non_tab = ir.resolve_phi(pr, TOPC, True), ir.resolve_phi(pr, TOPC, False)
    adj = ir.resolve_phi(adj, TOPC, True)
    pm_top, pm_non = _col(top_tab, "pred_margin"), _col(non_tab, "pred_margin")
    ok = pm_top is not None and _flat(pm_top) == _flat(adj)
    ctx.ob("C07.R2.reported", f"{gp.qualname}|reported prediction is the adjusted one", ok, gp.where(),
           "at top level the call-adjusted vector is returned as pred_margin (and kept for the interval centre)" if ok
           else "the call-adjusted prediction is not what the returned table reports as pred_margin")
    if pm_non is not None:
        untouched = not any(_is_fcc(x) for x in ir.walk(pm_non))
        ctx.ob("C07.R2.nontop", f"{gp.qualname}|non-top-level untouched", untouched, gp.where(),
               "finer aggregates are returned without call adjustment" if untouched else "race calls are applied to finer aggregates")
    # the raw prediction is whatever the prediction function hands to _adjust_called_contests (read from the un-inlined call);
    # the adjusted value is then evaluated abstractly, whatever idiom the helper uses (mask assignments, np.where, clip ..)
    core = adj
    while core[0] == "call" and core[1][0] == "attr" and core[1][2] in ("reshape", "flatten"):
        core = core[1][1]
    ps0 = ctx.builder(inline=lambda *a: False).summarize(gp, self_cls=cls)
    acalls = [x for _, _, t_, _ in ps0.assigns for x in ir.walk(t_) if x[0] == "call" and x[1] == ("attr", SELF, "_adjust_called_contests")]
    acalls += [x for w in ps0.attr_writes for x in ir.walk(w[2]) if x[0] == "call" and x[1] == ("attr", SELF, "_adjust_called_contests")]
    ctx.require(acalls and len(acalls[0][2]) == 2, f"{gp.where()}: call of _adjust_called_contests(prediction, called) not found in the prediction function")
    RAW = acalls[0][2][0]
    ctx.require(any(x == RAW for x in ir.walk(core)), f"{gp.where()}: the adjusted prediction does not depend on the raw prediction handed to _adjust_called_contests")
    calls_p = [x for x in ir.walk(core) if _is_fcc(x)]
    ctx.require(calls_p, f"{gp.where()}: _format_called_contests call not found in the prediction")
    CALLED_P = calls_p[0]
    codes = CALLED_P[2][3:6]
    ctx.require(all(c[0] == "const" for c in codes), f"{gp.where()}: call codes are not literals")
    L_CODE, R_CODE, N_CODE = (c[1] for c in codes)
    ctx.ob("C07.R1.codes", f"{gp.qualname}|distinct call codes", len({L_CODE, R_CODE, N_CODE}) == 3, gp.where(),
           f"codes: left={L_CODE} right={R_CODE} none={N_CODE}")
    okargs = _kwget(CALLED_P[2][0], "lhs_called_contests") and _kwget(CALLED_P[2][1], "rhs_called_contests")
    ctx.ob("C07.R1.site", f"{gp.qualname}|vector from the caller's lists", okargs, gp.where(),
           "prediction builds the call vector from kwargs lhs_called_contests / rhs_called_contests" if okargs
           else f"call vector built from {ir.show(CALLED_P, maxdepth=3)}")
    contests_t = CALLED_P[2][2]
    okc = contests_t[0] == "attr" and contests_t[2] == "columns" and any(
        x == ("attr", contests_t[1], "values") for _, _, t_, _ in ps.assigns for x in ir.walk(t_))
    ctx.ob("C07.R1.order", f"{gp.qualname}|contest order = indicator column order", okc, gp.where(),
           "contests are the columns of the same dummies frame whose values form the aggregate indicator" if okc
           else "contest names are not taken from the indicator's own columns (vector may be misaligned with rows)")
    nstates = 0
    viol = {}
    for rp in R.all_regions():
        for code, who in ((L_CODE, "L"), (R_CODE, "R"), (N_CODE, "none")):
            env = {RAW: ("r", rp), CALLED_P: ("i", code), TOPC: ("b", True)}
            out = RegionEval(R, env, fold).ev(core)
            nstates += 1
            out = out if out[0] == "r" else ("r", R.of_const(out[1]))
            if who == "L" and not out[1] >= TL:
                viol.setdefault("L", f"pred in {R.name(rp)} -> {R.name(out[1])}")
            if who == "R" and not out[1] <= TR:
                viol.setdefault("R", f"pred in {R.name(rp)} -> {R.name(out[1])}")
            if who == "none" and out[1] != rp:
                viol.setdefault("none", f"pred in {R.name(rp)} -> {R.name(out[1])}")
    ctx.ob("C07.R2.left", f"{gp.qualname}|called left => pred >= +0.005", "L" not in viol, gp.where(),
           "for every region of the raw prediction a left call yields a prediction >= +0.005" if "L" not in viol else viol["L"])
    ctx.ob("C07.R2.right", f"{gp.qualname}|called right => pred <= -0.005", "R" not in viol, gp.where(),
           "for every region a right call yields a prediction <= -0.005" if "R" not in viol else viol["R"])
    ctx.ob("C07.R2.none", f"{gp.qualname}|not called => unchanged", "none" not in viol, gp.where(),
           "uncalled contests keep their prediction" if "none" not in viol else viol["none"])

    # bounds ----------------------------------------------------------------------------------
    ir_ret = isum.ret()
    ctx.require(ir_ret[0] == "call" and len(ir_ret[2]) == 2, f"{gi.where()}: result is not PredictionIntervals(lower, upper)")
    LO, UP = ir_ret[2]
    # views at / below the top level, whatever the branch layout
    tops = [x for x in ir.walk(LO) if x[0] == "phi" and x[1] == TOPC] + [x for x in ir.walk(UP) if x[0] == "phi" and x[1] == TOPC]
    ctx.require(tops, f"{gi.where()}: bounds do not distinguish the top level (race calls are applied there only)")
    LO = ("phi", TOPC, ir.resolve_phi(LO, TOPC, True), ir.resolve_phi(LO, TOPC, False))
    UP = ("phi", TOPC, ir.resolve_phi(UP, TOPC, True), ir.resolve_phi(UP, TOPC, False))
    # the unadjusted (straddled) bounds are what the top-level adjustment starts from: the deepest common operand
    L0 = _innermost_call(LO[2], "minimum")
    U0 = _innermost_call(UP[2], "maximum")
    ctx.require(L0 is not None and U0 is not None, f"{gi.where()}: straddled bounds (minimum / maximum around the prediction) not found under the adjustment")
    fccs = [x for x in ir.walk(LO[2]) if _is_fcc(x)] + [x for x in ir.walk(UP[2]) if _is_fcc(x)]
    called_i = [x for x in fccs if len(x[2]) == 6 and x[2][1] != ("list", ())]
    stop_i = [x for x in fccs if len(x[2]) == 6 and x[2][1] == ("list", ())]
    ctx.require(called_i, f"{gi.where()}: call vector not found in the interval adjustment")
    CALLED_I = called_i[0]
    # every list of contest names that comes in through the public API has to pass the validation of _format_called_contests
    # (unknown names raise); a stop vector built any other way accepts a mistyped name silently and leaves the contest callable
    ctx.ob("C07.R1.validated", f"{gi.qualname}|stop list validated against the modelled contests", bool(stop_i), gi.where(),
           "the stop list is turned into a vector by _format_called_contests, which rejects names that are not modelled" if stop_i
           else "the stop vector is not built by _format_called_contests: a stop-listed name that is not a modelled contest is accepted "
                "silently instead of raising, and the contest the operator meant to stop stays callable")
    if not stop_i:
        return
    STOP_I = stop_i[0]
    ctx.ob("C07.R1.site", f"{gi.qualname}|lists from the caller", _kwget(CALLED_I[2][0], "lhs_called_contests") and _kwget(STOP_I[2][0], "stop_model_call"),
           gi.where(), "interval vectors are built from kwargs lhs_called_contests / stop_model_call"
           if _kwget(CALLED_I[2][0], "lhs_called_contests") and _kwget(STOP_I[2][0], "stop_model_call")
           else f"interval vectors are built from {ir.show(CALLED_I[2][0], maxdepth=3)} / {ir.show(STOP_I[2][0], maxdepth=3)}, "
                f"not from the keyword arguments the client passes")
    same_codes = CALLED_I[2][3:6] == CALLED_P[2][3:6] and _kwget(CALLED_I[2][1], "rhs_called_contests")
    ctx.ob("C07.R1.site", f"{gi.qualname}|same vector as the prediction", same_codes, gi.where(),
           "intervals build the call vector from the same lists with the same codes" if same_codes
           else f"interval call vector differs: {ir.show(CALLED_I, maxdepth=3)}")
    sa = STOP_I[2]
    okstop = sa[1] == ("list", ()) and sa[3] == ("const", True) and sa[5] == ("const", False)
    ctx.ob("C07.R1.site", f"{gi.qualname}|stop vector", okstop, gi.where(),
           "stop vector = membership of the caller's stop_model_call list (validated against the contests)" if okstop
           else f"stop vector built as {ir.show(STOP_I, maxdepth=3)}")
    viol = {}
    nb = 0
    for rl in R.all_regions():
        for ru in R.all_regions():
            if not (rl < ru or (rl == ru and rl % 2 == 0)):
                continue  # post-straddle: lower < upper
            for code, who in ((L_CODE, "L"), (R_CODE, "R"), (N_CODE, "none")):
                for stop in (False, True):
                    env = {L0: ("r", rl), U0: ("r", ru), CALLED_I: ("i", code), STOP_I: ("b", stop), TOPC: ("b", True)}
                    ev = RegionEval(R, env, fold)
                    lo, up = ev.ev(LO[2]), ev.ev(UP[2])
                    lo = lo if lo[0] == "r" else ("r", R.of_const(lo[1]))
                    up = up if up[0] == "r" else ("r", R.of_const(up[1]))
                    nb += 1
                    d = f"lower {R.name(rl)}, upper {R.name(ru)}, called {who}, stop {stop} -> lower {R.name(lo[1])}, upper {R.name(up[1])}"
                    if who == "L" and not stop and not lo[1] >= ZERO:
                        viol.setdefault("L", d)
                    if who == "R" and not stop and not up[1] <= ZERO:
                        viol.setdefault("R", d)
                    if who == "none" and stop and not (lo[1] <= ZERO <= up[1]):
                        viol.setdefault("stop", d)
                    if who == "none" and not stop and (lo[1] != rl or up[1] != ru):
                        viol.setdefault("none", d)
    ctx.extra["abstract_states"] = {"prediction": nstates, "bounds": nb}
    ctx.extra["exhaustive"] = True
    ctx.ob("C07.R3.left", f"{gi.qualname}|called left & not stopped => lower >= 0", "L" not in viol, gi.where(),
           "holds in every abstract state" if "L" not in viol else viol["L"])
    ctx.ob("C07.R3.right", f"{gi.qualname}|called right & not stopped => upper <= 0", "R" not in viol, gi.where(),
           "holds in every abstract state" if "R" not in viol else viol["R"])
    ctx.ob("C07.R3.stop", f"{gi.qualname}|stop-listed & not called => interval contains 0", "stop" not in viol, gi.where(),
           "holds in every abstract state" if "stop" not in viol else viol["stop"])
    ctx.ob("C07.R3.none", f"{gi.qualname}|neither called nor stopped => unchanged", "none" not in viol, gi.where(),
           "holds in every abstract state" if "none" not in viol else viol["none"])
    for w in isum.attr_writes:
        if w[1] in ("called_contests", "stop_model_call"):
            pass
    # centre of the interval at top level is the adjusted prediction kept by get_aggregate_predictions
    APM = ("attr", SELF, "aggregate_pred_margin")
    okc = all(L_[0] == "call" and any(a[0] == "bin" and a[1] in "+-" and a[2] == APM and a[3][0] == "const" for a in L_[2]) for L_ in (L0, U0))
    ctx.ob("C07.R3.centre", f"{gi.qualname}|interval centred on the reported prediction", okc, gi.where(),
           "top-level intervals are built around the call-adjusted prediction" if okc else "top-level intervals are not centred on the adjusted prediction")

    # ---- R4 pass-through ---------------------------------------------------------------------
    ge = ctx.fn("elexmodel.client", "ModelClient.get_estimates")
    gs = ctx.builder().summarize(ge)
    pcalls = [t for _, _, t, _ in gs.assigns if t[0] == "call" and t[1][0] == "attr" and t[1][2] == "get_aggregate_predictions"]
    icalls = [x for _, _, t, _ in gs.assigns for x in ir.walk(t) if x[0] == "call" and x[1][0] == "attr" and x[1][2] == "get_aggregate_prediction_intervals"]
    ctx.sites("C07.R4", min(len(pcalls), len(icalls)), 1, "model aggregate calls in get_estimates")
    pk = dict((k, v) for k, v in pcalls[0][3] if k)
    ik = dict((k, v) for k, v in icalls[0][3] if k)
    ok = all(_kwget(pk.get(k, ("const", None)), k) for k in ("lhs_called_contests", "rhs_called_contests")) and \
        all(_kwget(ik.get(k, ("const", None)), k) for k in ("lhs_called_contests", "rhs_called_contests", "stop_model_call"))
    ctx.ob("C07.R4.forward", f"{ge.qualname}|lists forwarded", ok, ge.where(),
           "the caller's lhs / rhs lists reach the prediction and interval calls, the stop list the interval call, under the "
           "keyword names the model reads" if ok else
           f"prediction call gets {sorted(pk)}, interval call gets {sorted(ik)}; expected the caller's kwargs under the same names")
