"""C09 - which units feed the model follows the documented eligibility rules exactly.

 R1 complete truth table: rows(reporting frame) / rows(nonreporting frame) / rows(third frame) of get_units are equivalent to
    the documented formulas over the per-unit atoms (in baseline join, pev vs threshold as lt/eq/gt or MISSING, blocklists, zero
    baseline, turnout factor vs both limits as lt/eq/gt, outlier flags, enabling switches); a column has no `missing` case only
    when the code establishes it (turnout_factor: nan_to_num in add_turnout_factor, stored by the constructor);
 R2 precedence of the non-modelled reasons = list order, duplicates dropped keeping the first; categories are the documented names;
 R3 derived quantities: every stored quotient is wrapped in nan_to_num(nan=0, posinf=0, neginf=0);
 R4 definitions: margin = dem - gop, weights = dem + gop, normalized = margin / weights, turnout_factor = results_weights / baseline_weights;
    R4.margin-weights: add_estimand_baselines resets the weights to the turnout, so for the margin estimand the estimand function
    runs on every path on which baseline dem / gop are columns (truth table over the guard's other atoms), also when the margin
    baseline is already in the file;
 R5 defaults 0.5 / 2.0 / True / True / 2.0 and binding of every get_units argument to the model_parameters key of the same name;
 R6 baseline join (left, on state + unit id) and the two unreporting policies (drop = dropna any of the result columns; zero = fill
    0 and set percent_expected_vote to 0 on exactly the rows that had a missing result, and fill every results-derived column
    of those rows as well: R6.zero-derived).
"""
from __future__ import annotations

import ast

from .. import ir, rowsets as rs, symexpr, util
from ..frames import Frames
from ..model import AnalysisError
from ..rowsets import And, Not, Or
from ..unitsplit import CD, CUR, DATA, SELF, UnitSplit, column_const

EST = "elexmodel.handlers.data.Estimandizer"
NM_ORDER = ["non-modeled: blocklisted", "non-modeled: zero baseline", "non-modeled: strange turnout factor",
            "non-modeled: strange turnout factor modeled", "non-modeled: strange margin change modeled"]


def check(ctx):
    repo = ctx.repo
    ctx.explanation = (
        "The three frames returned by CombinedDataHandler.get_units are converted (helpers inlined, outlier model opaque) into "
        "propositional formulas 'unit u is a row of this frame' and compared with the documented eligibility formulas by "
        "complete truth table; comparisons are modelled as relations lt / eq / gt plus a 'missing' atom per column, so boundary and missing values are "
        "covered exactly. Derived-quantity definitions are compared as rational functions after resolving column reads "
        "through the assignment chain."
    )
    ctx.assumptions += ["unit ids are unique within the baseline and within the feed",
                        "the threshold and the turnout-factor limits are numbers (a column value may be missing: atom 'na:<column>')",
                        "the outlier model returns a row subset of the frame it is given (checked structurally)"]
    us = UnitSplit(ctx)
    f = us.f
    atoms = us.rs.atoms
    v = lambda n: ("var", n)  # noqa: E731
    inData, inFeed = v("inData"), v("inFeed")

    def rel(col, rhs, vals):
        return rs.compare(col, rhs, vals, never_missing=us.never_missing)

    PEV = rel("percent_expected_vote", "percent_reporting_threshold", {"eq", "gt"})
    blkU, blkS = v("geographic_unit_fips in unit_blocklist"), v("postal_code in postal_code_blocklist")
    blk = Or(blkU, blkS)
    zero = v("isclose(baseline_weights,0)")
    tfLo = rel("turnout_factor", "turnout_factor_lower", {"lt", "eq"})
    tfHi = rel("turnout_factor", "turnout_factor_upper", {"eq", "gt"})
    outT, outM = v("outlier:turnout_factor"), v("outlier:results_normalized_margin")

    unexpected, nonmod, wrappers, items = us.nonmodelled()
    bycat = {cat: (cond, fr) for cond, fr, cat in items}
    enT = bycat.get(NM_ORDER[3], (rs.F, None))[0]
    enM = bycat.get(NM_ORDER[4], (rs.F, None))[0]
    # the enabling conditions must involve the user's switches
    for name, en, switch in (("turnout", enT, "flag:fit_turnout_outlier_model"), ("margin", enM, "flag:fit_margin_outlier_model")):
        bools, _ = rs.variables(en)
        ok = switch in bools
        ctx.ob("C09.R1.switch", f"{f.qualname}|{name} outlier model obeys its switch", ok, f.where(),
               f"the {name} outlier model runs only when {switch[5:]} is set (and enough units report)" if ok
               else f"the {name} outlier model is not controlled by {switch[5:]}")
    bools_m, _ = rs.variables(enM)
    ctx.ob("C09.R1.switch", f"{f.qualname}|margin outlier model only for the margin estimand", "flag:('margin' in self.estimands)" in bools_m,
           f.where(), "margin outlier model requires 'margin' among the estimands")

    specR = And(inData, PEV, Not(blk), Not(zero), Not(tfLo), Not(tfHi), Not(And(enT, outT)), Not(And(enM, outM)))
    specN = And(inData, Not(PEV), Not(blk), Not(zero))
    specU = And(Or(inFeed, inData), Not(specR), Not(specN))
    rows_total = 0
    for name, code, spec, what in (("reporting", us.fR, specR, "used to fit"), ("nonreporting", us.fN, specN, "predicted"),
                                   ("unexpected+non-modelled", us.fU, specU, "passed through as counted votes")):
        ok, cex, n = rs.equivalent(code, spec)
        rows_total += n
        detail = f"rows({name}) == documented rule for units {what} on all {n} truth-table rows"
        if not ok:
            in_code = rs.ev(code, cex)
            detail = (f"a unit with [{rs.show_asg({str(k[1:]) if isinstance(k, tuple) else k: val for k, val in cex.items()})}] is "
                      f"{'in' if in_code else 'not in'} the {name} frame but the documented rule says the opposite")
        ctx.ob("C09.R1.table", f"{f.qualname}|{name} frame", ok, f.where(), detail)
    ctx.extra["truth_table_rows"] = rows_total
    ctx.extra["exhaustive"] = True
    ctx.extra["atoms"] = sorted(str(a) for a in atoms)
    # sanity of the specification itself: it is a partition of inFeed | inData
    okp, cexp, _ = rs.equivalent(Or(And(specR, Not(specN), Not(specU)), And(specN, Not(specR), Not(specU)), And(specU, Not(specR), Not(specN))),
                                 Or(inFeed, inData))
    ctx.selftest("C09.R1.table", okp, "documented formulas must partition the units")
    bad_spec = And(inData, rel("percent_expected_vote", "percent_reporting_threshold", {"gt"}))
    ctx.selftest("C09.R1.table", not rs.equivalent(bad_spec, And(inData, PEV))[0], "'>' vs '>=' must differ at the boundary")

    # constants written on the frames
    Fm = Frames(us.b, {DATA: "data", CUR: "current"})
    for name, fr, rep, cat in (("reporting", us.R, 1, "expected"), ("nonreporting", us.N, 0, "expected"), ("third", us.U, 0, None)):
        rv = _const_col(Fm, fr, "reporting")
        ctx.ob("C09.R2.flags", f"{f.qualname}|{name}.reporting", rv == rep, f.where(),
               f"{name} frame has reporting = {rep}" if rv == rep else f"{name} frame has reporting = {rv}, documented {rep}")
        if cat:
            cv = _const_col(Fm, fr, "unit_category")
            ctx.ob("C09.R2.flags", f"{f.qualname}|{name}.unit_category", cv == cat, f.where(),
                   f"{name} frame has unit_category = '{cat}'" if cv == cat else f"{name} frame has unit_category = {cv!r}")
    ucat = _const_col(Fm, unexpected, "unit_category")
    ctx.ob("C09.R2.flags", f"{f.qualname}|unexpected.unit_category", ucat == "unexpected", f.where(), f"unexpected units carry category {ucat!r}")

    # ---- R2 precedence -----------------------------------------------------------------------
    cats = [cat for _, _, cat in items]
    ctx.ob("C09.R2.order", f"{f.qualname}|reason order", cats == NM_ORDER, f.where(),
           "reasons are listed blocklisted, zero baseline, turnout-factor limits, turnout model, margin model" if cats == NM_ORDER
           else f"non-modelled reasons are concatenated in the order {cats}: with keep-first de-duplication the reported reason of a "
                f"unit with several reasons changes")
    dd = [w for w in wrappers if w[1][2] == "drop_duplicates"]
    okdd = len(dd) == 1 and dict(dd[0][3]).get("subset") == ("const", "geographic_unit_fips") and \
        dict(dd[0][3]).get("keep", ("const", "first")) == ("const", "first")
    ctx.ob("C09.R2.dedupe", f"{f.qualname}|first reason wins", okdd, f.where(),
           "duplicates dropped by unit id keeping the first reason" if okdd else "non-modelled units are not de-duplicated by unit id keeping the first")
    # category function by truth table
    spec_conds = [blk, And(Not(blk), zero), And(Not(blk), Not(zero), PEV, Or(tfLo, tfHi)),
                  And(Not(blk), Not(zero), PEV, Not(Or(tfLo, tfHi)), enT, outT),
                  And(Not(blk), Not(zero), PEV, Not(Or(tfLo, tfHi)), Not(And(enT, outT)), enM, outM)]
    if cats == NM_ORDER:
        prior = rs.F
        for (cond, fr, cat), spec in zip(items, spec_conds):
            here = And(cond, us.rs.member(fr), Not(prior))
            ok, cex, n = rs.equivalent(And(inData, here), And(inData, spec))
            ctx.ob("C09.R2.category", f"{f.qualname}|category {cat}", ok, f.where(),
                   f"'{cat}' is reported exactly for units whose first applicable reason it is" if ok
                   else f"'{cat}' is assigned under different conditions than documented, e.g. [{rs.show_asg({str(k): vv for k, vv in cex.items()})}]")
            prior = Or(prior, And(cond, us.rs.member(fr)))
    # outlier model returns a row subset of its input
    om = ctx.fn(CD, "CombinedDataHandler._fit_outlier_detection_model")
    oms = ctx.builder().summarize(om)
    rt = oms.ret()
    t = rt
    while t[0] == "call" and t[1][0] == "attr" and t[1][2] in ("copy", "reset_index"):
        t = t[1][1]
    oksub = t[0] == "sub" and t[1] == ("param", "reporting_units")
    ctx.ob("C09.R1.outlier-subset", f"{om.qualname}|returns a row subset", oksub, om.where(),
           "the outlier model returns rows of the frame it was given" if oksub else f"returns {ir.show(rt, maxdepth=3)}")

    # ---- R3 / R4 Estimandizer ------------------------------------------------------------------
    b = ctx.builder()
    N = symexpr.Normalizer(leaf=_leaf)
    mf = ctx.fn(EST, "margin")
    ms = b.summarize(mf)
    frame = ms.ret()[1][0] if ms.ret()[0] == "tuple" else ms.ret()
    F2 = Frames(b)
    P = ("param", "col_prefix")

    def nm(s):
        return ir.I(("fstr", (P, ("const", s))))

    defs = {"weights": "dem + gop", "margin": "dem - gop",
            "normalized_margin": "nan_to_num((dem - gop) / (dem + gop), nan=0, neginf=0, posinf=0)"}
    for col, spec in defs.items():
        try:
            val = F2.col(frame, nm(col))
            got = N.norm(val)
            want = symexpr.Normalizer().norm(symexpr.parse(spec))
            ok = got == want
            detail = f"{col} = {spec}" if ok else f"{col} is computed as {got.key()}, documented {want.key()}"
        except AnalysisError as e:
            ok, detail = False, f"{col}: {e}"
        ctx.ob("C09.R4.definition", f"margin|{col}", ok, mf.where(), detail)
    tf = ctx.fn(EST, "Estimandizer.add_turnout_factor")
    ts = b.summarize(tf)
    val = F2.col(ts.ret(), ("const", "turnout_factor"))
    got = N.norm(val)
    want = symexpr.Normalizer().norm(symexpr.parse("nan_to_num(results_weights / baseline_weights, nan=0, neginf=0, posinf=0)"))
    ctx.ob("C09.R4.definition", "Estimandizer.add_turnout_factor|turnout_factor", got == want, tf.where(),
           "turnout_factor = nan_to_num(results_weights / baseline_weights, 0, 0, 0)" if got == want
           else f"turnout_factor is {got.key()}, documented {want.key()}")
    # R4 (F25): add_estimand_baselines resets baseline_weights to the all-party turnout (add_weights) and relies on margin() to
    # replace them by the two party vote; so for the margin estimand the estimand function must run whenever its inputs are
    # there - in particular when a baseline_margin column is ALREADY present (the file that save_output=['data'] writes)
    _margin_weights_rule(ctx, b)

    # R3: every quotient stored by margin / add_turnout_factor is NaN/inf-guarded with zeros. Decided on the def-use terms of the columns
    # the two functions store (helpers that did not exist when this was written are looked through, temporaries are substituted): a `/`
    # must be the direct argument of nan_to_num(.., nan=0, posinf=0, neginf=0)
    nq = 0
    for fn, summ in ((mf, ms), (tf, ts)):
        fr_ = summ.ret()[1][0] if summ.ret()[0] == "tuple" else summ.ret()
        stored = []
        t_ = fr_
        while t_[0] == "setitem":
            stored.append((t_[2], t_[3]))
            t_ = t_[1]
        seen_q = set()
        for key_, val_ in stored:
            guarded = set()
            for x in ir.walk(val_):
                if x[0] == "call" and ir.show(x[1]).endswith("nan_to_num") and x[2] and x[2][0][0] == "bin" and x[2][0][1] == "/":
                    kw_ = dict(x[3])
                    if all(kw_.get(k2) == ("const", 0) for k2 in ("nan", "posinf", "neginf")):
                        guarded.add(x[2][0])
            for x in ir.walk(val_):
                if x[0] == "bin" and x[1] == "/" and x not in seen_q:
                    seen_q.add(x)
                    nq += 1
                    ok_g = x in guarded
                    ctx.ob("C09.R3.guard", f"{fn.qualname}|{ir.show(key_)} = .. {ir.show(x, maxdepth=2)[:60]}", ok_g, fn.where(),
                           "quotient wrapped in nan_to_num(nan=0, posinf=0, neginf=0)" if ok_g
                           else "quotient can be NaN / inf when the denominator is 0 (not replaced by 0)")
    ctx.sites("C09.R3", nq, 2, "quotients in the columns stored by margin / add_turnout_factor")

    # ---- R5 defaults and argument binding -------------------------------------------------------
    ge = ctx.fn("elexmodel.client", "ModelClient.get_estimates")
    gs = ctx.builder().summarize(ge)
    calls = []
    for _, _, t, _ in gs.assigns:
        for x in ir.walk(t):
            if x[0] == "call" and x[1][0] == "attr" and x[1][2] == "get_units" and x not in calls:
                calls.append(x)
    ctx.sites("C09.R5", len(calls), 1, "get_units call in get_estimates")
    bound = ir.bind_args(f, calls[0][2], calls[0][3], method=True)
    ctx.require(bound is not None, f"{ge.where()}: get_units call does not bind")
    defaults = {"turnout_factor_lower": 0.5, "turnout_factor_upper": 2.0, "unit_blocklist": [], "postal_code_blocklist": [],
                "fit_margin_outlier_model": True, "fit_turnout_outlier_model": True, "outlier_z_threshold": 2.0}
    for p, d in defaults.items():
        t = bound.get(p)
        # (the settings may be read from a private copy of model_parameters to which other keys have been added)
        okb = (t is not None and t[0] == "call" and t[1][0] == "attr" and t[1][2] == "get" and len(t[2]) == 2 and t[2][0] == ("const", p)
               and ir.dict_read_base(t[1][1], p) == ("param", "model_parameters"))
        dv = None
        if okb:
            dt = t[2][1]
            dv = list(dt[1]) if dt[0] == "list" else (dt[1] if dt[0] == "const" else "?")
        okd = okb and dv == d and type(dv) is type(d)
        ctx.ob("C09.R5.binding", f"{ge.qualname}|{p}", okb, ge.where(),
               f"get_units({p}=model_parameters['{p}'])" if okb else f"get_units receives {ir.show(t, maxdepth=3) if t else None} as {p}")
        if okb:
            ctx.ob("C09.R5.default", f"{ge.qualname}|default {p}", okd, ge.where(),
                   f"default {p} = {d!r}" if okd else f"default {p} is {dv!r}, documented {d!r}")
    okt = bound.get("percent_reporting_threshold") == ("param", "percent_reporting_threshold")
    ctx.ob("C09.R5.binding", f"{ge.qualname}|percent_reporting_threshold", okt, ge.where(), "threshold is the caller's percent_reporting_threshold")

    # ---- R6 baseline join and unreporting policies ------------------------------------------------
    ini = ctx.fn(CD, "CombinedDataHandler.__init__")
    isum = ctx.builder().summarize(ini)
    dw = [w for w in isum.attr_writes if w[1] == "data"]
    ctx.sites("C09.R6", len(dw), 1, "self.data assignment in CombinedDataHandler.__init__")
    dt = dw[-1][2]
    merges = [t for t in ir.walk(dt) if t[0] == "call" and t[1][0] == "attr" and t[1][2] == "merge"]
    ctx.require(merges, f"{ini.where()}: baseline join not found")
    m = merges[0]
    kws = dict(m[3])
    left_ok = any(x == ("param", "preprocessed_data") for x in ir.walk(m[1][1]))
    right_ok = any(x == ("param", "current_data") for x in ir.walk(m[2][0])) if m[2] else False
    okm = (kws.get("how") == ("const", "left") and left_ok and right_ok
           and kws.get("on") == ("list", (("const", "postal_code"), ("const", "geographic_unit_fips"))))
    ctx.ob("C09.R6.join", f"{ini.qualname}|baseline left join", okm, ini.where(),
           "data = baseline LEFT JOIN feed on (postal_code, unit id): exactly the baseline units" if okm
           else f"baseline join is {ir.show(m, maxdepth=3)}: the set of expected units is no longer the baseline")
    rc = [t for t in ir.walk(dt) if t[0] == "comp" and "results_" in ir.show(t[2])]
    # drop policy
    drops = [t for t in ir.walk(dt) if t[0] == "call" and t[1][0] == "attr" and t[1][2] == "dropna"]
    okdrop = False
    if drops:
        k = dict(drops[0][3])
        okdrop = (k.get("how", ("const", "any")) == ("const", "any") and k.get("axis", ("const", 0)) == ("const", 0)
                  and k.get("subset") is not None and k["subset"][0] == "comp" and "results_" in ir.show(k["subset"][2])
                  and k["subset"][3][0][1] in (("attr", SELF, "estimands"), ("param", "estimands")))
    ctx.ob("C09.R6.drop", f"{ini.qualname}|policy drop", okdrop, ini.where(),
           "drop: rows with any missing result column of the requested estimands are dropped" if okdrop
           else "drop policy is not dropna(how='any', subset=result columns of the estimands)")
    # zero policy: phi(handle == 'zero', setattr(mut(data, update, fillna0), loc, setitem(mask, pev) := 0), data)
    zero_ok, zdetail = False, "zero policy not recognised"
    for t in ir.walk(dt):
        if t[0] == "phi" and t[1] == ("cmp", "==", ("param", "handle_unreporting"), ("const", "zero")):
            z = t[2]
            upd = [x for x in ir.walk(z) if x[0] == "mut" and x[2] == "update"]
            sets = [x for x in ir.walk(z) if x[0] == "setitem" and x[2][0] == "tuple" and x[2][1][1] == ("const", "percent_expected_vote")]
            if upd and sets:
                fill = upd[0][3][0]
                okf = fill[0] == "call" and fill[1][0] == "attr" and fill[1][2] == "fillna" and (
                    dict(fill[3]).get("value") == ("const", 0) or (fill[2] and fill[2][0] == ("const", 0)))
                mask = sets[0][2][1][0]
                pre = not any(x[0] == "mut" and x[2] == "update" for x in ir.walk(mask))
                anyna = "isnull().any(axis=1)" in ir.show(mask, maxdepth=6) and "results_" in ir.show(mask, maxdepth=8)
                zero_ok = okf and sets[0][3] == ("const", 0) and pre and anyna
                zdetail = ("zero: missing results filled with 0 and percent_expected_vote set to 0 on exactly those rows" if zero_ok else
                           f"zero policy: fill={okf}, pev value={ir.show(sets[0][3])}, mask computed before the fill={pre}, mask=any-missing={anyna}")
    ctx.ob("C09.R6.zero", f"{ini.qualname}|policy zero", zero_ok, ini.where(), zdetail)
    # .. and on those rows every quantity DERIVED from the results (two-party votes, normalised margin, turnout factor, the
    # party columns of the margin estimand) is filled with 0 as well: they are NaN from the left join, and a unit that is passed
    # through (blocklisted / zero baseline) carries them into the group sums
    okder, ddetail = False, "under the zero policy the results-derived columns of units missing from the feed stay NaN"
    for t in ir.walk(dt):
        if t[0] == "phi" and t[1] == ("cmp", "==", ("param", "handle_unreporting"), ("const", "zero")):
            for x in ir.walk(t[2]):
                if x[0] == "setitem" and x[2][0] == "tuple" and len(x[2][1]) == 2 and x[2][1][1][0] == "comp":
                    comp = x[2][1][1]
                    sel = " ".join(ir.show(cnd, maxdepth=6) for g_ in comp[3] for cnd in g_[2])
                    over_columns = any(g_[1][0] == "attr" and g_[1][2] == "columns" for g_ in comp[3])
                    covers = over_columns and "startswith('results_')" in sel and "'turnout_factor'" in sel
                    v = x[3]
                    filled = v[0] == "call" and v[1][0] == "attr" and v[1][2] == "fillna" and (
                        dict(v[3]).get("value") == ("const", 0) or (v[2] and v[2][0] == ("const", 0)))
                    same_rows = "isnull().any(axis=1)" in ir.show(x[2][1][0], maxdepth=6)
                    if covers and filled and same_rows:
                        okder = True
                        ddetail = "zero: every results_* column and turnout_factor of the rows with missing results is filled with 0"
    ctx.ob("C09.R6.zero-derived", f"{ini.qualname}|policy zero fills the derived quantities", okder, ini.where(), ddetail)


def _margin_weights_rule(ctx, b):
    aeb = ctx.fn(EST, "Estimandizer.add_estimand_baselines")
    ret = b.summarize(aeb).ret()

    def is_est_call(t):  # globals()[<estimand>](frame, BASELINE_PREFIX)
        return (t[0] == "call" and t[1][0] == "sub" and t[1][1][0] == "call" and t[1][1][1] == ("global", "globals")
                and any((a == ("const", "baseline_") or ir.show(a).endswith("BASELINE_PREFIX")) for a in t[2]))

    def has_call(t):
        return any(is_est_call(x) for x in ir.walk(t))

    resets = [x for x in ir.walk(ret) if x[0] == "call" and x[1][0] == "attr" and x[1][2] == "add_weights"
              and any((a == ("const", "baseline_") or ir.show(a).endswith("BASELINE_PREFIX")) for a in x[2])]
    ncalls = len({x for x in ir.walk(ret) if is_est_call(x)})
    ctx.sites("C09.R4.margin-weights", ncalls, 1, "estimand-function call on the baseline in add_estimand_baselines")
    if not resets:
        ctx.ob("C09.R4.margin-weights", f"{aeb.qualname}|margin baseline recomputed when its inputs are present", True, aeb.where(),
               "the baseline weights are not reset to the turnout here, so a present margin baseline keeps the weights it came with")
        return
    atoms = {}

    def formula(c):
        if c[0] == "bool":
            parts = [formula(x) for x in c[2]]
            return And(*parts) if c[1] == "and" else Or(*parts)
        if c[0] == "un" and c[1] == "not":
            return Not(formula(c[2]))
        strs = [x[1] for x in ir.walk(c) if x[0] == "const" and isinstance(x[1], str)]
        if c[0] == "cmp" and c[1] in ("==", "!=") and ("const", "margin") in (c[2], c[3]):
            return rs.T if c[1] == "==" else rs.F  # the estimand is margin
        if c[0] == "cmp" and c[1] in ("in", "notin", "not in") and ("const", "margin") in (c[2], c[3]):
            return rs.T if c[1] == "in" else rs.F
        if any(x in ("dem", "gop") or x.endswith(("_dem", "_gop")) for x in strs) and "columns" in ir.show(c, maxdepth=8):
            return rs.T  # the inputs of the margin (baseline dem and gop) are columns
        name = ir.show(c, maxdepth=5)
        atoms[name] = c
        return ("var", name)

    bad = None
    nphi = 0
    for x in ir.walk(ret):
        if x[0] != "phi":
            continue
        a, bb = has_call(x[2]), has_call(x[3])
        if a == bb:
            continue
        nphi += 1
        need = formula(x[1]) if a else Not(formula(x[1]))
        ok, cex, _ = rs.equivalent(need, rs.T)
        if not ok and bad is None:
            bad = ", ".join(f"{k} is {v}" for k, v in sorted(cex.items())) or "always"
    ok = bad is None
    ctx.ob("C09.R4.margin-weights", f"{aeb.qualname}|margin baseline recomputed when its inputs are present", ok, aeb.where(),
           f"for the margin estimand with baseline dem/gop columns the estimand function runs on every path ({nphi} guarded call(s)), "
           "so the weights reset by add_weights become the two party vote again" if ok else
           f"add_weights resets baseline_weights to the turnout, and margin() - which makes them the two party vote - is skipped when [{bad}]: "
           "a baseline that already has the margin column (a file written by save_output=['data']) keeps all-party weights")


def _const_col(Fm, fr, col):
    try:
        val = Fm.col(fr, ("const", col))
    except AnalysisError:
        return None
    while val[0] in ("rowsel", "nullable"):
        val = val[1]
    if val[0] == "lit":
        return val[1]
    if val[0] == "call" and val[1] == ("global", "int") and val[2] and val[2][0][0] in ("lit", "const"):
        return int(val[2][0][1])
    return None


def _leaf(t):
    if t[0] == "col":
        n = t[2]
        if n[0] == "fstr":
            return "".join(p[1] for p in n[1] if p[0] == "const")
        if n[0] == "const":
            return str(n[1])
    if t[0] == "lit":
        return symexpr.const(symexpr._frac(t[1])) if isinstance(t[1], (int, float)) and not isinstance(t[1], bool) else None
    return None
