"""C03 - counted votes are a floor and reported units are final.

 R1 ConformalElectionModel.get_unit_predictions returns round(maximum(f, N.results_e));
 R2 nonparametric and gaussian get_unit_prediction_intervals: both returned bounds are round(maximum(g, N.results_e));
 R3 gaussian aggregate: predicted_lower/upper = maximum(last + lb|ub, S_N(results_e)), then + (S_R + S_U)(results_e) with
    fill-before-add, then round; the early return (no nonreporting units) equals the counted votes; the floor column is read
    from a second table by position, so both tables must have the same row signature (R3.aligned);
 R4 results handler: for reporting and unexpected units pred_e, lower_a_e, upper_a_e are copies of results_e for every level,
    and pred_turnout is a copy of results_weights.
 R5 gaussian aggregate: every group with outstanding units keeps a row in the matching of bounds and models (own model, else its
    parent's, else the all-units model) - restated from C15.R3, because a group that falls out is filled with 0 and reports only
    the counted votes of its reporting units.
Lemma: R2 + C02.R2 give the aggregate floor and the zero-width interval of groups without nonreporting units (nonparametric).
 R6 gaussian bounds stay finite for a fitted scale of 0 (location-scale form mu + sd * ppf(q), restated from C15.R4): a NaN bound has no floor.
Not decided: finiteness in general (NaN from degenerate calibration sets) - numeric.
 R7 same-frames: the results handler stores the frames of get_units themselves or plain copies (restated from C01.R2.binding), so the
    floored vector is assigned to the rows it was computed for.
"""
from __future__ import annotations

import ast

from .. import aggmodel as am, ir, util
from ..aggmodel import N_, R_, U_
from ..frames import Frames
from ..model import AnalysisError
from ..unitmodel import CM, E, GEM, NPM, NU, col, floor_shape
from .c01 import CLS_FLAG, MR, fname, model_builder


def check(ctx):
    repo = ctx.repo
    ctx.explanation = (
        "Def-use terms of the five floor sites (unit prediction, unit lower/upper of both conformal estimators, gaussian aggregate "
        "lower/upper) are matched against round(maximum(x, counted votes of the same nonreporting rows)); the gaussian aggregate "
        "bounds are resolved through the frame algebra to 'max(modelled bound, S_N(results)) + S_R + S_U (results)'; the copies "
        "made by the results handler are read from its column assignments."
    )
    ctx.assumptions += ["numpy.maximum / round are element-wise; Series assignment between frames of equal range index is positional",
                        "not decided: finiteness of the modelled values (numeric)"]
    b = ctx.builder()
    # ---- R1 ------------------------------------------------------------------------------------
    f = ctx.fn(CM, "ConformalElectionModel.get_unit_predictions")
    s = b.summarize(f)
    ret = s.ret()
    ctx.require(ret[0] == "tuple" and len(ret[1]) == 2, f"{f.where()}: does not return (predictions, None)")
    g, okr, okf = floor_shape(ret[1][0])
    ctx.ob("C03.R1.floor", f"{f.qualname}|prediction floored at counted votes", okf, f.where(),
           "prediction = maximum(model value, nonreporting_units[results_e])" if okf
           else f"unit prediction is {ir.show(ret[1][0], maxdepth=3)}: not floored at the unit's counted votes")
    ctx.ob("C03.R1.round", f"{f.qualname}|prediction rounded", okr, f.where(), "prediction rounded to whole votes" if okr else "prediction not rounded to whole votes")
    # ---- R2 ------------------------------------------------------------------------------------
    for modn, cn in ((NPM, "NonparametricElectionModel"), (GEM, "GaussianElectionModel")):
        m = ctx.fn(modn, f"{cn}.get_unit_prediction_intervals")
        ms = b.summarize(m, self_cls=repo.cls(modn, cn))
        rt = ms.ret()
        ctx.require(rt[0] == "call" and len(rt[2]) >= 2, f"{m.where()}: does not return PredictionIntervals(lower, upper, ..)")
        for i, side in enumerate(("lower", "upper")):
            g, okr, okf = floor_shape(rt[2][i])
            ctx.ob("C03.R2.floor", f"{m.qualname}|{side} floored at counted votes", okf, m.where(),
                   f"{side} = maximum(bound, nonreporting_units[results_e])" if okf
                   else f"unit {side} bound is {ir.show(rt[2][i], maxdepth=3)}: not floored at the unit's counted votes")
            ctx.ob("C03.R2.round", f"{m.qualname}|{side} rounded", okr, m.where(), f"{side} bound rounded" if okr else f"{side} bound not rounded to whole votes")
    # ---- R3 gaussian aggregate -------------------------------------------------------------------
    mb = model_builder(ctx)
    gc = repo.cls(GEM, "GaussianElectionModel")
    gf = ctx.fn(GEM, "GaussianElectionModel.get_aggregate_prediction_intervals")
    gs = mb.summarize(gf, self_cls=gc)
    F = Frames(mb)
    res = fname("results_")
    NOTHING_OUT = ("cmp", "==", ir.nrows(("param", "nonreporting_units")), ("const", 0))

    def is_shortcut(pc):
        return any(c == NOTHING_OUT and pol for c, pol in pc)

    main = [(pc, t, n) for pc, t, n in gs.returns if not is_shortcut(pc) and t[0] == "call"]
    early = [(pc, t, n) for pc, t, n in gs.returns if is_shortcut(pc) or t[0] == "tuple"]
    ctx.sites("C03.R3", len(main), 1, "main return of the gaussian aggregate interval function")
    for pc, t, n in main:
        for i, side in enumerate(("lower", "upper")):
            x = t[2][i]
            okr = x[0] == "call" and x[1][0] == "attr" and x[1][2] == "round"
            ctx.ob("C03.R3.round", f"{gf.qualname}|aggregate {side} rounded", okr, gf.where(n), f"aggregate {side} bound rounded" if okr else "not rounded")
            colt = x[1][1] if okr else x
            cr_ = ir.column_ref(colt)
            ctx.require(cr_ is not None, f"{gf.where(n)}: aggregate {side} is not a table column")
            colt = ("attr", cr_[0], cr_[1])
            val = F.col(colt[1], ("const", colt[2]))
            for cls_mode in (False, True):
                problems = []
                lin = am.linear(val, {CLS_FLAG: cls_mode}, problems)
                mode = "classification level" if cls_mode else "state/county/district level"
                maxes = [a for s_, a in lin if a[0] == "call" and ir.show(a[1]).endswith("maximum")]
                sums = am.gsum_atoms([(s_, a) for s_, a in lin if a[0] == "gsum"])
                want = sorted((fr, ir.show(res), 1) for fr in (["R"] if cls_mode else ["R", "U"]))
                got = sorted((fr, c, s_) for fr, c, s_, k in sums)
                okfloor = False
                detail = f"aggregate {side} has no maximum(modelled bound, counted votes of nonreporting units) term"
                if len(maxes) == 1:
                    a, bb = maxes[0][2]
                    floor = next((z for z in (a, bb) if z[0] == "gsum" or (z[0] == "rowsel" and z[1][0] == "gsum")), None)
                    if floor is not None:
                        fl = floor[1] if floor[0] == "rowsel" else floor
                        okfloor = fl[1] == N_ and fl[2] == ("col", N_, res) and fl[3] == ("param", "aggregate")
                        detail = (f"aggregate {side} = maximum(last + bound, S_N(results_e)) + counted votes" if okfloor
                                  else f"floor term is {am.describe_atom(fl)}, not S_N(results_e) by the aggregate keys")
                ctx.ob("C03.R3.floor", f"{gf.qualname}|aggregate {side} floored at S_N(results) ({mode})", okfloor, gf.where(n), detail)
                ctx.ob("C03.R3.counted", f"{gf.qualname}|aggregate {side} adds counted votes ({mode})", got == want and not problems, gf.where(n),
                       "adds " + " + ".join(f"S_{fr}(results_e)" for fr, _, _ in want) + " with fill-before-add" if got == want and not problems
                       else f"adds {got} (expected {want}); NaN problems: {len(problems)}")
    floor_alignment(ctx, "C03.R3.aligned", mb, F, gf, gs)
    ctx.sites("C03.R3.early", len(early), 1, "early return of the gaussian aggregate interval function")
    for pc, t, n in early:
        cond = pc[-1] if pc else None
        okc = cond is not None and cond[1] and cond[0] == NOTHING_OUT
        vals = []
        from ..frames import vector_value
        for x in (t[1] if t[0] == "tuple" else t[2][:2]):
            try:
                vals.append(vector_value(F, x))
            except AnalysisError:
                vals.append(None)
        oke = okc and all(v is not None for v in vals)
        if oke:
            for v in vals:
                for cls_mode in (False, True):
                    problems = []
                    lin = am.linear(v, {CLS_FLAG: cls_mode}, problems)
                    got = sorted((fr, c, s_) for fr, c, s_, k in am.gsum_atoms(lin))
                    want = sorted((fr, ir.show(res), 1) for fr in (["R"] if cls_mode else ["R", "U"]))
                    oke = oke and got == want and not problems
        ctx.ob("C03.R3.early", f"{gf.qualname}|no nonreporting units => counted votes", oke, gf.where(n),
               "with no nonreporting units both bounds are the counted votes of the group" if oke else "early return is not (counted votes, counted votes) under 'no nonreporting units'")
    # ---- R4 results handler ------------------------------------------------------------------------
    R_A, N_A, U_A = (("attr", ("param", "self"), n) for n in ("reporting_units", "nonreporting_units", "unexpected_units"))
    hb = ctx.builder()
    Fh = Frames(hb, {R_A: "R", N_A: "N", U_A: "U"})
    up = ctx.fn(MR, "ModelResultsHandler.add_unit_predictions")
    us = hb.summarize(up)
    for attr, base in (("reporting_units", R_A), ("unexpected_units", U_A)):
        t = us.attrs.get(attr)
        ctx.require(t is not None, f"{up.where()}: self.{attr} not updated")
        v = Fh.col(t, fname("pred_"))
        ok = v == ("col", base, fname("results_"))
        ctx.ob("C03.R4.pred", f"{up.qualname}|{attr}.pred_e = results_e", ok, up.where(),
               f"{attr}: pred_e is a copy of results_e" if ok else f"{attr}: pred_e is {ir.show(v, maxdepth=3)}")
    tp = ctx.fn(MR, "ModelResultsHandler.add_unit_turnout_predictions")
    ts = hb.summarize(tp)
    for attr, base in (("reporting_units", R_A), ("unexpected_units", U_A)):
        v = Fh.col(ts.attrs[attr], ("const", "pred_turnout"))
        ok = v == ("col", base, ("const", "results_weights"))
        ctx.ob("C03.R4.turnout", f"{tp.qualname}|{attr}.pred_turnout = results_weights", ok, tp.where(),
               f"{attr}: pred_turnout is a copy of results_weights" if ok else f"{attr}: pred_turnout is {ir.show(v, maxdepth=3)}")
    ui = ctx.fn(MR, "ModelResultsHandler.add_unit_intervals")
    uis = hb.summarize(ui)
    for attr, base in (("reporting_units", R_A), ("unexpected_units", U_A)):
        t = uis.attrs.get(attr)
        if t is None:
            ctx.ob("C03.R4.intervals", f"{ui.qualname}|{attr}.lower/upper = results_e for every level", False, ui.where(),
                   f"{attr}: no bound column is written at all, the unit table's bounds of these units are missing")
            continue
        from ..colwrites import column_writes, read_column, strip_ids
        ALPHA = ("elem", ("attr", ("param", "self"), "prediction_interval_alphas"), 0)
        sides = {}
        for side in ("lower", "upper"):
            want = ("fstr", (("const", side + "_"), ALPHA, ("const", "_"), ("param", "estimand")))
            vals = [v for k, v in column_writes(t) if k == want]
            # the value: the frame's own results_e column (the frame as it is at that point: earlier bound columns on top of it)
            good = []
            for v in vals:
                r = read_column(v[1], v[2]) if v[0] == "sub" else None
                base_ = r[1] if r and r[0] == "col" else None
                while base_ is not None and base_[0] == "loopin":
                    base_ = base_[3]
                good.append(r is not None and r[0] == "col" and r[2] == strip_ids(fname("results_")) and base_ == base)
            sides[side] = bool(vals) and all(good)
        over_all = True
        ok = sides == {"lower": True, "upper": True}
        ctx.ob("C03.R4.intervals", f"{ui.qualname}|{attr}.lower/upper = results_e for every level", ok, ui.where(),
               f"{attr}: lower_a_e and upper_a_e are copies of results_e for every interval level of the handler" if ok
               else f"{attr}: bounds assigned {sides}, loop over all levels: {over_all}")


def floor_alignment(ctx, rule, mb, F, gf, gs):
    """Shared with C10: row alignment of the gaussian aggregate floor."""
    # row alignment of the floor: the counted votes are read from ANOTHER table inside .assign(lambda); pandas pairs the rows by
    # index label, so both tables must list the same groups in the same (sorted) order under a fresh range index
    from ..frames import foreign_column_reads, signature
    acalls = []
    for _, _, t_, _ in gs.assigns:
        for x in ir.walk(t_):
            if x[0] == "call" and x[1][0] == "attr" and x[1][2] == "assign" and any(k and k.startswith("predicted_") for k, _ in x[3]) and x not in acalls:
                acalls.append(x)
    nal = 0
    for x in acalls:
        for k, fr in foreign_column_reads(mb, F, x):
            nal += 1
            for cls_mode in (False, True):
                mode = "classification level" if cls_mode else "state/county/district level"
                try:
                    su, so, si = signature(x[1][1], {CLS_FLAG: cls_mode})
                    fu, fo, fi = signature(fr, {CLS_FLAG: cls_mode})
                    oka = so == fo == "sorted" and si == fi == "range"
                    detail = ("both tables are sorted by the aggregate keys under a fresh range index, so row i of the floor is group i of the bounds"
                              if oka else f"rows of the bounds table are in '{so}' order (index {si}) but the counted-votes table is in '{fo}' order "
                              f"(index {fi}): group i is floored at the counted votes of another group")
                except AnalysisError as e:
                    oka, detail = False, f"row order not derivable: {e}"
                ctx.ob(rule, f"{gf.qualname}|{k} floor rows aligned with the bounds rows ({mode})", oka, gf.where(), detail)
    ctx.sites(rule, nal, 0, "columns of another table read inside the gaussian aggregate assign(lambda)")

    # ---- R5 every outstanding group has modelled bounds (gaussian) ---------------------------------------------------
    # R3's formula puts the floor on the groups that HAVE modelled bounds; a group with nonreporting units that falls out of the
    # matching of bounds and gaussian models is filled with predicted_lower = predicted_upper = 0 and reports the counted votes of its
    # reporting units only - below the counted votes as soon as a nonreporting unit has a partial count, and with zero width although
    # units are outstanding. That every outstanding group is matched (own model, else parent, else all units) is C15.R3; the same
    # obligations are restated here because the floor depends on them.
    n5 = ctx.borrow("C15", "C15.R3.", "C03.R5.", "a group that falls out of the matching gets bounds at the counted votes of its reporting units only")
    ctx.sites("C03.R5", n5, 5, "matching-loop obligations restated from C15.R3")

    # ---- R6 the gaussian bounds are finite whatever the fitted scale --------------------------------------------------
    # maximum(NaN, counted) is NaN: a bound that is NaN has lost its floor (and is not a whole number). The one construct in the gaussian
    # estimator that produces NaN from admissible settings is a scale handed to ppf() (scale 0: beta = 0, identical calibration scores) -
    # C15.R4 asks for the location-scale form mu + sd * ppf(q) at the unit and the aggregate site; restated here because the floor of
    # R2 / R3 depends on it.
    n6 = ctx.borrow("C15", "C15.R4.unit-correction", "C03.R6.finite-unit", "NaN bounds: the floor at the counted votes is lost for every nonreporting unit")
    n6 += ctx.borrow("C15", "C15.R4.aggregate-bound", "C03.R6.finite-aggregate", "NaN group bounds are filled with 0: the interval collapses to the counted votes of the reporting units")
    ctx.sites("C03.R6", n6, 2, "location-scale obligations restated from C15.R4")
    # ---- R7 the floored vector is written into the frame it was computed from ---------------------------------------------
    # the model steps get the frames returned by get_units, the results handler stores those same frames: a handler that keeps re-indexed or
    # re-ordered copies is assigned the floored predictions by row label of ANOTHER frame - a unit gets another unit's floor (or NaN)
    n7 = ctx.borrow("C01", "C01.R2.binding", "C03.R7.same-frames", "the floored prediction of one unit would be published on the row of another")
    ctx.sites("C03.R7", n7, 2, "frame binding obligations restated from C01.R2")
