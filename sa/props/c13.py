"""C13 - what is reported for one request does not depend on what else was requested.

 R1 merge keys of the cross-estimand joins cover every shared column (aggregate and unit level) - shared with C01.R5;
 R2 per-level caches: every model attribute written by the per-level unit interval step and read by the per-level aggregate
    interval step is a dictionary keyed by the level, the stored value is a copy (or a fresh object) and it is read back with
    the same key; the client hands each aggregate call the unit intervals of the same level; because none of that state is
    keyed by the estimand, producer and consumer steps run inside one iteration of the client's estimand loop (R2.scope);
 R3 no step executed inside the estimand / level / aggregate loops draws from a persistent random generator unless it is behind
    a run-once guard; shuffles and resampling inside the loops construct their generator freshly from the seed;
 R4 in-place column writes on the shared unit frames inside the loops use a column name that contains every request parameter
    the written value depends on (pred_turnout is the documented exception: it exists for the margin estimand only);
 R5 no closure reading a loop variable is stored beyond its iteration (late binding) anywhere in the package;
 R6 the unit split (which units are fitted / predicted / passed through) reads no row predicate that depends on the list of
    requested estimands (the margin switch excepted);
 R7 carried state: a model attribute computed from its own previous value inside a per-level / per-estimand step (memo, accumulator)
    must not depend on a parameter that varies with the request (level, estimand, aggregate, or anything a caller derives from them,
    e.g. the conformal training fraction) unless it is stored under that parameter.
 R9 the unit frames handed to the model steps inside the client's loops are loop-invariant (no value carried over from an earlier iteration);
 R8 the interval columns of one level are filled from that level's intervals alone (restated from C02.R5).
"""
from __future__ import annotations

import ast

from .. import ir, util
from ..cfg import CFG
from ..effects import Guards
from ..model import AnalysisError, FuncInfo
from ..mutation import Mutation
from .c01 import MR, merge_keys

CLIENT = "elexmodel.client"
FIXED_NAME_OK = {"pred_turnout": "two-party turnout prediction: produced for the margin estimand only (single writer)"}
LOOP_STEPS = ("get_unit_predictions", "get_unit_prediction_intervals", "get_aggregate_predictions", "get_aggregate_prediction_intervals")


def _open_loopins(t, closed=frozenset(), depth=0):
    """loopin nodes of loops that are still running where the term is used: a loopin inside the loopout of the same loop is the inner view of a
    loop that has finished (its result is an ordinary value), one that is not enclosed by its loopout is a value carried over from the previous
    iteration of an enclosing loop"""
    out = []
    if not isinstance(t, tuple) or not t or depth > 80:
        return out
    if t[0] == "loopout":
        closed = closed | {t[1]}
    elif t[0] == "loopin" and t[2] not in closed:
        out.append(t)
    for x in t:
        if isinstance(x, tuple):
            out += _open_loopins(x, closed, depth + 1)
    return out


def _loop_invariant_frames(ctx):
    """R9: inside the client's estimand / level / aggregate loops the unit frames handed to a model step are the same objects in every
    iteration: no frame argument is a value carried over from an earlier iteration (a local narrowed for one aggregate and never reset
    makes every later table - the contest-level one the national summary reads included - depend on the order of the request)."""
    ge = ctx.fn(CLIENT, "ModelClient.get_estimates")
    gs = ctx.builder(inline=lambda *a: False).summarize(ge)
    seen, n = [], 0
    for t in [t for _, _, t, _ in gs.assigns] + [t for _, t, _ in gs.effects]:
        for x in ir.walk(t):
            if x[0] == "call" and x[1][0] == "attr" and x[1][2] in LOOP_STEPS and x not in seen:
                seen.append(x)
                nfr = 2 if x[1][2].startswith("get_unit") else 3
                for i, a in enumerate(x[2][:nfr]):
                    n += 1
                    carried = _open_loopins(a)
                    ctx.ob("C13.R9.frames", f"{ge.qualname}|{x[1][2]} frame argument {i} is the same in every iteration", not carried, ge.where(),
                           "the frame does not depend on earlier iterations of the request loops" if not carried
                           else f"frame argument {i} of {x[1][2]} is {ir.show(a, maxdepth=3)[:120]}: its value is carried over from an earlier iteration of "
                                "the loop, so a table depends on which tables were computed before it")
    ctx.sites("C13.R9", n, 8, "unit-frame arguments of the model steps in the client's loops")


def check(ctx):
    repo = ctx.repo
    ctx.explanation = (
        "Interference between requests lives in state shared across the loops of get_estimates. Decided statically: merge keys "
        "per configuration (constant folding), typestate of per-level caches (writer/reader attribute sets of the per-level "
        "model steps, key expressions, copy discipline), who-may-draw from persistent generators inside the loops (call graph + "
        "run-once guard), and name/value dependence of every in-place column write on the shared frames (def-use terms)."
    )
    ctx.assumptions += ["numpy / pandas in-place operators (*=, +=) mutate the object they are applied to",
                        "C12 decides that the seeds themselves derive from the seed setting",
                        "a feed row carries results for all requested estimands or for none: under the documented 'drop' policy a row "
                        "with a missing result for ANY requested estimand is dropped for all of them (explicit in the source comment), "
                        "so for rows with partially missing results the set of requested estimands does matter - by design, not judged"]
    merge_keys(ctx, "C13.R1")
    _caches(ctx)
    _estimand_scope(ctx)
    _late_binding(ctx)
    _split_request_independent(ctx)
    _generators(ctx)
    _column_writes(ctx)
    _carried_state(ctx)
    _loop_invariant_frames(ctx)
    # R8: the columns of one interval level are filled from the intervals of THAT level alone (restated from C02.R5: lower_<a>_<e> is
    # element 0 / .lower of intervals[a]); a value combined across the requested levels (a hull, a running extreme) makes the level-a
    # columns depend on which other levels were asked for
    n8 = ctx.borrow("C02", "C02.R5.positions", "C13.R8.level-columns.aggregate", "the columns of one level would depend on the other levels requested in the same run")
    n8 += ctx.borrow("C02", "C02.R5.unit", "C13.R8.level-columns.unit", "the columns of one level would depend on the other levels requested in the same run")
    ctx.sites("C13.R8", n8, 2, "interval column writes of the results handler, restated from C02.R5")


# ---------------------------------------------------------------------------------------------
def _attr_accesses(f):
    reads, writes = {}, {}
    for n in util.own_nodes(f, ast.Attribute):
        if isinstance(n.value, ast.Name) and n.value.id == "self":
            par = getattr(n, "_parent", None)
            if isinstance(par, ast.Call) and par.func is n:
                continue
            if isinstance(n.ctx, ast.Store):
                writes.setdefault(n.attr, []).append(n)
            else:
                # self.x[key] = v  is a write to the container
                if isinstance(par, ast.Subscript) and par.value is n and isinstance(par.ctx, ast.Store):
                    writes.setdefault(n.attr, []).append(par)
                else:
                    reads.setdefault(n.attr, []).append(n)
    return reads, writes


def _closure(ctx, cls, name):
    """method `name` of cls + the methods of the family it calls on self (transitively)"""
    m = cls.lookup(name)
    if m is None:
        return []
    out, stack = [], [m]
    while stack:
        g = stack.pop()
        if g in out:
            continue
        out.append(g)
        for c in util.own_nodes(g, ast.Call):
            for callee in ctx.resolver.resolve_call(g, c, cls):
                if isinstance(callee, FuncInfo) and callee.cls is not None and callee.cls in cls.mro():
                    stack.append(callee)
    return out


REQUEST_PARAMS = ("alpha", "estimand", "aggregate")


def _carried_state(ctx):
    """R7.carried: a model attribute whose new value is computed FROM ITS OWN PREVIOUS VALUE inside a per-level / per-estimand step
    (`if self.x is None: self.x = ..`, `self.x = self.x or ..`, an accumulating container) is state carried from one iteration of the
    client's loops to the next. That is harmless only if what is carried does not depend on what varies between the iterations - the
    interval level, the estimand, the aggregate, or anything computed from them (the conformal training fraction is a function of the
    level) - or if it is stored under a key made of those parameters. Parameters are classified through the call sites inside the
    model family: a parameter is request-dependent if some caller passes it a term that depends on a request-dependent parameter."""
    repo = ctx.repo
    SELF_ = ("param", "self")
    bld = ctx.builder(inline=lambda *a_: False)
    n_carried = 0
    for modn, cn in (("elexmodel.models.NonparametricElectionModel", "NonparametricElectionModel"),
                     ("elexmodel.models.GaussianElectionModel", "GaussianElectionModel"),
                     ("elexmodel.models.BootstrapElectionModel", "BootstrapElectionModel")):
        cls = repo.cls(modn, cn)
        fns = []
        for step in LOOP_STEPS:
            for g in _closure(ctx, cls, step):
                if g not in fns:
                    fns.append(g)
        sums = {g: bld.summarize(g, self_cls=cls) for g in fns}
        varying = {g: {p_ for p_ in g.params if p_ in REQUEST_PARAMS} for g in fns}
        changed = True
        while changed:
            changed = False
            for g in fns:
                terms = [t for _, _, t, _ in sums[g].assigns] + [t for _, t, _ in sums[g].effects] + [w[2] for w in sums[g].attr_writes] \
                    + [t for _, t, _ in sums[g].returns]
                for t in terms:
                    for x in ir.walk(t):
                        if not (x[0] == "call" and x[1][0] == "attr" and x[1][1] == SELF_):
                            continue
                        callee = cls.lookup(x[1][2])
                        if callee not in fns:
                            continue
                        try:
                            bound = ir.bind_args(callee, x[2], x[3], method=True)
                        except Exception:
                            continue
                        for pn, arg in bound.items():
                            if pn in varying[callee] or not isinstance(arg, tuple):
                                continue
                            if any(y[0] == "param" and y[1] in varying[g] for y in ir.walk(arg)):
                                varying[callee].add(pn)
                                changed = True
        for g in fns:
            for w in sums[g].attr_writes:
                a, v = w[1], w[2]
                guarded_by_itself = any(y == ("attr", SELF_, a) for c_, _pol in w[0] if c_[0] != "loop" for y in ir.walk(c_))
                if not guarded_by_itself and not any(y == ("attr", SELF_, a) for y in ir.walk(v)):
                    continue  # overwritten from scratch: nothing is carried
                if v[0] == "setitem" and v[1] == ("attr", SELF_, a):
                    continue  # a per-key cache `self.a[key] = value`: typestate of those is R2 (keyed / copy / read / scope)
                n_carried += 1
                # request parameters the carried value depends on, outside the keys it is stored under
                keys = set()

                def strip(t):
                    while t[0] == "setitem":
                        keys.update(y[1] for y in ir.walk(t[2]) if y[0] == "param")
                        yield t[3]
                        t = t[1]
                    yield t

                deps = set()
                for part in strip(v):
                    deps |= {y[1] for y in ir.walk(part) if y[0] == "param" and y[1] in varying[g]}
                # a write that happens only when something in this call FAILED (except handler) depends on the call's arguments through the
                # failure itself: whether a later call sees the flag depends on which earlier fits raised
                in_handler = any(c_[0] == "exc" for c_, _pol in w[0])
                if in_handler:
                    deps |= set(varying[g])
                loose = sorted(deps - keys)
                ok = not loose
                ctx.ob("C13.R7.carried", f"{cn}|{g.qualname}|self.{a} kept from one call to the next", ok, g.where(),
                       f"self.{a} carries state across calls, but nothing in it depends on the level / estimand / aggregate of the call "
                       f"(or it is stored under them: {sorted(keys & varying[g])})" if ok else
                       f"self.{a} is computed once and kept for later calls, but its value depends on {', '.join(loose)}, which changes with the "
                       f"requested interval level / estimand: every later level of the same request is computed with the first level's value")
    ctx.count("C13.R7.carried_attributes", n_carried)
    # built-in positive example (today no attribute is carried, so the rule would otherwise pass vacuously)
    probe = ("phi", ("cmp", "is", ("attr", SELF_, "m"), ("const", None)), ("call", ("global", "f"), (("param", "conf_frac"),), ()), ("attr", SELF_, "m"))
    ctx.selftest("C13.R7.carried", any(y == ("attr", SELF_, "m") for y in ir.walk(probe)) and any(y == ("param", "conf_frac") for y in ir.walk(probe)),
                 "memo of a value that depends on the training fraction")


def _caches(ctx):
    repo = ctx.repo
    n_checked = 0
    for modn, cn in (("elexmodel.models.NonparametricElectionModel", "NonparametricElectionModel"),
                     ("elexmodel.models.GaussianElectionModel", "GaussianElectionModel"),
                     ("elexmodel.models.BootstrapElectionModel", "BootstrapElectionModel")):
        cls = repo.cls(modn, cn)
        unit_fns = _closure(ctx, cls, "get_unit_prediction_intervals")
        agg_fns = _closure(ctx, cls, "get_aggregate_prediction_intervals")
        w = {}
        for g in unit_fns:
            for a, nodes in _attr_accesses(g)[1].items():
                w.setdefault(a, []).extend((g, n) for n in nodes)
        r = {}
        for g in agg_fns:
            for a, nodes in _attr_accesses(g)[0].items():
                r.setdefault(a, []).extend((g, n) for n in nodes)
        shared = sorted(set(w) & set(r))
        for a in shared:
            n_checked += 1
            for g, node in w[a]:
                keyed = isinstance(node, ast.Subscript) and isinstance(node.slice, ast.Name) and node.slice.id == "alpha" and "alpha" in g.params
                ctx.ob("C13.R2.keyed", f"{g.qualname}|self.{a} written per level", keyed, g.where(node),
                       f"self.{a} is stored under the interval level" if keyed
                       else f"self.{a} is written by the per-level unit step and read by the per-level aggregate step but is not keyed by "
                            f"the level: with several levels requested the aggregate step of every level sees the last level's value")
                if keyed:
                    st = util.enclosing_stmt(node)
                    val = st.value if isinstance(st, ast.Assign) else None
                    fresh = isinstance(val, ast.Call) and isinstance(val.func, ast.Attribute) and val.func.attr in ("copy", "deepcopy")
                    if not fresh and isinstance(val, (ast.BinOp, ast.Call, ast.UnaryOp)):
                        fresh = True
                    if not fresh and val is not None:
                        # alias: no later in-place change of the aliased object in this function
                        src = ast.unparse(val)
                        later = [x for x in util.own_nodes(g, ast.AugAssign) if x.lineno > st.lineno and ast.unparse(x.target).split("[")[0] == src.split("[")[0]]
                        later_alias = [x for x in util.own_nodes(g, ast.AugAssign) if x.lineno > st.lineno]
                        fresh = not later and not _aliases_mutated(g, val, st)
                    ctx.ob("C13.R2.copy", f"{g.qualname}|self.{a}[alpha] stores a copy", fresh, g.where(node),
                           "the stored value cannot be changed by the in-place arithmetic that follows" if fresh
                           else "the stored object is modified in place afterwards (same array): the cached unadjusted bounds are corrupted")
            for g, node in r[a]:
                par = getattr(node, "_parent", None)
                keyed = isinstance(par, ast.Subscript) and par.value is node and isinstance(par.slice, ast.Name) and par.slice.id == "alpha" and "alpha" in g.params
                ctx.ob("C13.R2.read", f"{g.qualname}|self.{a} read per level", keyed, g.where(node),
                       f"self.{a} is read back with the same level key" if keyed else f"self.{a} is read without the level key")
    ctx.sites("C13.R2", n_checked, 2, "model attributes carried from the unit to the aggregate interval step")
    # client: intervals of the same level are handed to the aggregate call
    ge = ctx.fn(CLIENT, "ModelClient.get_estimates")
    calls = [c for c in util.own_nodes(ge, ast.Call) if isinstance(c.func, ast.Attribute) and c.func.attr == "get_aggregate_prediction_intervals"]
    ctx.sites("C13.R2.client", len(calls), 1, "aggregate interval call in get_estimates")
    for c in calls:
        loop = c
        while loop is not None and not (isinstance(loop, ast.For) and isinstance(loop.target, ast.Name)):
            loop = getattr(loop, "_parent", None)
        lv = loop.target.id if loop is not None else None
        alpha_arg = c.args[4] if len(c.args) > 4 else None
        upi = c.args[5] if len(c.args) > 5 else None
        ok = (lv is not None and isinstance(alpha_arg, ast.Name) and alpha_arg.id == lv and isinstance(upi, ast.Subscript)
              and isinstance(upi.slice, ast.Name) and upi.slice.id == lv and ast.unparse(loop.iter) == "prediction_intervals")
        ctx.ob("C13.R2.client", f"{ge.qualname}|unit intervals of the same level", ok, ge.where(c),
               "the aggregate step of level a receives the unit intervals computed for level a, for every requested level" if ok
               else f"aggregate step called with level {ast.unparse(alpha_arg) if alpha_arg else '?'} and unit intervals "
                    f"{ast.unparse(upi) if upi else '?'}")
        res_key = None
        st = util.enclosing_stmt(c)
        if isinstance(st, ast.Assign) and isinstance(st.targets[0], ast.Subscript):
            res_key = ast.unparse(st.targets[0].slice)
        ctx.ob("C13.R2.client", f"{ge.qualname}|result stored under its level", res_key == lv, ge.where(c),
               "the result is stored under its own level" if res_key == lv else f"result stored under {res_key}")


def _split_request_independent(ctx):
    """R6: which units are fitted, predicted or passed through is decided once per run, for all estimands together; if that
    decision looked at the LIST of requested vote-count estimands, the numbers reported for one estimand would depend on which
    others were requested with it.  Every row predicate of the three frames of get_units is inspected for a dependence on
    self.estimands; the only admitted one is the switch `'margin' in self.estimands` (margin is the bootstrap's single estimand,
    never requested together with vote counts)."""
    from .. import rowsets as rs
    from ..unitsplit import UnitSplit
    us = UnitSplit(ctx)
    SELF_ = ("param", "self")
    EST = ("attr", SELF_, "estimands")
    bools, rels = rs.variables(us.fR, us.fN, us.fU)
    bad = []
    for name in bools:
        t = us.rs.atom_terms.get(name)
        if t is not None and any(x == EST for x in ir.walk(t)):
            bad.append(str(name))
        if isinstance(name, str) and name.startswith("flag:") and "estimands" in name and "'margin' in" not in name:
            bad.append(name)
    for key in rels:
        if "estimands" in str(key):
            bad.append(str(key))
    ctx.ob("C13.R6.split", f"{us.f.qualname}|unit split does not depend on the list of requested estimands", not bad, us.f.where(),
           f"none of the {len(bools) + len(rels)} row predicates of the three frames reads self.estimands (except the margin switch)" if not bad
           else f"a row predicate of the unit split depends on the requested estimands: {bad[0][:160]}: a unit is then modelled or passed "
                f"through for EVERY estimand according to what else was requested")


def _late_binding(ctx):
    """R5: no closure that reads a loop variable (estimand, level, aggregate ..) is stored beyond its iteration anywhere in the
    package: such a closure computes with the LAST value of the variable, i.e. with another request's parameter."""
    n = 0
    for f in ctx.repo.all_functions():
        if f.parent is not None:
            continue
        for clo, var, loop in util.late_binding_closures(f.node):
            n += 1
            ctx.ob("C13.R5.late-binding", util.key(f, clo), False, f.where(clo),
                   f"a closure stored inside the iteration over '{var}' reads '{var}' only when it is called, after the iteration: with several "
                   f"requested values every stored closure uses the last one")
    if n == 0:
        ctx.ob("C13.R5.late-binding", "package|no closure outlives its loop variable", True, "src/elexmodel",
               "no lambda / local function reading a loop variable is stored beyond its iteration")


def _estimand_scope(ctx):
    """R2.scope: model state written by one per-estimand step and read by a later one is keyed (at most) by the level, never by
    the estimand.  That is sound only while the client consumes it inside the SAME iteration of the estimand loop that produced
    it: writer and reader call sit in one `for <estimand>` body (the loop variable is what both pass as `estimand`), writer first."""
    repo = ctx.repo
    ge = ctx.fn(CLIENT, "ModelClient.get_estimates")
    sites = {}
    for c in util.own_nodes(ge, ast.Call):
        if isinstance(c.func, ast.Attribute) and c.func.attr in LOOP_STEPS and ast.unparse(c.func.value) == "self.model":
            sites.setdefault(c.func.attr, []).append(c)
    classes = [repo.cls(m, c) for m, c in (("elexmodel.models.NonparametricElectionModel", "NonparametricElectionModel"),
                                           ("elexmodel.models.GaussianElectionModel", "GaussianElectionModel"),
                                           ("elexmodel.models.BootstrapElectionModel", "BootstrapElectionModel"))]

    def est_arg(call, step):
        """the expression the call passes as `estimand`"""
        for cls in classes:
            m = cls.lookup(step)
            if m is not None and "estimand" in m.params:
                i = m.params.index("estimand") - 1
                if i < len(call.args):
                    return call.args[i]
                for k in call.keywords:
                    if k.arg == "estimand":
                        return k.value
        return None

    def loops_of(n):
        out = []
        while n is not None:
            if isinstance(n, ast.For):
                out.append(n)
            n = getattr(n, "_parent", None)
        return out

    npairs = 0
    for wi, wstep in enumerate(LOOP_STEPS):
        for rstep in LOOP_STEPS[wi + 1:]:
            carried = {}
            for cls in classes:
                wr = {}
                for g in _closure(ctx, cls, wstep):
                    for a, nodes in _attr_accesses(g)[1].items():
                        # a write whose key mentions the estimand is estimand-scoped by itself
                        if all(isinstance(n, ast.Subscript) and any(isinstance(x, ast.Name) and x.id == "estimand" for x in ast.walk(n.slice)) for n in nodes):
                            continue
                        wr[a] = True
                rd = set()
                for g in _closure(ctx, cls, rstep):
                    rd |= set(_attr_accesses(g)[0])
                for a in sorted(set(wr) & rd):
                    carried.setdefault(cls.name, []).append(a)
            if not carried or wstep not in sites or rstep not in sites:
                continue
            for rc in sites[rstep]:
                npairs += 1
                ra = est_arg(rc, rstep)
                ok, why = False, "no producing call found"
                for wc in sites[wstep]:
                    wa = est_arg(wc, wstep)
                    common = [l for l in loops_of(rc) if l in loops_of(wc)]
                    inner = next((l for l in common if isinstance(l.target, ast.Name) and isinstance(ra, ast.Name) and isinstance(wa, ast.Name)
                                  and l.target.id == ra.id == wa.id), None)
                    if inner is None:
                        why = (f"{wstep} (line {wc.lineno}) and {rstep} (line {rc.lineno}) do not run in the same iteration of the estimand loop")
                        continue
                    # producer first: the statement of the loop body holding the producer precedes the one holding the consumer
                    # (nested level loops over the same list run the same number of times; matched levels are R2.client)
                    def top_index(n):
                        while getattr(n, "_parent", None) is not inner:
                            n = n._parent
                        return inner.body.index(n) if n in inner.body else None
                    wi_, ri_ = top_index(wc), top_index(rc)
                    if wi_ is None or ri_ is None or not wi_ <= ri_ or (wi_ == ri_ and not (wc.lineno, wc.col_offset) < (rc.lineno, rc.col_offset)):
                        why = f"{wstep} does not run before {rstep} within the iteration"
                        continue
                    ok = True
                    break
                ex = "; ".join(f"{k}: {', '.join(v[:4])}{' ..' if len(v) > 4 else ''}" for k, v in carried.items())
                ctx.ob("C13.R2.scope", f"{ge.qualname}|{wstep} -> {rstep} in one estimand iteration", ok, ge.where(rc),
                       f"state carried on the model object ({ex}) is produced and consumed within one iteration of the estimand loop" if ok
                       else f"{why}: state carried on the model object without an estimand key ({ex}) then belongs to another estimand")
    ctx.sites("C13.R2.scope", npairs, 3, "producer / consumer step pairs of get_estimates that share model state")


def _aliases_mutated(g, val, st):
    name = val.id if isinstance(val, ast.Name) else None
    if name is None and isinstance(val, ast.Attribute):
        # e.g. prediction_intervals.lower : aliases created from it later and mutated in place
        src = ast.unparse(val)
        for a in util.own_nodes(g, ast.Assign):
            if a.lineno > st.lineno and isinstance(a.targets[0], ast.Name) and ast.unparse(a.value) == src:
                nm = a.targets[0].id
                if any(isinstance(x.target, ast.Name) and x.target.id == nm for x in util.own_nodes(g, ast.AugAssign) if x.lineno > a.lineno):
                    return True
        return False
    return any(isinstance(x.target, ast.Name) and x.target.id == name and x.lineno > st.lineno for x in util.own_nodes(g, ast.AugAssign))


# ---------------------------------------------------------------------------------------------
def _generators(ctx):
    repo = ctx.repo
    cg = ctx.cg
    G = Guards(ctx)
    nsites = 0
    for modn, cn in (("elexmodel.models.NonparametricElectionModel", "NonparametricElectionModel"),
                     ("elexmodel.models.GaussianElectionModel", "GaussianElectionModel"),
                     ("elexmodel.models.BootstrapElectionModel", "BootstrapElectionModel")):
        cls = repo.cls(modn, cn)
        for step in LOOP_STEPS:
            m = cls.lookup(step)
            if m is None:
                continue
            # all call paths from the step to functions drawing from a persistent generator (an attribute)
            for g in cg.reachable([m]):
                for c in util.own_nodes(g, ast.Call):
                    fn = c.func
                    recv = fn.value if isinstance(fn, ast.Attribute) else None
                    # a draw from a persistent generator: a method of a generator-valued attribute / module constant, or any call
                    # that is handed such an object as random_state= / rng= / seed= (pandas sample, scipy bootstrap ..)
                    persistent = recv is not None and _is_generator_attr(repo, recv)
                    module_level = isinstance(recv, ast.Name) and recv.id in g.module.constants and _is_generator_ctor(g.module.constants[recv.id])
                    handed = any(k.arg in ("random_state", "rng", "seed") and _is_generator_attr(repo, k.value) for k in c.keywords)
                    if not (persistent or module_level or handed):
                        continue
                    nsites += 1
                    # run-once guard somewhere on every path step -> g
                    guarded = _run_once_guarded(ctx, G, cls, m, g)
                    ctx.ob("C13.R3.persistent", f"{cn}.{step}|{g.qualname}|{util.stmt_text(c, 60)}", guarded, g.where(c),
                           f"draw from the model's generator happens once per model (run-once guard), not per request" if guarded
                           else f"{step} (called once per estimand / level / aggregate) advances a persistent generator: the numbers drawn "
                                f"for one request depend on how many other requests were served before it")
    ctx.sites("C13.R3", nsites, 5, "draws from a persistent generator reachable from the per-request steps")
    # fresh generators inside loop steps: constructed from the seed in the same call (C12 checks the seed itself)
    for modn, qn in (("elexmodel.models.ConformalElectionModel", "ConformalElectionModel.get_unit_prediction_interval_bounds"),
                     ("elexmodel.utils.math_utils", "boot_sigma")):
        g = ctx.fn(modn, qn)
        fresh = []
        for c in util.own_nodes(g, ast.Call):
            rs = util.kwarg(c, "random_state") or util.kwarg(c, "rng")
            if rs is not None:
                ok = isinstance(rs, (ast.Attribute, ast.Name)) or (isinstance(rs, ast.Call) and (util.dotted(rs.func) or "").endswith("default_rng"))
                is_attr_gen = _is_generator_attr(repo, rs)
                fresh.append((c, ok and not is_attr_gen))
        ctx.sites(f"C13.R3.fresh.{g.name}", len(fresh), 1, f"seeded resampling in {qn}")
        for c, ok in fresh:
            ctx.ob("C13.R3.fresh", util.key(g, c), ok, g.where(c),
                   "the generator / random state is created from the seed inside the call: every request sees the same stream" if ok
                   else "resampling uses a generator object that outlives the call: results depend on the order of requests")


GENERATOR_CTORS = ("default_rng", "RandomState", "Generator", "Random", "SeedSequence")


def _is_generator_ctor(node):
    return isinstance(node, ast.Call) and (util.dotted(node.func) or "").split(".")[-1] in GENERATOR_CTORS


def _is_generator_attr(repo, node):
    """`self.<attr>` (or `<obj>.<attr>`) whose value anywhere in the package is a random generator object (decided by what is
    assigned to the attribute, not by its name): such an object keeps its position between calls."""
    if not (isinstance(node, ast.Attribute) and isinstance(node.value, ast.Name)):
        return False
    ws = util.attr_writes(repo, node.attr)
    return any(_is_generator_ctor(v) for _, _, v, _ in ws if v is not None)


def _run_once_guarded(ctx, G, cls, step, target):
    """every call path step -> target passes a call site guarded by `not self.<flag>` where <flag> is set True by the callee"""
    if step is target:
        return False
    paths = ctx.cg.paths(step, target, limit=100)
    if not paths:
        return False
    for p in paths:
        ok = False
        for f, call in p:
            if not isinstance(call, ast.Call):
                continue
            for e, pol in G.atoms(f, call):
                if isinstance(e, ast.Attribute) and isinstance(e.value, ast.Name) and e.value.id == "self" and not pol:
                    flag = e.attr
                    callees = [x for x in ctx.resolver.resolve_call(f, call, cls) if isinstance(x, FuncInfo)]
                    for cal in callees:
                        sets_true = any(isinstance(n, ast.Assign) and isinstance(n.targets[0], ast.Attribute) and n.targets[0].attr == flag
                                        and util.is_const(n.value, True) for n in util.own_nodes(cal))
                        if sets_true:
                            ok = True
        if not ok:
            return False
    return True


# ---------------------------------------------------------------------------------------------
def _request_deps(t, request_terms):
    deps = set()
    for x in ir.walk(t):
        for name, pred in request_terms.items():
            if pred(x):
                deps.add(name)
    return deps


def _column_writes(ctx):
    repo = ctx.repo
    b = ctx.builder()
    req = {
        "estimand": lambda x: x == ("param", "estimand"),
        "alpha": lambda x: x == ("param", "alpha") or (x[0] == "elem" and "prediction_interval" in ir.show(x[1], maxdepth=2)),
        "aggregate": lambda x: x == ("param", "aggregate"),
    }
    nw = 0
    # results handler: writes on self.reporting_units / nonreporting_units / unexpected_units
    for qn in ("add_unit_predictions", "add_unit_turnout_predictions", "add_unit_intervals", "add_agg_predictions"):
        f = ctx.fn(MR, f"ModelResultsHandler.{qn}")
        s = b.summarize(f)
        per_request_params = {("param", p) for p in f.params if p not in ("self",)}
        terms = list(s.attrs.values()) + [t for _, _, t, _ in s.assigns]
        seen = set()
        for top in terms:
            for t in ir.walk(top):
                if t[0] != "setitem" or t in seen:
                    continue
                seen.add(t)
                root = t[1]
                while root[0] in ("setitem", "loopin", "loopout", "phi"):
                    root = root[3] if root[0] in ("loopin", "loopout") else root[1]
                if not (root[0] == "attr" and root[1] == ("param", "self") and root[2].endswith("_units")) and root != ("param", "estimates_df"):
                    continue
                nw += 1
                key, val = t[2], t[3]
                kdeps = _request_deps(key, req)
                vdeps = _request_deps(val, req)
                # a value taken from a per-request argument (model output) depends on the estimand of this call
                if any(x in per_request_params and x[1] not in ("estimand",) for x in ir.walk(val)):
                    vdeps.add("estimand")
                cname = key[1] if key[0] == "const" else None
                if cname in FIXED_NAME_OK:
                    ctx.ob("C13.R4.name", f"{f.qualname}|{ir.show(key)}", True, f.where(), f"fixed column name allowed: {FIXED_NAME_OK[cname]}")
                    continue
                missing = sorted(vdeps - kdeps)
                ctx.ob("C13.R4.name", f"{f.qualname}|{ir.show(key)}", not missing, f.where(),
                       f"column {ir.show(key)} names every request parameter its value depends on ({sorted(vdeps) or 'none'})" if not missing
                       else f"column {ir.show(key)} is written in place on a shared frame with a value that depends on {missing} but the name "
                            f"does not contain it: another {missing[0]} requested in the same run overwrites it")
    ctx.sites("C13.R4", nw, 8, "in-place column writes of the results handler on shared frames")
    # model steps must not write request-dependent columns on the frames they are given
    mu = Mutation(ctx)
    for modn, cn in (("elexmodel.models.NonparametricElectionModel", "NonparametricElectionModel"),
                     ("elexmodel.models.GaussianElectionModel", "GaussianElectionModel"),
                     ("elexmodel.models.BootstrapElectionModel", "BootstrapElectionModel")):
        cls = repo.cls(modn, cn)
        for step in LOOP_STEPS:
            m = cls.lookup(step)
            if m is None:
                continue
            muts = mu.mutated(m)
            for p in ("reporting_units", "nonreporting_units", "unexpected_units"):
                for where, why, t in muts.get(p, []):
                    if t[0] != "setitem":
                        continue
                    vdeps = _request_deps(t[3], req)
                    kdeps = _request_deps(t[2], req)
                    missing = sorted(vdeps - kdeps)
                    ctx.ob("C13.R4.model", f"{cn}.{step}|{p}[{ir.show(t[2])}]", not missing, where,
                           f"{step} adds column {ir.show(t[2])} to the shared {p} frame; its value does not depend on the request" if not missing
                           else f"{step} writes {ir.show(t[2])} on the shared {p} frame with a value depending on {missing}: later requests see it")
