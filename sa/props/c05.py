"""C05 - with no covariates the model is uniform swing by the weighted median.

 R1 residuals_e = (results_e - last_e) / last_e on the modelled reporting units;
 R2 last_e = baseline (by pointer) + 1;
 R3 the median fit: tau = 0.5, y = residuals_e of the reporting frame, weights = last_e of the reporting frame, X = active
    features of the first n_train rows of the design matrix built from [reporting, nonreporting] with the intercept on
    (add_intercept is the constant True in every model class), through fit_model with weight normalisation;
 R4 prediction = round(maximum(p * last + last, N.results_e)) with p the fitted model applied to the nonreporting rows
    (design rows n_train .. n_train + n_test, holdout form);
 R5 constant folding of Featurizer.__init__ / prepare_data with no features and no fixed effects: the design has the single
    column 'intercept' for fit and holdout;
 R7 the settings container of the request (model_parameters, a mutable default) is not written to: the covariates of one request do not
    reach the next (restated from C12.R4);
 R6 the solver call of fit_model, bound against the INSTALLED solver's signature: taus = the caller's tau, weights = the caller's
    weights, lambda_ / fit_intercept = the model's own settings, and the intercept is not regularised (a penalised intercept of an
    intercept-only design is not the weighted median once lambda_ > 0).
Not decided: that an intercept-only tau = 0.5 quantile regression is the weighted median (solver semantics), uniqueness.
 R8 same-frames: the closed-form vector is published on the rows it was computed for (restated from C01.R2.binding).
"""
from __future__ import annotations

import ast

from .. import ir, symexpr, util
from ..constfold import Folder
from ..frames import Frames
from ..model import AnalysisError
from ..unitmodel import CM, E, NU, RU, col, floor_shape
from ..unitsplit import UnitSplit

SELF = ("param", "self")
EST = "elexmodel.handlers.data.Estimandizer"
FZ = "elexmodel.handlers.data.Featurizer"


def check(ctx):
    repo = ctx.repo
    ctx.explanation = (
        "The closed form ties together residualisation (get_units), the +1 baseline (Estimandizer), the median fit call, "
        "un-normalisation, floor and rounding (get_unit_predictions) and the featurizer with empty covariates. Each piece is read "
        "as a def-use term and compared with its specification (rational normal form / argument terms); the featurizer is "
        "constant-folded for features=[] and fixed_effects={}."
    )
    ctx.assumptions += ["an intercept-only quantile regression at tau = 0.5 with weights w returns the w-weighted median (elexsolver)",
                        "DataFrame column arithmetic is element-wise"]
    # ---- R0: no closure over the estimand loop variable outlives its iteration in the functions this property reads -------
    # (one positive example on every run: a dict comprehension of lambdas reading its variable)
    probe = ast.parse("def f(df, es):\n    return df.assign(**{f'r_{e}': lambda x: x[e] for e in es})\n")
    for pn in ast.walk(probe):
        for c_ in ast.iter_child_nodes(pn):
            c_._parent = pn
    ctx.selftest("C05.R0.late-binding", bool(util.late_binding_closures(probe.body[0])), "lambda stored in a dict comprehension reading its variable")
    hazards = []
    for modn, qn in (("elexmodel.handlers.data.CombinedData", "CombinedDataHandler.get_units"), (CM, "ConformalElectionModel.get_unit_predictions")):
        fn_ = ctx.fn(modn, qn)
        hazards += [(fn_, h) for h in util.late_binding_closures(fn_.node)]
    for fn_, (clo, var, loop) in hazards:
        ctx.ob("C05.R0.late-binding", util.key(fn_, clo), False, fn_.where(clo),
               f"a lambda stored inside the iteration over '{var}' reads '{var}' when it is called, i.e. after the iteration: every stored "
               f"lambda then sees the LAST value (all residual / prediction columns are computed for the last estimand)")
    if hazards:
        return
    ctx.ob("C05.R0.late-binding", "get_units, get_unit_predictions|no closure outlives its loop variable", True, "src/elexmodel",
           "no lambda / local function that reads a loop variable is stored beyond its iteration")
    # ---- R1 ---------------------------------------------------------------------------------------
    us = UnitSplit(ctx)
    F = Frames(us.b)
    name = ir.I(("fstr", (("const", "residuals_"), E)))
    # the loop variable of get_units is named by the code; unify by pattern
    R = us.R
    ctx.require(R[0] == "loopout", f"{us.f.where()}: residuals are not assigned in a loop over the estimands")
    elems = [x for x in ir.walk(R[4]) if x[0] == "elem" and x[2] == R[1]]  # the element of THIS loop
    ctx.require(elems and elems[0][1] == ("attr", SELF, "estimands"), f"{us.f.where()}: residual loop is not over self.estimands")
    EL = elems[0]
    body = R[4]
    val = None
    t = body
    while t[0] == "setitem":
        if ir.show(t[2]).startswith("f'residuals_"):
            val, tgt = t[3], t[1]
        t = t[1]
    ctx.require(val is not None, f"{us.f.where()}: residuals_e assignment not found")

    def leaf(x):
        if x[0] == "sub" and x[2][0] == "fstr" and x[2][1][-1] == EL:
            return "".join(p[1] for p in x[2][1] if p[0] == "const")
        return None

    got = symexpr.Normalizer(leaf=leaf).norm(val)
    want = symexpr.Normalizer().norm(symexpr.parse("(results_ - last_election_results_) / last_election_results_"))
    ctx.ob("C05.R1.residual", f"{us.f.qualname}|residuals_e", got == want, us.f.where(),
           "residuals_e = (results_e - last_election_results_e) / last_election_results_e" if got == want
           else f"residuals_e is {got.key()}, documented {want.key()}")
    frames_read = {x[1] for x in ir.walk(val) if x[0] == "sub" and x[2][0] == "fstr"}
    on_r = all(fr[0] in ("loopin", "setitem") for fr in frames_read)
    ctx.ob("C05.R1.rows", f"{us.f.qualname}|residuals computed on the reporting frame itself", on_r, us.f.where(),
           "both operands are columns of the modelled reporting frame" if on_r else "residual operands come from another frame")
    # ---- R2 ---------------------------------------------------------------------------------------
    b = ctx.builder()
    ab = ctx.fn(EST, "Estimandizer.add_estimand_baselines")
    abs_ = b.summarize(ab)
    terms = [t for _, n, t, _ in abs_.assigns if n == "data_df"]
    found = None
    for top in terms:
        for t in ir.walk(top):
            if t[0] == "setitem" and ir.show(t[2]).startswith("f'last_election_results_"):
                found = t
    ctx.require(found is not None, f"{ab.where()}: last_election_results_e assignment not found")
    v = found[3]
    # value = data_df[baseline_col].copy() + 1 with baseline_col = f"baseline_{pointer}"
    okv = False
    detail = f"last_election_results_e is {ir.show(v, maxdepth=4)}"
    if v[0] == "bin" and v[1] == "+" and ("const", 1) in (v[2], v[3]):
        o = v[2] if v[3] == ("const", 1) else v[3]
        while o[0] == "call" and o[1][0] == "attr" and o[1][2] == "copy":
            o = o[1][1]
        okv = o[0] == "sub" and ir.show(o[2], maxdepth=6).startswith("f'baseline_") or (o[0] == "sub" and ("BASELINE_PREFIX" in ir.show(o[2], maxdepth=6) or ir.show(o[2], maxdepth=6).startswith(("f'baseline_", "'baseline_"))))
        detail = "last_election_results_e = baseline column (by pointer) + 1" if okv else detail
    ctx.ob("C05.R2.baseline", f"{ab.qualname}|last_election_results_e = baseline + 1", okv, ab.where(), detail)
    # ---- R3 / R4 ---------------------------------------------------------------------------------------
    gp = ctx.fn(CM, "ConformalElectionModel.get_unit_predictions")
    gs = b.summarize(gp)
    fits = [t for pc, t, n in gs.effects if t[0] == "call" and t[1] == ("attr", SELF, "fit_model")]
    ctx.sites("C05.R3", len(fits), 1, "median fit in get_unit_predictions")
    a = fits[0][2]
    ctx.require(len(a) == 6, f"{gp.where()}: fit_model call shape")
    QR, X, y, tau, w, norm = a
    ctx.ob("C05.R3.tau", f"{gp.qualname}|median", tau == ("const", 0.5), gp.where(), "tau = 0.5" if tau == ("const", 0.5) else f"tau = {ir.show(tau)}")
    ctx.ob("C05.R3.y", f"{gp.qualname}|target = residuals of the reporting units", y == col(RU, "residuals_"), gp.where(),
           "y = reporting_units[residuals_e]" if y == col(RU, "residuals_") else f"y = {ir.show(y, maxdepth=3)}")
    ctx.ob("C05.R3.weights", f"{gp.qualname}|weights = baseline of the reporting units", w == col(RU, "last_election_results_"), gp.where(),
           "weights = reporting_units[last_election_results_e]" if w == col(RU, "last_election_results_") else f"weights = {ir.show(w, maxdepth=3)}")
    ctx.ob("C05.R3.normalize", f"{gp.qualname}|first attempt normalises weights", norm == ("const", True), gp.where(), f"normalize_weights = {ir.show(norm)}")
    NT = ir.nrows(RU)
    NTe = ir.nrows(NU)
    okX = (X[0] == "call" and X[1][0] == "attr" and X[1][2] == "filter_to_active_features" and X[2][0][0] == "sub"
           and X[2][0][2] == ("slice", ("const", None), NT, ("const", None)))
    XALL = X[2][0][1] if okX else None
    fz = X[1][1] if okX else None
    ctx.ob("C05.R3.X", f"{gp.qualname}|X = active features of the first n_train design rows", okX, gp.where(),
           "X = featurizer.filter_to_active_features(x_all[:n_train])" if okX else f"X = {ir.show(X, maxdepth=3)}")
    if okX:
        kw = dict(XALL[3])
        okd = (XALL[0] == "call" and XALL[1] == ("attr", fz, "prepare_data") and kw.get("add_intercept") == ("attr", SELF, "add_intercept")
               and kw.get("center_features") == ("const", True) and kw.get("scale_features") == ("const", False))
        au = XALL[2][0] if XALL[2] else None
        oko = au is not None and au[0] == "call" and ir.show(au[1]).endswith("concat") and au[2][0] == ("list", (RU, NU))
        ctx.ob("C05.R3.design", f"{gp.qualname}|design = prepare_data([reporting, nonreporting], intercept)", okd and oko, gp.where(),
               "design matrix built from reporting then nonreporting units, centred, unscaled, with the model's intercept setting" if okd and oko
               else f"design matrix is {ir.show(XALL, maxdepth=3)}")
        fzc = fz[0] == "call" and fz[2] == (("attr", SELF, "features"), ("attr", SELF, "fixed_effects"))
        ctx.ob("C05.R3.featurizer", f"{gp.qualname}|featurizer from the model's covariate settings", fzc, gp.where(),
               "Featurizer(self.features, self.fixed_effects)" if fzc else f"featurizer is {ir.show(fz, maxdepth=3)}")
    ai = util.const_attr(repo, "add_intercept")
    ctx.ob("C05.R3.intercept", "BaseElectionModel|add_intercept is the constant True", ai == ("const", True), "src/elexmodel/models",
           "every model class uses an intercept" if ai == ("const", True) else f"add_intercept is {ai}")
    ret = gs.ret()
    ctx.require(ret[0] == "tuple", f"{gp.where()}: return shape")
    g, okr, okf = floor_shape(ret[1][0])
    nl = col(NU, "last_election_results_")
    okp = False
    detail = f"prediction before the floor is {ir.show(g, maxdepth=4)}"
    pcand = [pp for a_, b_ in ir.comm(g, "+") if b_ == nl for pp, q_ in ir.comm(a_, "*") if q_ == nl]
    if pcand:
        p = pcand[0]
        while p[0] == "call" and p[1][0] == "attr" and p[1][2] == "flatten":
            p = p[1][1]
        hold = None
        if p[0] == "call" and p[1] == ("attr", QR, "predict") and p[2]:
            h = p[2][0]
            while h[0] == "attr" and h[2] == "values":
                h = h[1]
            if h[0] == "call" and h[1] == ("attr", fz, "generate_holdout_data") and h[2][0][0] == "sub" and h[2][0][1] == XALL:
                sl = h[2][0][2]
                hold = sl == ("slice", NT, ("bin", "+", NT, NTe), ("const", None)) or sl == ("slice", NT, ("const", None), ("const", None))
        okp = bool(hold)
        detail = ("prediction = fitted model(nonreporting design rows) * last + last" if okp
                  else "the factor applied to the baseline is not the fitted median model on the nonreporting rows of the same design matrix")
    ctx.ob("C05.R4.formula", f"{gp.qualname}|pred = p * last + last", okp, gp.where(), detail)
    ctx.ob("C05.R4.floor", f"{gp.qualname}|floored at the partial count and rounded", okf and okr, gp.where(),
           "then maximum(.., results_e) and round" if okf and okr else "prediction is not floored at the partial count / not rounded")
    # ---- R5 featurizer with no covariates ----------------------------------------------------------------
    fcls = repo.cls(FZ, "Featurizer")
    ini = fcls.lookup("__init__")
    pd_ = fcls.lookup("prepare_data")
    ib = ctx.builder()
    isum = ib.summarize(ini, {"features": ("list", ()), "fixed_effects": ("dict", ()), "states_for_separate_model": ("list", ())})
    fo = Folder(repo, ib)
    attrs0 = {}
    try:
        for k, t in isum.attrs.items():
            attrs0[k] = fo.ev(t)
    except AnalysisError as e:
        raise AnalysisError(f"{ini.where()}: constructor not foldable for empty covariates: {e}")
    pb = ctx.builder(inline=lambda c, call, callee: callee.name in ("_sort_features", "_expand_fixed_effects", "_get_categories_for_fe"))
    psum = pb.summarize(pd_, {"center_features": ("const", True), "scale_features": ("const", False), "add_intercept": ("const", True)}, self_cls=fcls)
    env = {("attr", SELF, k): v for k, v in attrs0.items()}
    fo2 = Folder(repo, pb, env)
    res = {}
    for k in ("complete_features", "active_features"):
        t = psum.attrs.get(k)
        ctx.require(t is not None, f"{pd_.where()}: self.{k} not assigned")
        try:
            res[k] = fo2.ev(t)
        except AnalysisError as e:
            res[k] = f"not foldable: {e}"
    ok = res == {"complete_features": ["intercept"], "active_features": ["intercept"]}
    ctx.ob("C05.R5.intercept-only", f"{pd_.qualname}|no covariates => single column 'intercept'", ok, pd_.where(),
           "with features=[] and fixed_effects={} the fit and holdout matrices have exactly the column 'intercept'" if ok
           else f"with no covariates the design columns are {res}")
    rt = psum.ret()
    okret = rt[0] == "sub" and rt[2] in (psum.attrs.get("complete_features"), ("attr", SELF, "complete_features"))
    ctx.ob("C05.R5.returns", f"{pd_.qualname}|prepare_data returns the complete feature columns", okret, pd_.where(),
           "prepare_data returns df[self.complete_features]" if okret else f"prepare_data returns {ir.show(rt, maxdepth=3)}")

    # ---- R7 "no covariates" is a fact about THIS request ------------------------------------------------------------
    # the closed form holds for a request without features / fixed effects; the covariate lists reach the model through the request's
    # settings, and a container of settings that outlives the call (the mutable default of model_parameters, written to) hands the
    # covariates of an earlier request to a later covariate-free one. Restated from C12.R4 (caller-owned arguments are not modified).
    n7 = ctx.borrow("C12", "C12.R4.caller-arg", "C05.R7.request-private",
                    "a covariate-free request would be fitted with the covariates an earlier request left in the shared settings",
                    key=lambda k: k.endswith("|model_parameters"))
    ctx.sites("C05.R7", n7, 1, "settings container of get_estimates, restated from C12.R4")
    # ---- R8 the closed-form vector is published on the rows it was computed for (restated from C01.R2) ----------------------
    n8 = ctx.borrow("C01", "C01.R2.binding", "C05.R8.same-frames", "the closed-form prediction of one unit would be published on the row of another")
    ctx.sites("C05.R8", n8, 2, "frame binding obligations restated from C01.R2")

    # ---- R6 the fit itself reaches the solver as it was asked for --------------------------------------------------
    # fit_model hands (X, y, tau, weights, lambda, intercept flag) to the third-party solver. Bound against the installed signature, the
    # quantile must be the caller's tau, the weights the caller's weights, fit_intercept the model's add_intercept, and the INTERCEPT MUST
    # NOT BE REGULARISED: with an intercept-only design and lambda_ > 0 a penalised intercept is pulled towards 0 and the common factor is
    # no longer 1 + weighted median.
    from .c20 import solver_fit_bindings
    calls, ff = solver_fit_bindings(ctx)
    ctx.sites("C05.R6", len(calls), 1, "solver.fit calls in fit_model")
    fs_ = ctx.builder().summarize(ff)
    for c_ in calls:
        bd = c_["bound"]
        # add_intercept is the constant True in every model class (R3), so the folded value True is the same thing
        want = {"taus": [("param", "tau")], "regularize_intercept": [("const", False)],
                "fit_intercept": [("attr", SELF, "add_intercept"), ("const", True)], "lambda_": [("attr", SELF, "lambda_")]}
        probs = list(c_["problems"])
        for k_, vs_ in want.items():
            if k_ in bd and bd[k_] not in vs_:
                probs.append(f"{k_} = {ir.show(bd[k_], maxdepth=3)} (expected {ir.show(vs_[0])})")
            elif k_ not in bd:
                probs.append(f"{k_} is not bound")
        wv = bd.get("weights")
        if wv is None or not any(x == ("param", "weights") for x in ir.walk(wv)):
            probs.append(f"weights = {ir.show(wv, maxdepth=3) if wv else 'missing'} (expected the caller's weights)")
        ctx.ob("C05.R6.solver-call", f"{ff.qualname}|{c_['kind']} fit: quantile, weights, intercept as requested, intercept not regularised",
               not probs, ff.where(c_["node"]),
               "bound against the installed solver signature: taus=tau, weights=weights, lambda_=self.lambda_, fit_intercept=self.add_intercept, "
               "regularize_intercept=False" if not probs else "; ".join(probs))
