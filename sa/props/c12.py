"""C12 - estimates are a deterministic function of the arguments.

 R1 RNG discipline: every randomness source reachable from the entry points takes its seed / generator from the model's
    seed setting (no global numpy / stdlib random state, no unseeded sample / bootstrap / default_rng / distribution.rvs, no clock
    or uuid);
 R2 get_estimates binds a freshly constructed model and results handler on every path before any use;
 R3 no order-sensitive consumption of an unordered set (hash-seed dependence) in reachable code;
 R7 summary-fresh: the table stored under final_results['nat_sum_data'] is built from the estimates of this summary call only (it does
    not read final_results), so several summaries after one run do not depend on each other;
 R8 repeatable entry point: nothing reachable from the national summary (callable any number of times on the model one run left on the
    client) draws from a generator stored on an object - its stream would be shared by all those calls;
 R6 cache round trip: what save_data writes to the local preprocessed file (read back as input by later runs) is restricted to the
    columns captured in load_data from the incoming frame, not this run's derived columns (F34);
 R4 caller-owned arguments of the entry points are not mutated in place (a second run with the same objects would
    otherwise see different arguments);
 R4.kept-reference: attributes that keep a caller's container by reference are never changed in place, directly or through a local alias;
 R5 nothing written during a run outlives the client: no function fills a class-level or module-level container, no memoising
    decorator on reachable code.
"""
from __future__ import annotations

import ast

from .. import util
from ..cfg import CFG
from ..model import AnalysisError, FuncInfo, attr_chain
from ..mutation import Mutation
from ..ir import walk as ir_walk

CLIENT = "elexmodel.client"
GEN_CTORS = {"numpy.random.default_rng", "numpy.random.RandomState", "numpy.random.Generator", "numpy.random.SeedSequence",
             "numpy.random.PCG64", "numpy.random.MT19937", "numpy.random.Philox", "numpy.random.SFC64", "random.Random"}
CLOCK = {"time.time", "time.time_ns", "time.perf_counter", "time.monotonic", "datetime.datetime.now", "datetime.datetime.utcnow",
         "datetime.datetime.today", "datetime.date.today", "uuid.uuid4", "uuid.uuid1", "os.urandom", "os.getpid",
         "secrets.token_hex", "secrets.token_bytes", "secrets.randbelow"}
SEEDED_KW = {"scipy.stats.bootstrap": ("rng", "random_state"), "scipy.stats.permutation_test": ("rng", "random_state"),
             "scipy.stats.monte_carlo_test": ("rng",)}


def _ext(repo, f, expr):
    r = repo.resolve_expr(f.module, expr)
    if r and r[0] == "ext":
        d = r[1]
        if d.startswith("np."):
            d = "numpy." + d[3:]
        return d
    return None


class Seeds:
    def __init__(self, ctx, reachable):
        self.ctx = ctx
        self.repo = ctx.repo
        self.reach = set(reachable)

    def derived(self, f, expr, depth=0, seen=frozenset()):
        """-> (True, why) if expr's value is determined by the seed setting, else (False, why)."""
        if expr is None:
            return False, "no seed / generator argument given (fresh OS entropy)"
        k = (f, ast.dump(expr))
        if depth > 10 or k in seen:
            return False, "cyclic / too deep"
        seen = seen | {k}
        if isinstance(expr, ast.Constant):
            if expr.value is None:
                return False, "seed is None (fresh OS entropy)"
            return False, f"literal {expr.value!r} instead of the seed setting"
        if isinstance(expr, ast.Attribute) and isinstance(expr.value, ast.Name) and expr.value.id == "self":
            ws = util.attr_writes(self.repo, expr.attr)
            if not ws:
                return False, f"self.{expr.attr} is never assigned"
            for wf, recv, val, st in ws:
                if val is None:
                    return False, f"self.{expr.attr} is updated in place at {wf.where(st)}"
                ok, why = self._seed_value(wf, val, depth + 1, seen)
                if not ok and isinstance(val, ast.Constant) and isinstance(val.value, int) and self._seed_absent(wf, st):
                    ok = True  # the fixed default, on the path where the settings have no seed: what .get("seed", <default>) does
                if not ok:
                    return False, f"self.{expr.attr} assigned at {wf.where(st)}: {why}"
            return True, f"self.{expr.attr} comes from the seed setting"
        if isinstance(expr, ast.Name):
            if expr.id in f.params + f.kwonly and not _rebinds(f, expr.id):
                callers = [(g, c) for g, c in self.ctx.cg.callers_of(f) if g in self.reach and isinstance(c, ast.Call)]
                if not callers:
                    return False, f"parameter {expr.id} of {f.qualname} has no analysable caller"
                for g, c in callers:
                    arg = _arg_for(f, c, expr.id)
                    if arg is None:
                        d = f.defaults().get(expr.id)
                        ok, why = self.derived(f, d, depth + 1, seen) if d is not None else (False, "missing argument")
                        if not ok:
                            return False, f"caller {g.where(c)} does not pass {expr.id} (default: {why})"
                    else:
                        ok, why = self.derived(g, arg, depth + 1, seen)
                        if not ok:
                            return False, f"caller {g.where(c)} passes {util.expr_text(arg, 40)}: {why}"
                return True, f"parameter {expr.id} is seed-derived at every call site"
            defs = _defs(f, expr.id)
            if not defs:
                return False, f"name {expr.id} has no local definition"
            for d in defs:
                ok, why = self._seed_value(f, d, depth + 1, seen)
                if not ok:
                    return False, f"{expr.id} = {util.expr_text(d, 50)}: {why}"
            return True, f"{expr.id} is seed-derived"
        if isinstance(expr, ast.BinOp):
            oks = [self.derived(f, e, depth + 1, seen) for e in (expr.left, expr.right)]
            consts = [isinstance(e, ast.Constant) and isinstance(e.value, int) for e in (expr.left, expr.right)]
            if any(o[0] for o in oks) and all(o[0] or c for o, c in zip(oks, consts)):
                return True, "arithmetic on the seed"
            return False, "expression is not a function of the seed only"
        if isinstance(expr, ast.Call):
            return self._seed_value(f, expr, depth, seen)
        return False, f"unrecognised seed expression {util.expr_text(expr, 50)}"

    def _seed_absent(self, f, st):
        """the statement only runs when the settings have no 'seed' entry (`if "seed" in settings: .. else: <here>`)"""
        from ..effects import Guards
        try:
            atoms = Guards(self.ctx).atoms(f, st)
        except AnalysisError:
            return False
        for e, pol in atoms:
            if isinstance(e, ast.Compare) and len(e.ops) == 1 and util.const(e.left) == "seed":
                if (isinstance(e.ops[0], ast.In) and not pol) or (isinstance(e.ops[0], ast.NotIn) and pol):
                    return True
        return False

    def _seed_value(self, f, val, depth, seen):
        """Value assigned to a seed / generator holder."""
        if isinstance(val, ast.Call):
            d = _ext(self.repo, f, val.func)
            if d in GEN_CTORS:
                a = val.args[0] if val.args else (util.kwarg(val, "seed") or util.kwarg(val, "x"))
                ok, why = self.derived(f, a, depth + 1, seen)
                return ok, (f"{d.split('.')[-1]}(seed-derived)" if ok else f"{d.split('.')[-1]}(...): {why}")
            # <settings>.get("seed", <const>)
            if isinstance(val.func, ast.Attribute) and val.func.attr == "get" and val.args and util.const(val.args[0]) == "seed":
                return True, "model_settings.get('seed', default)"
            # generator.spawn / integers drawn from a derived generator
            if isinstance(val.func, ast.Attribute) and val.func.attr in ("spawn", "integers", "bit_generator"):
                return self.derived(f, val.func.value, depth + 1, seen)
            return False, f"value {util.expr_text(val, 50)} is not the seed setting"
        if isinstance(val, ast.Subscript) and util.const(val.slice) == "seed":
            return True, "model_settings['seed']"
        return self.derived(f, val, depth + 1, seen)


def _defs(f, name):
    out = []
    for n in util.own_nodes(f):
        if isinstance(n, ast.Assign):
            for t in n.targets:
                if isinstance(t, ast.Name) and t.id == name:
                    out.append(n.value)
        elif isinstance(n, ast.AnnAssign) and isinstance(n.target, ast.Name) and n.target.id == name and n.value is not None:
            out.append(n.value)
    return out


def _rebinds(f, name):
    return bool(_defs(f, name))


def _arg_for(callee, call, pname):
    params = callee.params
    if callee.cls is not None and params and params[0] in ("self", "cls"):
        params = params[1:]
    for k in call.keywords:
        if k.arg == pname:
            return k.value
    if pname in params:
        i = params.index(pname)
        if i < len(call.args):
            return call.args[i]
    return None


ORDER_FREE_FUNCS = {"sorted", "len", "min", "max", "sum", "any", "all", "set", "frozenset", "bool", "isinstance"}
ORDER_USERS = {"list", "tuple", "enumerate", "iter", "next", "zip", "map", "filter", "dict"}
SET_METHODS = {"difference", "union", "intersection", "symmetric_difference", "copy"}
SET_QUERIES = {"issubset", "issuperset", "isdisjoint", "add", "update", "discard", "remove", "difference_update",
               "intersection_update", "__contains__"}

def _label_only_selector(f, uses):
    """Structural allowance (replaces a name-keyed allow-list): an ordered copy of a set may be used as a *column selector*
    when (a) every order-sensitive use is the whole key of `A[L]` / `B[L]` inside one assignment `A[L] = <expr over B[L]>`
    whose right-hand side reduces B[L] column-wise (label-aligned), and (b) the assigned frame A is afterwards only ever
    addressed by label (`A[key]`, `A[key] = ..`), never positionally or as a whole.  Then only A's column *order* depends
    on the set order, and no consumer can observe column order.  Returns a reason string or None."""
    subs = [u for u, why in uses if isinstance(u, ast.Subscript)]
    if len(subs) != len(uses) or not subs:
        return None
    stmts = {id(util.enclosing_stmt(u)): util.enclosing_stmt(u) for u in subs}
    if len(stmts) != 1:
        return None
    st = next(iter(stmts.values()))
    if not (isinstance(st, ast.Assign) and len(st.targets) == 1 and isinstance(st.targets[0], ast.Subscript)
            and st.targets[0] in subs and isinstance(st.targets[0].value, ast.Name)):
        return None
    sel = ast.dump(st.targets[0].slice)
    if any(ast.dump(u.slice) != sel for u in subs):
        return None
    rhs_subs = [u for u in subs if u is not st.targets[0]]
    # right-hand side: B[L].<column-wise reducer>() -> label-indexed result, aligned by label on assignment
    for u in rhs_subs:
        par = getattr(u, "_parent", None)
        call = getattr(par, "_parent", None)
        if not (isinstance(par, ast.Attribute) and par.attr in ("max", "min", "sum", "mean", "first", "last") and isinstance(call, ast.Call)
                and not call.args and call is st.value):
            return None
    frame = st.targets[0].value.id
    for nm in util.own_nodes(f, ast.Name):
        if nm.id != frame:
            continue
        par = getattr(nm, "_parent", None)
        if isinstance(nm.ctx, ast.Store) and isinstance(par, ast.Assign):
            continue
        if isinstance(par, ast.Subscript) and par.value is nm:
            continue
        if isinstance(par, ast.Attribute) and par.attr == "columns":
            g = getattr(par, "_parent", None)
            if isinstance(g, ast.Call) and isinstance(g.func, ast.Name) and g.func.id in ("set", "frozenset"):
                continue
        return None
    return ("used only as the same column selector on both sides of one label-aligned assignment; the assigned frame is "
            "afterwards addressed by label only, so its column order is never observed")


def _is_set_expr(n):
    if isinstance(n, (ast.Set, ast.SetComp)):
        return True
    if isinstance(n, ast.Call) and isinstance(n.func, ast.Name) and n.func.id in ("set", "frozenset"):
        return True
    if isinstance(n, ast.Call) and isinstance(n.func, ast.Attribute) and n.func.attr in SET_METHODS and _is_set_expr(n.func.value):
        return True
    if isinstance(n, ast.BinOp) and isinstance(n.op, (ast.BitAnd, ast.BitOr, ast.Sub, ast.BitXor)) and (
            _is_set_expr(n.left) or _is_set_expr(n.right)):
        return True
    return False


def _order_uses(f, node, out, via=None, depth=0):
    """Collect order-sensitive consumers of set-valued expression `node` into out [(consumer ast, description)]."""
    p = getattr(node, "_parent", None)
    if p is None or depth > 6:
        return
    if isinstance(p, ast.Call):
        if node in p.args or any(k.value is node for k in p.keywords):
            fn = p.func
            name = fn.id if isinstance(fn, ast.Name) else (fn.attr if isinstance(fn, ast.Attribute) else None)
            if name in ORDER_FREE_FUNCS:
                return
            ch = attr_chain(fn) or []
            if ch and ch[0] in ("LOG", "logging", "logger"):
                return
            if name and (name.endswith("Exception") or name.endswith("Error")):
                return
            if name in ("isin",):
                return
            if (name in ("str", "repr", "format") and isinstance(fn, ast.Name)) or (name == "format" and isinstance(fn, ast.Attribute)):
                # formatting a set: judge what the text is used for (an error / log message is harmless, a key or a column name is not)
                _order_uses(f, p, out, via, depth + 1)
                return
            if name in ("list", "tuple") and isinstance(fn, ast.Name):
                # list(set): an ordered copy in set order; judge the consumers of the copy
                _order_uses(f, p, out, via, depth + 1)
                return
            out.append((p, f"passed to {name or 'a call'}()"))
            return
        elif isinstance(p.func, ast.Attribute) and p.func.value is node:
            return  # handled at the Attribute level
    if isinstance(p, ast.Attribute) and p.value is node:
        if p.attr in SET_QUERIES:
            return
        if p.attr in SET_METHODS:
            call = getattr(p, "_parent", None)
            if isinstance(call, ast.Call):
                _order_uses(f, call, out, via, depth + 1)
            return
        out.append((p, f".{p.attr} on a set"))
        return
    if isinstance(p, ast.Compare):
        return
    if isinstance(p, ast.BinOp) and isinstance(p.op, (ast.BitAnd, ast.BitOr, ast.Sub, ast.BitXor)):
        _order_uses(f, p, out, via, depth + 1)
        return
    if isinstance(p, (ast.FormattedValue, ast.JoinedStr)) or (isinstance(p, ast.BinOp) and isinstance(p.op, (ast.Add, ast.Mod))):
        # text built from the set: judged by its consumers, like the set itself
        _order_uses(f, p, out, via, depth + 1)
        return
    if isinstance(p, (ast.For, ast.comprehension)) and p.iter is node:
        out.append((p, "iterated"))
        return
    if isinstance(p, ast.Starred):
        out.append((p, "unpacked"))
        return
    if isinstance(p, (ast.Assign, ast.AnnAssign)):
        tg = p.targets[0] if isinstance(p, ast.Assign) else p.target
        if isinstance(tg, ast.Name):
            for u in util.own_nodes(f, ast.Name):
                if u.id == tg.id and isinstance(u.ctx, ast.Load) and u.lineno >= p.lineno:
                    _order_uses(f, u, out, tg.id, depth + 1)
            return
        if isinstance(tg, ast.Attribute):
            # a set kept on an object: judge every read of that attribute in the repository (a membership test / .add() is order-free)
            if _REPO and isinstance(tg.value, ast.Name) and tg.value.id == "self" and depth <= 3:
                n0 = len(out)
                reads = 0
                for g_ in _REPO[0].all_functions():
                    for u in ast.walk(g_.node):
                        if isinstance(u, ast.Attribute) and u.attr == tg.attr and isinstance(u.ctx, ast.Load):
                            reads += 1
                            _order_uses(g_, u, out, tg.attr, depth + 2)
                if len(out) > n0:
                    out[n0:] = [(p, f"stored in attribute {ast.unparse(tg)}, whose reads are order-sensitive ({out[n0][1]})")]
                return
            out.append((p, f"stored in attribute {ast.unparse(tg)}"))
        return
    if isinstance(p, ast.Return):
        out.append((p, "returned"))
        return
    if isinstance(p, (ast.If, ast.While, ast.BoolOp, ast.UnaryOp, ast.Expr, ast.IfExp)):
        return
    if isinstance(p, ast.Subscript):
        out.append((p, "used as / in a subscript"))
        return
    if isinstance(p, (ast.List, ast.Tuple, ast.Dict)):
        _order_uses(f, p, out, via, depth + 1)
        return
    out.append((p, f"used in {type(p).__name__}"))


INPLACE_METHODS = {"append", "extend", "insert", "remove", "pop", "sort", "reverse", "clear", "update", "setdefault", "add", "discard", "popitem"}


def _kept_references(ctx, mu, ge, reach):
    """R4.kept-reference: an object built in get_estimates that keeps one of the caller's containers BY REFERENCE (self.x = x in its
    constructor, the argument coming from a parameter / keyword / mutable default of the entry point) must never mutate it in place - neither
    may anyone who reads the attribute (`alphas = handler.x; alphas += [..]` extends the caller's list, or the shared default list of the
    entry point itself, for every later run of the process)."""
    from .. import ir as _ir
    repo = ctx.repo
    gs = mu.summary(ge)
    owned = {"current_data", "preprocessed_data", "model_parameters", "prediction_intervals", "estimands", "kwargs"}
    kept = {}  # attribute name -> (class name, parameter of the entry point)
    seen = set()
    for top in [t for _, _, t, _ in gs.assigns] + [t for _, t, _ in gs.effects]:
        for x in _ir.walk(top):
            if x in seen or x[0] != "call" or x[1][0] != "global" or ":" not in x[1][1]:
                continue
            seen.add(x)
            modn, cn = x[1][1].split(":", 1)
            try:
                cls = repo.cls(modn, cn)
            except Exception:
                continue
            init = cls.lookup("__init__") if cls is not None else None
            if init is None:
                continue
            bind = _ir.bind_args(init, x[2], tuple(kv for kv in x[3] if kv[0] and not kv[0].startswith("#")), method=True) or {}
            isum = mu.summary(init)
            for q, arg in bind.items():
                rs = mu.roots(arg, ge) & owned
                if not rs and any(y[0] == "call" and y[1] == ("attr", ("param", "kwargs"), "get") for y in _ir.walk(arg)) and arg[0] in ("call", "phi", "ifexp"):
                    rs = {"kwargs"}
                if not rs:
                    continue
                for pc_, attr, val, node in isum.attr_writes:
                    if val == ("param", q):
                        kept[attr] = (cn, sorted(rs)[0])
    ctx.sites("C12.R4.kept-reference", len(kept), 2, "attributes that keep a caller's object by reference (results handler: aggregates, interval levels)")
    nbad = 0
    for f in reach:
        for n in util.own_nodes(f):
            tgt = None
            if isinstance(n, ast.AugAssign) and isinstance(n.op, ast.Add) and isinstance(n.value, (ast.List, ast.ListComp, ast.Tuple)):
                tgt, how = n.target, "+= <list> extends the list in place"
            elif isinstance(n, ast.Call) and isinstance(n.func, ast.Attribute) and n.func.attr in INPLACE_METHODS:
                tgt, how = n.func.value, f".{n.func.attr}() changes it in place"
            elif isinstance(n, (ast.Assign, ast.Delete)):
                for t_ in (n.targets if isinstance(n, (ast.Assign, ast.Delete)) else []):
                    if isinstance(t_, ast.Subscript):
                        tgt, how = t_.value, "item assignment changes it in place"
            if tgt is None:
                continue
            cands = [tgt]
            if isinstance(tgt, ast.Name):
                cands = [d for d in _defs(f, tgt.id)]  # (a parameter that is re-bound in the function counts with what it is re-bound to)
            for c in cands:
                if isinstance(c, ast.Attribute) and c.attr in kept and not (isinstance(c.value, ast.Name) and c.value.id != "self" and False):
                    cn, par = kept[c.attr]
                    # a frame attribute written column by column is the handler's own business only when the frame is the client's own
                    nbad += 1
                    ctx.ob("C12.R4.kept-reference", util.key(f, n), False, f.where(n),
                           f"{ast.unparse(tgt)[:50]}: {how}, and it is {cn}.{c.attr}, which keeps the object the caller passed as '{par}' (or the entry point's "
                           f"own mutable default) by reference: the next run with the same arguments does not see the same arguments")
    if not nbad:
        ctx.ob("C12.R4.kept-reference", f"{ge.qualname}|objects kept by reference are never changed in place", True, ge.where(),
               f"{len(kept)} attributes keep a caller's object by reference ({', '.join(sorted(kept))}); none is extended, updated or item-assigned anywhere")


def check(ctx):
    repo = ctx.repo
    cg = ctx.cg
    ctx.explanation = (
        "Who-may-call / provenance analysis over the resolved call graph: every randomness source in the functions reachable "
        "from get_estimates and get_national_summary_votes_estimates is found and its seed or generator traced back "
        "(locals, attributes, parameters through all reachable call sites) to the model's seed setting; freshness of the "
        "model/results handler is a CFG dominance query; set-order uses are classified by consumer; in-place mutation of "
        "caller-owned arguments is a fixpoint over per-function alias summaries built from the def-use IR."
    )
    ctx.assumptions += [
        "third-party solvers (cvxpy, numpy.linalg) are deterministic for equal inputs",
        "pandas / numpy operations other than the listed randomness sources are deterministic",
        "aliasing of caller frames through object attributes (self.x = arg, mutated later by another method) is not tracked",
    ]
    ge = ctx.fn(CLIENT, "ModelClient.get_estimates")
    ns = ctx.fn(CLIENT, "ModelClient.get_national_summary_votes_estimates")
    reach = cg.reachable([ge, ns])
    ctx.count("reachable_functions", len(reach))
    for must in ("BootstrapElectionModel.compute_bootstrap_errors", "ConformalElectionModel.get_unit_prediction_interval_bounds",
                 "GaussianModel._fit", "boot_sigma", "BootstrapElectionModel.cv_lambda"):
        ctx.require(any(f.qualname == must for f in reach), f"C12: {must} not reachable from get_estimates in the call graph "
                                                            f"(resolution lost)")
    seeds = Seeds(ctx, reach)
    _REPO[:] = [repo]

    # ---- R1 ------------------------------------------------------------------------------
    nsrc = 0
    for f in reach:
        for c in util.own_nodes(f, ast.Call):
            d = _ext(repo, f, c.func)
            name = c.func.attr if isinstance(c.func, ast.Attribute) else None
            where = f.where(c)
            key = util.key(f, c)
            if d and d.startswith("numpy.random.") and d not in GEN_CTORS:
                nsrc += 1
                ctx.ob("C12.R1.global", key, False, where, f"{d} uses numpy's global random state (not derived from the seed setting)")
            elif d and (d.startswith("random.") and d not in GEN_CTORS):
                nsrc += 1
                ctx.ob("C12.R1.global", key, False, where, f"{d} uses the stdlib global random state")
            elif d in CLOCK:
                nsrc += 1
                ctx.ob("C12.R1.clock", key, False, where, f"{d} makes the run depend on the clock / process")
            elif d in GEN_CTORS:
                nsrc += 1
                a = c.args[0] if c.args else (util.kwarg(c, "seed") or util.kwarg(c, "x"))
                ok, why = seeds.derived(f, a)
                ctx.ob("C12.R1.seed", key, ok, where, f"{d.split('.')[-1]} seeded from the seed setting ({why})" if ok
                       else f"{d.split('.')[-1]} is not seeded from the seed setting: {why}")
            elif d in SEEDED_KW:
                nsrc += 1
                kws = [util.kwarg(c, k) for k in SEEDED_KW[d]]
                kw = next((k for k in kws if k is not None), None)
                ok, why = seeds.derived(f, kw)
                ctx.ob("C12.R1.seed", key, ok, where, f"{d} draws from a seed-derived generator ({why})" if ok
                       else f"{d} resamples without a generator derived from the seed setting: {why}")
            elif name == "sample" and (any(k.arg in ("frac", "n", "random_state", "weights", "replace") for k in c.keywords)
                                       or not c.args):
                nsrc += 1
                ok, why = seeds.derived(f, util.kwarg(c, "random_state"))
                ctx.ob("C12.R1.seed", key, ok, where, f"DataFrame.sample(random_state=<seed setting>) ({why})" if ok
                       else f"DataFrame.sample is not seeded from the seed setting: {why}")
            elif name == "rvs" and isinstance(c.func, ast.Attribute):
                # scipy.stats distributions (frozen or not): .rvs() draws from numpy's GLOBAL state unless random_state= is given
                nsrc += 1
                ok, why = seeds.derived(f, util.kwarg(c, "random_state"))
                ctx.ob("C12.R1.seed", key, ok, where, f"distribution.rvs(random_state=<seed-derived>) ({why})" if ok
                       else f"{ast.unparse(c.func)[:80]}() draws from numpy's global random state unless random_state= is derived from the "
                            f"seed setting: {why}")
            elif name in ("shuffle", "choice", "uniform", "normal", "multivariate_normal", "integers", "permutation",
                          "standard_normal", "random", "permuted", "binomial", "poisson", "exponential", "beta", "gamma",
                          "dirichlet", "multinomial", "bytes", "rand", "randn", "randint") and isinstance(c.func, ast.Attribute) \
                    and d is None and _looks_like_rng(f, c.func.value):
                nsrc += 1
                ok, why = seeds.derived(f, c.func.value)
                ctx.ob("C12.R1.draw", key, ok, where, f"draw from the model's seeded generator ({why})" if ok
                       else f"draw from a generator that is not derived from the seed setting: {why}")
    ctx.sites("C12.R1", nsrc, 7, "randomness sources reachable from the entry points (sample, default_rng, 5 generator draws, bootstrap)")

    # ---- R8: the summary entry point can be called any number of times on the model one run left on the client -------------
    # a draw from a generator that lives on that model (seeded or not) advances a stream shared by all those calls: the n-th summary
    # would depend on how many came before it. get_estimates is safe by R2 (fresh model per call, whose stream starts at the seed).
    DRAWS = ("shuffle", "choice", "uniform", "normal", "multivariate_normal", "integers", "permutation", "standard_normal", "random",
             "permuted", "binomial", "poisson", "exponential", "beta", "gamma", "dirichlet", "multinomial", "bytes", "rand", "randn", "randint")
    reach_ns = cg.reachable([ns])
    ndr, nfun = 0, 0
    for f in reach_ns:
        if f is ns or f.module.name == CLIENT:
            continue
        nfun += 1
        for c in util.own_nodes(f, ast.Call):
            name = c.func.attr if isinstance(c.func, ast.Attribute) else None
            if name in DRAWS and isinstance(c.func, ast.Attribute) and _ext(repo, f, c.func) is None and _looks_like_rng(f, c.func.value) \
                    and isinstance(c.func.value, ast.Attribute):
                ndr += 1
                ctx.ob("C12.R8.repeatable", util.key(f, c), False, f.where(c),
                       f"{ast.unparse(c.func)[:60]}() draws from a generator kept on the model inside a function the national summary calls: the "
                       "stream is shared by every summary requested after one run, so the n-th summary depends on the n-1 before it")
    ctx.require(nfun >= 2, "C12.R8: the functions reachable from get_national_summary_votes_estimates were not resolved")
    if not ndr:
        ctx.ob("C12.R8.repeatable", f"{ns.qualname}|no draw from a persistent generator below the summary entry point", True, ns.where(),
               f"{nfun} functions reachable from the national summary (outside the client) draw nothing from a generator stored on an object")

    # ---- R2 ------------------------------------------------------------------------------
    cfg = CFG(ge.node)
    for attr, classes in (("model", ("NonparametricElectionModel", "GaussianElectionModel", "BootstrapElectionModel")),
                          ("results_handler", ("ModelResultsHandler",))):
        writes, reads = [], []
        for n in util.own_nodes(ge, ast.Attribute):
            if n.attr == attr and isinstance(n.value, ast.Name) and n.value.id == "self":
                (writes if isinstance(n.ctx, ast.Store) else reads).append(n)
        # `self.<attr> = None` drops the object of an earlier run (F26): no state can leak through it, and it does not count as
        # the construction a later use needs either
        def _drops(w):
            st = util.enclosing_stmt(w)
            return isinstance(st, ast.Assign) and util.is_const(st.value, None)

        writes = [w for w in writes if not _drops(w)]
        ctx.sites(f"C12.R2.{attr}", len(writes), len(classes), f"assignments self.{attr} = <constructor> in get_estimates")
        wnodes = set()
        fresh_ok = True
        built = set()
        for w in writes:
            st = util.enclosing_stmt(w)
            val = st.value if isinstance(st, ast.Assign) else None
            if isinstance(val, ast.Name):
                # the object is built into a local first and published on the client afterwards (F36): judge the local's only definition
                ds = _defs(ge, val.id)
                val = ds[0] if len(ds) == 1 else None
            r = repo.resolve_expr(ge.module, val.func) if isinstance(val, ast.Call) else None
            if r and r[0] == "class":
                built.add(r[1].name)
                wnodes.add(cfg.node_of(w))
            else:
                fresh_ok = False
                ctx.ob("C12.R2.fresh", util.key(ge, w), False, ge.where(w),
                       f"self.{attr} is bound to something other than a freshly constructed object")
        # the pi_method chain is exhaustive (validated by _check_input_parameters): drop the all-false edge
        pruned_pred = None
        if attr == "model":
            chain_tests = [cfg.by_ast[n] for n in util.own_nodes(ge, ast.If)
                           if isinstance(n.test, ast.Compare) and "pi_method" in util.names_in(n.test)]
            consts = {util.const(n.ast.test.comparators[0]) if util.const(n.ast.test.comparators[0]) is not None else util.const(n.ast.test.left)
                      for n in chain_tests}
            validated = _validated_pi_methods(ctx)
            ctx.ob("C12.R2.exhaustive", f"{ge.qualname}|pi_method dispatch", consts == validated and len(consts) == 3, ge.where(),
                   f"dispatch covers exactly the validated methods {sorted(validated)}" if consts == validated
                   else f"dispatch handles {sorted(map(str, consts))} but validation admits {sorted(validated)}: a stale model could be reused")
            last = max(chain_tests, key=lambda n: n.lineno) if chain_tests else None
            pruned_pred = lambda a, lab, last=last: not (a is last and lab and lab[0] == "cond" and lab[2] is False)  # noqa: E731
        for r in reads:
            rn = cfg.node_of(r)
            # reachable from entry without passing a write?
            seen, stack, bad = set(), [cfg.entry], False
            while stack:
                n = stack.pop()
                if n is rn:
                    bad = True
                    break
                for s2, lab in cfg.succ[n]:
                    if s2 in seen or s2 in wnodes:
                        continue
                    if pruned_pred is not None and not pruned_pred(n, lab):
                        continue
                    seen.add(s2)
                    stack.append(s2)
            ctx.ob("C12.R2.before-use", util.key(ge, r), not bad and fresh_ok, ge.where(r),
                   f"use of self.{attr} is preceded by a fresh construction on every path" if not bad
                   else f"self.{attr} can be used here without having been re-created in this call (state of an earlier run leaks)")
        ctx.ob("C12.R2.classes", f"{ge.qualname}|self.{attr} classes", built == set(classes), ge.where(),
               f"constructs {sorted(built)}")

    # ---- R3 ------------------------------------------------------------------------------
    nsets = 0
    for f in reach:
        for n in util.own_nodes(f):
            if not _is_set_expr(n):
                continue
            p = getattr(n, "_parent", None)
            if _is_set_expr(p) or (isinstance(p, ast.Attribute) and p.attr in SET_METHODS):
                continue  # judged at the outermost set expression
            nsets += 1
            uses = []
            _order_uses(f, n, uses)
            allow = _label_only_selector(f, uses) if uses else None
            if uses and allow:
                ctx.ob("C12.R3.set-order", util.key(f, n), True, f.where(n), f"order-sensitive use allowed: {allow}")
            elif uses:
                u = uses[0]
                ctx.ob("C12.R3.set-order", util.key(f, n), False, f.where(n),
                       f"iteration order of an unordered set reaches data ({u[1]} at line {getattr(u[0], 'lineno', '?')}): "
                       f"the result can depend on PYTHONHASHSEED")
            else:
                ctx.ob("C12.R3.set-order", util.key(f, n), True, f.where(n), "set used only through order-free operations")
    ctx.sites("C12.R3", nsets, 5, "set-valued expressions in reachable code")
    probe = ast.parse("def f(a):\n    x = list(set(a))\n    return x\n")
    for pn in ast.walk(probe):
        for c in ast.iter_child_nodes(pn):
            c._parent = pn
    from ..model import FuncInfo as _FI
    pf = _FI(ge.module, None, probe.body[0])
    pu = []
    for n in ast.walk(probe):
        if _is_set_expr(n):
            _order_uses(pf, n, pu)
    ctx.selftest("C12.R3.set-order", bool(pu), "list(set(a)) returned must be flagged")

    # ---- R5 process-wide state ---------------------------------------------------------------
    # "in the same process, on a fresh client, before or after other runs": nothing a run writes may outlive the client. Class-level
    # or module-level containers that a method / function fills (caches, registries) and memoising decorators survive the run.
    MUTATORS = {"append", "extend", "add", "update", "setdefault", "pop", "popitem", "clear", "insert", "remove", "discard", "appendleft"}

    def _mutable_literal(v):
        if isinstance(v, (ast.Dict, ast.List, ast.Set, ast.ListComp, ast.DictComp, ast.SetComp)):
            return True
        if isinstance(v, ast.Call):
            nm = v.func.id if isinstance(v.func, ast.Name) else (v.func.attr if isinstance(v.func, ast.Attribute) else None)
            return nm in ("dict", "list", "set", "defaultdict", "OrderedDict", "deque", "Counter")
        return False

    shared = []  # (kind, owner name, attr / global name, module)
    for m in repo.modules.values():
        for st in m.tree.body:
            if isinstance(st, ast.Assign) and _mutable_literal(st.value):
                for t in st.targets:
                    if isinstance(t, ast.Name):
                        shared.append(("module", m.name, t.id, m))
            if isinstance(st, ast.ClassDef):
                for cst in st.body:
                    if isinstance(cst, ast.Assign) and _mutable_literal(cst.value):
                        for t in cst.targets:
                            if isinstance(t, ast.Name):
                                shared.append(("class", st.name, t.id, m))
    ctx.count("C12.R5.containers_at_module_or_class_level", len(shared))
    nbad = 0
    for f in repo.all_functions():
        for n in util.own_nodes(f):
            tgt = None
            if isinstance(n, ast.Subscript) and isinstance(n.ctx, (ast.Store, ast.Del)):
                tgt = n.value
            elif isinstance(n, ast.Call) and isinstance(n.func, ast.Attribute) and n.func.attr in MUTATORS:
                tgt = n.func.value
            elif isinstance(n, ast.AugAssign):
                tgt = n.target
            if tgt is None:
                continue
            hit = None
            for kind, owner, name, m in shared:
                if kind == "module" and isinstance(tgt, ast.Name) and tgt.id == name and name not in f.params \
                        and not any(isinstance(a, ast.Name) and isinstance(a.ctx, ast.Store) and a.id == name for a in util.own_nodes(f, ast.Name)):
                    # the module's own container, or the same object imported by name into another module
                    r_ = repo.resolve_name(f.module, name) if m is not f.module else None
                    if m is f.module or (r_ and r_[0] == "const" and r_[1] is m and r_[2] == name):
                        hit = f"module-level container {owner}.{name}"
                if kind == "class" and isinstance(tgt, ast.Attribute) and tgt.attr == name and isinstance(tgt.value, ast.Name) \
                        and tgt.value.id in ("self", "cls", owner):
                    rebound = [1 for wf, recv, val, st_ in util.attr_writes(repo, name) if isinstance(recv, ast.Name) and recv.id == "self"]
                    if not rebound:  # `self.x = ..` somewhere would give every instance its own object
                        hit = f"class-level container {owner}.{name}"
            if hit:
                nbad += 1
                ctx.ob("C12.R5.process-state", util.key(f, n), False, f.where(n),
                       f"{hit} is filled at run time: what one run stores is seen by every later run in the process, on any client "
                       f"(a cache whose key misses one parameter returns another request's value)")
        for dec in getattr(f.node, "decorator_list", []):
            dn = (attr_chain(dec.func if isinstance(dec, ast.Call) else dec) or [""])[-1]
            if dn in ("lru_cache", "cache", "cached_property", "memoize") and f in reach:
                nbad += 1
                ctx.ob("C12.R5.process-state", f"{f.qualname}|@{dn}", False, f.where(),
                       f"@{dn} keeps results across runs in the process; a seeded or configuration-dependent computation must not be memoised")
    if nbad == 0:
        ctx.ob("C12.R5.process-state", "package|no run-time writes to class / module level containers", True, "src/elexmodel",
               f"{len(shared)} containers exist at module / class level (constants); no function writes into any of them, no memoising decorator")
    # built-in positive example
    probe5 = ast.parse("class K:\n    _c = {}\n    def f(self, k):\n        self._c[k] = 1\n")
    okp5 = any(isinstance(x, ast.Subscript) and isinstance(x.ctx, ast.Store) and isinstance(x.value, ast.Attribute) and x.value.attr == "_c" for x in ast.walk(probe5))
    ctx.selftest("C12.R5.process-state", okp5, "class-level cache written through self")

    # ---- R4 ------------------------------------------------------------------------------
    mu = Mutation(ctx)
    for f, params in ((ge, ("current_data", "preprocessed_data", "model_parameters", "prediction_intervals", "estimands")),
                      (ns, ("nat_sum_data_dict", "alphas"))):
        m = mu.mutated(f)
        for p in params:
            ctx.require(p in f.params, f"{f.where()}: parameter {p} no longer exists")
            hits = m.get(p, [])
            ctx.ob("C12.R4.caller-arg", f"{f.qualname}|{p}", not hits, hits[0][0] if hits else f.where(),
                   f"argument {p} is never mutated in place" if not hits
                   else f"caller-owned argument '{p}' is modified in place: {hits[0][1]} - a second run given the same object "
                        f"sees different data")
    ctx.count("C12.R4.functions_summarised", len(mu._sum))
    _kept_references(ctx, mu, ge, reach)

    # ---- R7 the national summary table is built from this call alone ----------------------------------------
    # "The same holds for the national summary": one estimate run can be followed by several summary calls (other weights, base, levels).
    # The table a call returns must be a function of that call's estimates: the entry stored under 'nat_sum_data' must not be computed
    # from the entry a previous call left there (or from any other entry of final_results).
    MRm = "elexmodel.handlers.data.ModelResults"
    an = ctx.fn(MRm, "ModelResultsHandler.add_national_summary_estimates")
    ans = ctx.builder().summarize(an)
    stores = []
    for w in ans.attr_writes:
        for x in ir_walk(w[2]):
            if x[0] == "setitem" and x[2] == ("const", "nat_sum_data") and x not in stores:
                stores.append(x)
    ctx.sites("C12.R7", len(stores), 1, "store of final_results['nat_sum_data']")
    for x in stores:
        prior = [y for y in ir_walk(x[3]) if y == ("attr", ("param", "self"), "final_results")]
        ctx.ob("C12.R7.summary-fresh", f"{an.qualname}|the summary table does not depend on an earlier summary", not prior, an.where(),
               "the table stored under 'nat_sum_data' is built from this call's estimates only" if not prior else
               "the table stored under 'nat_sum_data' is computed from self.final_results (what an earlier call stored): a second summary with "
               "another base, other weights or other levels returns columns of the first one")

    # ---- R6 the local data file round-trips -----------------------------------------------------------
    # "before or after other runs with different arguments": the one piece of state that outlives a run on purpose is the local copy of
    # the preprocessed data, which PreprocessedDataHandler.get_data reads back as INPUT when no data is passed. If a run writes its
    # working frame there, the columns it derived for ITS estimands (baseline_margin, baseline_normalized_margin, last_election_results_*)
    # become input columns of later runs with other estimands (the outlier model picks its regressors by column presence). So what
    # save_data writes has to be restricted to the columns that were loaded - captured before anything is derived.
    from .. import ir as _ir
    PD = "elexmodel.handlers.data.PreprocessedData"
    sd = ctx.fn(PD, "PreprocessedDataHandler.save_data")
    ld = ctx.fn(PD, "PreprocessedDataHandler.load_data")
    bld = ctx.builder(inline=lambda *a_: False)
    sds, lds = bld.summarize(sd), bld.summarize(ld)
    SELF_ = ("param", "self")
    writes = [t for _, t, _ in sds.effects if t[0] == "call" and t[1][0] == "attr" and t[1][2] == "to_csv"]
    ctx.sites("C12.R6", len(writes), 1, "to_csv of the local preprocessed data file")
    captured = set()
    for w in lds.attr_writes:
        v = w[2]
        while v[0] == "call" and v[1] in (("global", "list"), ("global", "tuple"), ("global", "set")) and len(v[2]) == 1:
            v = v[2][0]
        if v[0] == "attr" and v[2] == "columns" and v[1][0] == "param" and v[1][1] != "self":
            captured.add(w[1])
    for w in writes:
        recv = w[1][1]
        sel = None
        if recv[0] == "sub":
            sel = {x[2] for x in _ir.walk(recv[2]) if x[0] == "attr" and x[1] == SELF_}
        ok = bool(sel) and bool(sel & captured)
        ctx.ob("C12.R6.cache-roundtrip", f"{sd.qualname}|the local file holds the columns that were loaded", ok, sd.where(),
               f"the frame written to the local data file is restricted to self.{sorted(sel & captured)[0]}, captured in load_data from the incoming "
               f"frame before any column is derived" if ok else
               "the working frame is written to the local data file as it is: the columns derived for this run's estimands come back as input "
               "columns of later runs (equal arguments, different tables once another run has saved its data)")


_REPO = []


def _looks_like_rng(f, recv):
    """receiver of a draw method is a random generator: decided by what is assigned to it (a generator constructor), with the
    name as a fallback for parameters"""
    if isinstance(recv, ast.Attribute) and isinstance(recv.value, ast.Name):
        ws = util.attr_writes(_REPO[0], recv.attr) if _REPO else []
        if any(isinstance(v, ast.Call) and (util.dotted(v.func) or "").split(".")[-1] in ("default_rng", "RandomState", "Generator", "Random")
               for _, _, v, _ in ws if v is not None):
            return True
    if isinstance(recv, ast.Name):
        for a in util.own_nodes(f, ast.Assign):
            if any(isinstance(t, ast.Name) and t.id == recv.id for t in a.targets) and isinstance(a.value, ast.Call) \
                    and (util.dotted(a.value.func) or "").split(".")[-1] in ("default_rng", "RandomState", "Generator", "Random"):
                return True
    s = ast.unparse(recv)
    return "rng" in s or "random_state" in s or "generator" in s.lower()


def _validated_pi_methods(ctx):
    f = ctx.fn(CLIENT, "ModelClient._check_input_parameters")
    for n in util.own_nodes(f, ast.Compare):
        if isinstance(n.left, ast.Name) and n.left.id == "pi_method" and isinstance(n.ops[0], ast.NotIn) and isinstance(n.comparators[0], ast.Set):
            par = getattr(n, "_parent", None)
            if isinstance(par, ast.If) and any(isinstance(x, ast.Raise) for x in par.body):
                return {util.const(e) for e in n.comparators[0].elts}
    raise AnalysisError(f"{f.where()}: validation 'pi_method not in {{..}}: raise' not found")
