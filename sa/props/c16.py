"""C16 - fitting and prediction design matrices are aligned and identifiable.

 R1 fit and holdout matrices are both df[self.active_features] (one list object decides columns and order); prepare_data returns
    df[self.complete_features]; both lists are ordered by the same _sort_features;
 R2 _sort_features: intercept first, baseline_normalized_margin* next, everything else after, stable (evaluated over the three
    classes of names the key distinguishes);
 R3 active levels = expanded levels with a positive sum on the fitting rows (reporting & unit_category == 'expected'); with an
    intercept the first active level of each fixed effect is dropped and recorded; expanded = all levels minus the dropped ones;
 R4 holdout rows having an unseen (expanded, not active) level of an effect get 1/(k+1) on the k active columns of that effect;
 R5 centring subtracts the mean over all rows passed in (no row filter);
 R6 levels not selected by the user are pooled into 'other' before the dummy expansion (skipped when 'all' is selected);
 R7 per-state feature copies only for states that have reporting rows;
 R11 a caller that fits on a subset of the reporting rows (interval regressions: the training rows) marks the remaining reporting
    rows as rows to predict on before the matrix is prepared, so the featurizer's fitting rows are the rows that are fit;
 R8 callers slice the prepared matrix with the same bounds as the frames it was built from (bootstrap model and strata; the
    conformal callers are decided in C04.R6 / C05.R3);
 R9 typestate: prepare_data is called exactly once per Featurizer object (it appends to the feature lists);
 R12 absorbed-has-intercept: rows whose intercept is set to 0 (the states listed for a separate model) get a constant column of
    their own in the same pass - otherwise the rows of a listed state that fall in the level dropped 'for the intercept' have
    neither intercept nor indicator (today nothing replaces it: open known finding K4).
Observation (no rule): _get_categories_for_fe tests startswith(fe) while the expansion uses startswith(fe + '_'); they differ only
if one fixed-effect name is a prefix of another.
"""
from __future__ import annotations

import ast

from .. import aggmodel as am, ir, util
from ..aggmodel import N_, R_, U_
from ..constfold import Folder
from ..model import AnalysisError

FZ = "elexmodel.handlers.data.Featurizer"
BM = "elexmodel.models.BootstrapElectionModel"
SELF = ("param", "self")


def _A(name):
    return ("attr", SELF, name)


def check(ctx):
    repo = ctx.repo
    ctx.explanation = (
        "The featurizer's bookkeeping (expanded vs active levels, dropped level, holdout shares, column order) is read from the "
        "def-use terms of its methods (helpers inlined) and matched clause by clause; the sort key is evaluated over the finite "
        "set of name classes it distinguishes (constant folding of the lambda); callers' slices are compared with the row order "
        "of the frames the matrix was built from; one prepare_data per featurizer object is a typestate count over object "
        "terms (construction sites)."
    )
    ctx.assumptions += ["pandas.get_dummies(columns=c, prefix=c, prefix_sep='_') names the level columns '<effect>_<level>'",
                        "sorted() is stable"]
    cls = repo.cls(FZ, "Featurizer")
    helpers = ("_expand_fixed_effects", "_get_categories_for_fe")
    b = ctx.builder(inline=lambda c, call, callee: callee.name in helpers)
    pd_ = ctx.fn(FZ, "Featurizer.prepare_data")
    s = b.summarize(pd_, {"add_intercept": ("const", True)}, self_cls=cls)

    # ---- R1 -------------------------------------------------------------------------------------------
    fa = ctx.fn(FZ, "Featurizer.filter_to_active_features")
    fas = ctx.builder().summarize(fa)
    ok1 = fas.ret() == ("sub", ("param", "df"), _A("active_features"))
    ctx.ob("C16.R1.fit", f"{fa.qualname}|fit matrix = df[self.active_features]", ok1, fa.where(),
           "filter_to_active_features returns df[self.active_features]" if ok1 else f"returns {ir.show(fas.ret(), maxdepth=3)}")
    gh = ctx.fn(FZ, "Featurizer.generate_holdout_data")
    ghs = ctx.builder(inline=lambda c, call, callee: callee.name in ("filter_to_active_features", "_get_categories_for_fe")).summarize(gh, self_cls=cls)
    hr = ghs.ret()
    ok2 = hr[0] == "sub" and hr[2] == _A("active_features")
    ctx.ob("C16.R1.holdout", f"{gh.qualname}|holdout matrix = df[self.active_features]", ok2, gh.where(),
           "generate_holdout_data returns the same columns in the same order as the fit matrix" if ok2 else f"returns {ir.show(hr, maxdepth=2)}")
    ret = s.ret()
    comp_attr = s.attrs.get("complete_features")
    act_attr = s.attrs.get("active_features")
    ok3 = ret[0] == "sub" and ret[2] == comp_attr
    ctx.ob("C16.R1.prepared", f"{pd_.qualname}|prepare_data returns df[self.complete_features]", ok3, pd_.where(),
           "the prepared matrix has the complete feature columns" if ok3 else f"returns columns {ir.show(ret[2], maxdepth=2) if ret[0] == 'sub' else ret[0]}")
    _is_sort = lambda f_: f_ == _A("_sort_features") or (f_[0] == "global" and f_[1].endswith(":_sort_features"))  # noqa: E731  (method or module function)
    sorted_both = all(t is not None and t[0] == "call" and _is_sort(t[1]) for t in (comp_attr, act_attr))
    ctx.ob("C16.R1.sorted", f"{pd_.qualname}|both lists ordered by _sort_features", sorted_both, pd_.where(),
           "complete and active feature lists are both passed through _sort_features" if sorted_both else "a feature list is not ordered by _sort_features")
    if sorted_both:
        ca, aa = comp_attr[2][0], act_attr[2][0]
        # same head ([intercept]) and same middle (features + state copies); tails = expanded / active fixed effects
        def parts(t):
            out = []
            def flat(x):
                if x[0] == "bin" and x[1] == "+":
                    flat(x[2]); flat(x[3])  # noqa: E702
                else:
                    out.append(x)
            flat(t)
            return out
        pc, pa = parts(ca), parts(aa)
        ok = len(pc) == len(pa) == 4 and pc[1:3] == pa[1:3] and pc[1] == _A("features")
        ctx.ob("C16.R1.same-features", f"{pd_.qualname}|continuous features identical in both lists", ok, pd_.where(),
               "both lists = [intercept] + features + per-state copies + (expanded | active) levels" if ok
               else f"complete list parts {[ir.show(x, maxdepth=2) for x in pc]}, active list parts {[ir.show(x, maxdepth=2) for x in pa]}")

    # ---- R2 -------------------------------------------------------------------------------------------
    sf = ctx.fn(FZ, "Featurizer._sort_features")
    sb = ctx.builder()
    ss = sb.summarize(sf)
    rt = ss.ret()
    inner = rt[2][0] if rt[0] == "call" and rt[1] == ("global", "list") else rt
    oks = inner[0] == "call" and inner[1] == ("global", "sorted") and inner[2] and inner[2][0] == ("param", "features") and dict(inner[3]).get("key", ("x",))[0] in ("lambda", "closure") \
        and dict(inner[3]).get("reverse", ("const", False)) == ("const", False)
    ctx.ob("C16.R2.sorted", f"{sf.qualname}|stable sort by a key", oks, sf.where(), "sorted(features, key=..)" if oks else f"_sort_features is {ir.show(rt, maxdepth=3)}")
    if oks:
        lam = dict(inner[3])["key"]
        fo = Folder(repo, sb)
        ranks = {}
        try:
            for name in ("intercept", "intercept_x", "baseline_normalized_margin", "baseline_normalized_margin_VA", "age", "zzz_intercept", "county_fips_baseline_normalized_margin"):
                ranks[name] = fo._apply(lam, name)
        except AnalysisError as e:
            raise AnalysisError(f"{sf.where()}: sort key not foldable: {e}")
        ok = (ranks["intercept"] == ranks["intercept_x"] < ranks["baseline_normalized_margin"] == ranks["baseline_normalized_margin_VA"]
              < ranks["age"] == ranks["zzz_intercept"] == ranks["county_fips_baseline_normalized_margin"])
        ctx.ob("C16.R2.order", f"{sf.qualname}|intercept < baseline_normalized_margin* < rest", ok, sf.where(),
               "key ranks: intercept* = 0, baseline_normalized_margin* = 1, everything else = 2 (by prefix)" if ok else f"key ranks {ranks}")

    # ---- R3 -------------------------------------------------------------------------------------------
    afe = s.attrs.get("active_fixed_effects")
    ic = s.attrs.get("intercept_column")
    efe = s.attrs.get("expanded_fixed_effects")
    ctx.require(afe is not None and ic is not None and efe is not None, f"{pd_.where()}: fixed-effect bookkeeping attributes not assigned")

    def with_fe(t):
        # phi(len(fixed_effect_cols) > 0 ? phi(True ? X : Y) : old)
        if t[0] == "phi" and "fixed_effect_cols" in ir.show(t[1]):
            # the branch with fixed effects: `len(cols) > 0` is written (len(cols) == 0) with the branches exchanged
            t = t[3] if t[1][0] == "cmp" and t[1][1] == "==" and t[1][3] == ("const", 0) else t[2]
        if t[0] == "phi" and t[1] == ("const", True):
            t = t[2]
        return t

    afe1, ic1, efe1 = with_fe(afe), with_fe(ic), with_fe(efe)
    ok_loops = afe1[0] == "loopout" and ic1[0] == "loopout" and afe1[3] == ("list", ()) and ic1[3] == ("list", ()) and afe1[5] == _A("fixed_effect_cols")
    ctx.ob("C16.R3.per-effect", f"{pd_.qualname}|one pass per fixed effect, starting from empty lists", ok_loops, pd_.where(),
           "active levels and dropped levels are rebuilt from empty lists, one fixed effect at a time" if ok_loops else "active / dropped level lists are not rebuilt per fixed effect")
    if ok_loops:
        ab, ib = afe1[4], ic1[4]
        def added(t_):
            """what one pass adds to the list: ('extend', y) for x.extend(y) / x += y / x = x + y;  ('append', v) for x.append(v) / x += [v]"""
            if t_[0] == "mut" and t_[2] in ("append", "extend") and len(t_[3]) == 1:
                return t_[2], t_[3][0]
            if t_[0] == "bin" and t_[1] == "+" and t_[2][0] == "loopin":
                y = t_[3]
                if y[0] == "list" and len(y[1]) == 1:
                    return "append", y[1][0]
                return "extend", y
            return None, None
        (kx, vx), (ki, vi) = added(ab), added(ib)
        okx = kx == "extend" and vx[0] == "sub" and vx[2] == ("slice", ("const", 1), ("const", None), ("const", None))
        oki = ki == "append" and vi[0] == "sub" and vi[2] == ("const", 0)
        same = okx and oki and vx[1] == vi[1]
        ctx.ob("C16.R3.drop-first", f"{pd_.qualname}|first active level of each effect absorbed by the intercept", same, pd_.where(),
               "for each effect: active += levels[1:], dropped += levels[0] of the same list of active levels" if same
               else "the level dropped for the intercept is not the first of the active levels of that effect (or the rest is not kept)")
        if same:
            FILTER = ab[3][0][1]
            okf = FILTER[0] == "comp" and len(FILTER[3]) == 1
            ALLACT = FILTER[3][0][1] if okf else None
            cond_ok = okf and len(FILTER[3][0][2]) == 1 and "startswith" in ir.show(FILTER[3][0][2][0], maxdepth=4)
            ctx.ob("C16.R3.by-effect", f"{pd_.qualname}|levels of an effect selected by its name prefix", cond_ok, pd_.where(),
                   "levels of effect fe = active level names starting with fe" if cond_ok else f"per-effect selection is {ir.show(FILTER, maxdepth=4)}")
            okact = False
            detail = f"active levels are {ir.show(ALLACT, maxdepth=4) if ALLACT else None}"
            if ALLACT is not None and ALLACT[0] == "sub" and ALLACT[1][0] == "call" and ir.show(ALLACT[1][1]).endswith("asarray"):
                ALLEXP = ALLACT[1][2][0]
                mask = ALLACT[2]
                if mask[0] == "cmp" and mask[1] == ">" and mask[3] == ("const", 0) and mask[2][0] == "call" and mask[2][1][0] == "attr" and mask[2][1][2] == "sum" \
                        and dict(mask[2][3]).get("axis") == ("const", 0) and mask[2][1][1][0] == "sub" and mask[2][1][1][2] == ALLEXP:
                    fit = mask[2][1][1][1]
                    if fit[0] == "sub" and fit[2][0] == "bin" and fit[2][1] == "&":
                        conds = {ir.show(fit[2][2], maxdepth=3)[-30:], ir.show(fit[2][3], maxdepth=3)[-30:]}
                        rep = any(ir.column_ref(x) is not None and ir.column_ref(x)[1] == "reporting" for x in (fit[2][2], fit[2][3]))
                        exp = any(x[0] == "cmp" and x[1] == "==" and ir.column_ref(x[2]) is not None and ir.column_ref(x[2])[1] == "unit_category" and x[3] == ("const", "expected") for x in (fit[2][2], fit[2][3]))
                        okact = rep and exp
                        detail = ("active = expanded levels with a positive column sum over rows with reporting & unit_category == 'expected'" if okact
                                  else f"fitting rows are selected by {ir.show(fit[2], maxdepth=4)}")
                # expanded names: columns starting with '<effect>_'
                def _prefix_test(c_, elem_):
                    """<column name>.startswith(tuple(f'{effect}_' for effect in self.fixed_effect_cols))  (the def-use engine writes
                    any(x.startswith(..) for ..) and `effect + "_"` the same way)"""
                    if not (c_[0] == "call" and c_[1] == ("attr", elem_, "startswith") and len(c_[2]) == 1):
                        return False
                    a_ = c_[2][0]
                    if a_[0] == "call" and a_[1] in (("global", "tuple"), ("global", "list")) and len(a_[2]) == 1:
                        a_ = a_[2][0]
                    if not (a_[0] == "comp" and len(a_[3]) == 1 and a_[3][0][1] == _A("fixed_effect_cols") and not a_[3][0][2]):
                        return False
                    return a_[2] == ("fstr", (("elem", _A("fixed_effect_cols"), a_[4]), ("const", "_")))
                okexp = ALLEXP[0] == "comp" and len(ALLEXP[3]) == 1 and len(ALLEXP[3][0][2]) == 1 and ALLEXP[2] == ("elem", ALLEXP[3][0][1], ALLEXP[4]) \
                    and _prefix_test(ALLEXP[3][0][2][0], ALLEXP[2]) and ir.show(ALLEXP[3][0][1], maxdepth=1).endswith(".columns")
                ctx.ob("C16.R3.expanded-names", f"{pd_.qualname}|expanded levels = dummy columns '<effect>_*'", okexp, pd_.where(),
                       "expanded levels are the columns named '<effect>_<level>'" if okexp else f"expanded levels are {ir.show(ALLEXP, maxdepth=4)}")
                okE = efe1[0] == "comp" and efe1[3][0][1] == ALLEXP and len(efe1[3][0][2]) == 1 and efe1[3][0][2][0][0] == "cmp" and efe1[3][0][2][0][1] == "not in" \
                    and efe1[3][0][2][0][3] == ic1
                ctx.ob("C16.R3.expanded", f"{pd_.qualname}|expanded = all levels minus the dropped ones", okE, pd_.where(),
                       "self.expanded_fixed_effects = [x for x in all levels if x not in dropped]" if okE else f"expanded list is {ir.show(efe1, maxdepth=4)}")
            ctx.ob("C16.R3.active", f"{pd_.qualname}|active levels = seen on the fitting rows", okact, pd_.where(), detail)

    # ---- R4 -------------------------------------------------------------------------------------------
    body = hr[1] if hr[0] == "sub" else hr
    ok4 = False
    detail = "holdout adjustment not recognised"
    if body[0] == "loopout" and body[5] == _A("fixed_effect_cols"):
        locs = [x for x in ir.walk(body[4]) if x[0] == "setitem" and x[2][0] == "tuple" and len(x[2][1]) == 2 and x[1][0] == "attr" and x[1][2] == "loc"]
        if locs:
            rows, cols_t = locs[0][2][1]
            val = locs[0][3]
            act = cols_t
            okval = val == ("bin", "/", ("const", 1), ("bin", "+", ("call", ("global", "len"), (act,), ()), ("const", 1)))
            okact = act[0] == "comp" and act[3][0][1] == _A("active_fixed_effects")
            okrows = (rows[0] == "cmp" and rows[1] == ">" and rows[3] == ("const", 0) and rows[2][0] == "call" and rows[2][1][2] == "sum"
                      and dict(rows[2][3]).get("axis") == ("const", 1))
            inact = rows[2][1][1][2] if okrows and rows[2][1][1][0] == "sub" else None
            okin = False
            if inact is not None and inact[0] == "comp":
                src = inact[3][0][1]
                okin = (src[0] == "comp" and src[3][0][1] == _A("expanded_fixed_effects") and len(src[3][0][2]) == 1
                        and src[3][0][2][0][0] == "cmp" and src[3][0][2][0][1] == "not in" and src[3][0][2][0][3] == _A("active_fixed_effects"))
            ok4 = okval and okact and okrows and okin
            detail = ("rows with an expanded-but-not-active level of effect fe get 1/(k+1) on the k active columns of fe" if ok4
                      else f"share={okval} ({ir.show(val, maxdepth=4)}), active columns of the effect={okact}, rows with an inactive level={okrows and okin}")
    ctx.ob("C16.R4.share", f"{gh.qualname}|unseen level => 1/(k+1) on each fitted level", ok4, gh.where(), detail)

    # ---- R5 -------------------------------------------------------------------------------------------
    ps2 = ctx.builder().summarize(pd_, {"center_features": ("const", True), "scale_features": ("const", False)}, self_cls=cls)
    cent = None
    for pc, name, t, n in ps2.assigns:
        if t[0] == "setitem" and t[2] == _A("features") and t[3][0] == "bin" and t[3][1] == "-":
            cent = t
    ok5 = False
    detail = "centring statement df[self.features] -= df[self.features].mean() not found"
    if cent is not None:
        a, m = cent[3][2], cent[3][3]
        ok5 = (a == ("sub", cent[1], _A("features")) and m[0] == "call" and m[1] == ("attr", a, "mean") and not m[2]
               and not any(x[0] == "sub" and x[2][0] in ("cmp", "bin") for x in ir.walk(cent[1]) if x[0] == "sub" and x[2][0] == "bin" and x[2][1] == "&"))
        detail = "features are centred by their mean over all rows passed in" if ok5 else f"centring is {ir.show(cent[3], maxdepth=4)}"
    ctx.ob("C16.R5.center", f"{pd_.qualname}|centre over all units", ok5, pd_.where(), detail)

    # ---- R6 -------------------------------------------------------------------------------------------
    ef = ctx.fn(FZ, "Featurizer._expand_fixed_effects")
    es = ctx.builder().summarize(ef)
    ok6 = False
    detail = "'other' pooling not found"
    for pc, name, t, n in es.assigns:
        if t[0] == "setitem" and t[3][0] == "call" and ir.show(t[3][1]).endswith("where") and len(t[3][2]) == 3:
            c, a, bb = t[3][2]
            guard = [(cc if pol else ("cmp", {"in": "not in", "not in": "in"}.get(cc[1], cc[1]), cc[2], cc[3])) for cc, pol in pc if cc[0] == "cmp"]
            fe_elem = t[2]
            ok6 = (a == ("const", "other") and bb == ("sub", t[1], fe_elem) and c[0] == "un" and c[1] == "~" and c[2][0] == "call" and c[2][1] == ("attr", ("sub", t[1], fe_elem), "isin")
                   and any(g[1] == "not in" and g[2] == ("const", "all") for g in guard))
            detail = ("levels outside the user's selection become 'other' (unless 'all' is selected)" if ok6 else f"pooling is {ir.show(t[3], maxdepth=4)} under {[ir.show(g, maxdepth=3) for g in guard]}")
    ctx.ob("C16.R6.other", f"{ef.qualname}|unselected levels pooled into 'other'", ok6, ef.where(), detail)
    gd = [x for t in [es.ret()] for x in ir.walk(t) if x[0] == "call" and ir.show(x[1]).endswith("get_dummies")]
    okg = bool(gd) and dict(gd[0][3]).get("columns") == _A("fixed_effect_cols") and dict(gd[0][3]).get("prefix") == _A("fixed_effect_cols") \
        and dict(gd[0][3]).get("prefix_sep", ("const", "_")) == ("const", "_")
    ctx.ob("C16.R6.dummies", f"{ef.qualname}|dummy columns named '<effect>_<level>'", okg, ef.where(),
           "get_dummies(columns=effects, prefix=effects, prefix_sep='_')" if okg else "dummy naming differs from what the level bookkeeping expects")

    # ---- R7 -------------------------------------------------------------------------------------------
    # every per-state feature copy `df[f"{feature}_{state}"] = ..` is written under `state in <postal codes of the rows with reporting == 1>`
    # (whether the loop skips the other states with a guard clause or wraps the copies in the conditional: the program model has one form)
    STATES = _A("states_for_separate_model")
    writes = []
    s_pd = ctx.builder().summarize(pd_, self_cls=cls)
    for pc, name, t, n in s_pd.assigns:
        # the state loop may run over the list itself or over something derived from it (a local that is the list or a replacement of
        # it): the copy is recognised by its name template <feature>_<element of something built from states_for_separate_model>
        if t[0] == "setitem" and t[2][0] == "fstr" and any(x[0] == "elem" and x[1] == _A("features") for x in t[2][1]) \
                and any(x[0] == "elem" and x[1] != _A("features") and any(y == STATES for y in ir.walk(x[1])) for x in t[2][1]):
            writes.append((pc, t, n))
    ctx.sites("C16.R7", len(writes), 1, "per-state feature copies in prepare_data")
    for pc, t, n in writes:
        st_elem = next(x for x in t[2][1] if x[0] == "elem" and x[1] != _A("features") and any(y == STATES for y in ir.walk(x[1])))
        ok7 = False
        for c, pol in pc:
            if c[0] == "cmp" and ((c[1] == "in" and pol) or (c[1] == "not in" and not pol)) and c[2] == st_elem:
                # the states that have a row with reporting == 1:  <frame>[isclose(<frame>.reporting, 1)].postal_code.unique()
                u_ = c[3]
                # .unique() / set(..) / list(..) / .tolist() / .values around the column do not change what is a member
                col_ = None
                while True:
                    if u_[0] == "call" and u_[1][0] == "attr" and u_[1][2] in ("unique", "tolist", "to_list", "drop_duplicates") and not u_[2]:
                        u_ = u_[1][1]
                    elif u_[0] == "call" and u_[1][0] == "global" and u_[1][1] in ("set", "list", "tuple", "frozenset", "numpy.unique", "pandas.unique") and len(u_[2]) == 1 and not u_[3]:
                        u_ = u_[2][0]
                    elif u_[0] == "attr" and u_[2] == "values":
                        u_ = u_[1]
                    else:
                        break
                    col_ = u_
                if col_ is not None:
                    pc_ = ir.column_ref(col_)
                    if pc_ is not None and pc_[1] == "postal_code" and pc_[0][0] == "sub":
                        m_ = pc_[0][2]
                        if m_[0] == "call" and ir.show(m_[1]).endswith("isclose") and len(m_[2]) == 2 and m_[2][1] == ("const", 1) \
                                and ir.column_ref(m_[2][0]) is not None and ir.column_ref(m_[2][0])[1] == "reporting":
                            ok7 = True
        ctx.ob("C16.R7.states", f"{pd_.qualname}|per-state copies only for states with reporting rows", ok7, pd_.where(n),
               "a state without reporting rows gets no copy (no all-zero feature column)" if ok7
               else f"the per-state copy is written under {[ir.show(c, maxdepth=4) + ('' if pol else ' [negated]') for c, pol in pc if not ir.show(c).startswith('<loop')]}")

    # ---- R8 bootstrap callers ---------------------------------------------------------------------------
    bcls = repo.cls(BM, "BootstrapElectionModel")
    cf = ctx.fn(BM, "BootstrapElectionModel.compute_bootstrap_errors")
    cs = ctx.builder().summarize(cf, self_cls=bcls)
    NT, NTe = ir.nrows(R_), ir.nrows(N_)
    fz = _A("featurizer")
    ok8 = False
    detail = "bootstrap design slices not recognised"
    cands = [t for pc, name, t, n in cs.assigns if t[0] == "call" and t[1] == ("attr", fz, "filter_to_active_features")]
    cands_h = [t for pc, name, t, n in cs.assigns if t[0] == "call" and t[1] == ("attr", fz, "generate_holdout_data")]
    if cands and cands_h:
        a, h = cands[0][2][0], cands_h[0][2][0]
        xa = a[1] if a[0] == "sub" else None
        okA = a[0] == "sub" and a[2] == ("slice", ("const", None), NT, ("const", None))
        okH = h[0] == "sub" and h[1] == xa and h[2] == ("slice", NT, ("bin", "+", NT, NTe), ("const", None))
        okP = xa is not None and xa[0] == "call" and xa[1] == ("attr", fz, "prepare_data") and am.concat_order(xa[2][0]) == [R_, N_, U_]
        ok8 = okA and okH and okP
        detail = ("train = x_all[:n_train], holdout = x_all[n_train:n_train+n_test] of prepare_data(concat([reporting, nonreporting, unexpected]))" if ok8
                  else f"train slice ok={okA}, holdout slice ok={okH}, matrix from [R, N, U] ok={okP}")
    ctx.ob("C16.R8.bootstrap", f"{cf.qualname}|design slices follow the concat order", ok8, cf.where(), detail)
    # arguments of the two primary fits: everything except the design matrix must come from the reporting frame
    ytr = []
    for _, _, t_, _ in cs.assigns + [(None, None, e_[1], None) for e_ in cs.effects]:
        for x in ir.walk(t_):
            if x[0] == "call" and x[1][0] == "attr" and x[1][2] == "fit" and dict(x[3]).get("lambda_") is not None and len(x[2]) >= 2 and x not in ytr:
                ytr.append(x)
    ytr = [a for x in ytr for a in list(x[2][1:]) + [dict(x[3]).get("weights")] if a is not None]
    oky = len(ytr) >= 4 and all(any(x == R_ for x in ir.walk(t)) and not any(x == N_ for x in ir.walk(t)) for t in ytr)
    ctx.ob("C16.R8.targets", f"{cf.qualname}|training targets and weights from the reporting frame", oky, cf.where(),
           "y, z and weights of the training rows are columns of the reporting frame (same row order as x_all[:n_train])" if oky else "training targets are not taken from the reporting frame")
    gs = ctx.fn(BM, "BootstrapElectionModel._get_strata")
    gss = ctx.builder().summarize(gs, self_cls=bcls)
    rt = gss.ret()
    okst = False
    if rt[0] == "tuple" and len(rt[1]) == 2:
        tr, te = rt[1]
        okst = (tr[0] == "sub" and te[0] == "sub" and tr[1] == te[1] and tr[2] == ("slice", ("const", None), NT, ("const", None))
                and te[2] == ("slice", NT, ("const", None), ("const", None)) and am.concat_order(tr[1][2][0]) == [R_, N_])
    ctx.ob("C16.R8.strata", f"{gs.qualname}|strata slices follow the concat order", okst, gs.where(),
           "train strata = all[:n_train], test strata = all[n_train:] of prepare_data(concat([reporting, nonreporting]))" if okst else f"strata slices are {ir.show(rt, maxdepth=4)[:200]}")

    # ---- R9 typestate -------------------------------------------------------------------------------------
    nobj = 0
    for f in repo.all_functions():
        if f.module.name.startswith("elexmodel.cli"):
            continue
        src = ast.unparse(f.node)
        if "Featurizer(" not in src:
            continue
        bb = ctx.builder()
        try:
            fs = bb.summarize(f)
        except AnalysisError:
            continue
        objs = {}
        for top in [t for _, _, t, _ in fs.assigns] + [t for _, t, _ in fs.effects] + [t for _, t, _ in fs.returns]:
            for x in ir.walk(top):
                if x[0] == "call" and x[1][0] == "global" and x[1][1].endswith(":Featurizer"):
                    objs.setdefault(x, set())
                if x[0] == "call" and x[1][0] == "attr" and x[1][2] == "prepare_data" and x[1][1][0] == "call" and x[1][1][1][0] == "global" \
                        and x[1][1][1][1].endswith(":Featurizer"):
                    loc = bb.loc.get(x)
                    objs.setdefault(x[1][1], set()).add(id(loc[1]) if loc else id(x))
        for o, calls in objs.items():
            if f.name == "__init__":
                continue
            nobj += 1
            ctx.ob("C16.R9.once", f"{f.qualname}|Featurizer#{dict(o[3]).get('#new', ('const', '?'))[1].split('#')[-1]} prepared once", len(calls) == 1, f.where(),
                   "prepare_data is called exactly once on this featurizer object" if len(calls) == 1
                   else f"prepare_data is called {len(calls)} times on one featurizer object: intercept and levels are appended again (duplicated columns)")
    ctx.sites("C16.R9", nobj, 4, "locally constructed featurizer objects")
    # the bootstrap model's own featurizer: prepared only inside compute_bootstrap_errors (run-once, C06.R4)
    users = [g for g in bcls.methods.values() if any(isinstance(c.func, ast.Attribute) and c.func.attr == "prepare_data" and ast.unparse(c.func.value) == "self.featurizer"
                                                     for c in util.own_nodes(g, ast.Call))]
    ctx.ob("C16.R9.model", "BootstrapElectionModel|self.featurizer prepared only by the run-once bootstrap", [g.name for g in users] == ["compute_bootstrap_errors"],
           cf.where(), f"self.featurizer.prepare_data is called in {[g.name for g in users]}")

    # ---- R11 fitting rows of the featurizer = rows that are fitted ------------------------------------------------
    # The featurizer decides which dummies are "active" on the rows it regards as fitting rows (reporting & expected, R3).  A caller
    # that fits on a SUBSET of the reporting rows (the conformal interval regressions: the first train_rows of the shuffled reporting
    # units, the rest calibrate) has to mark the other reporting rows as rows to predict on before the matrix is prepared -
    # otherwise a level seen only among the calibration rows gets a dummy that is constant 0 on the rows that are fit.
    from ..unitmodel import CM
    ccls = repo.cls(CM, "ConformalElectionModel")
    bf = ctx.fn(CM, "ConformalElectionModel.get_unit_prediction_interval_bounds")
    bs = ctx.builder().summarize(bf, self_cls=ccls)
    preps = []
    for t_ in [x for _, _, x, _ in bs.assigns] + [bs.ret()]:
        for x in ir.walk(t_):
            if x[0] == "call" and x[1][0] == "attr" and x[1][2] == "prepare_data" and x not in preps:
                preps.append(x)
    ctx.sites("C16.R11", len(preps), 1, "prepare_data call of the interval regressions")
    fits_ = [x for _, x, _ in bs.effects if x[0] == "call" and x[1] == _A("fit_model")]
    for x in preps:
        arg = x[2][0]
        # rows handed to fit_model: filter_to_active_features(x_all[:TR])
        trs = {f_[2][1][2][0][2][2] for f_ in fits_ if f_[2][1][0] == "call" and f_[2][1][2] and f_[2][1][2][0][0] == "sub" and f_[2][1][2][0][1] == x
               and f_[2][1][2][0][2][0] == "slice" and f_[2][1][2][0][2][1] == ("const", None)}
        ok9, detail = False, "fitted slice of the prepared matrix not recognised"
        if len(trs) == 1:
            TR = next(iter(trs))
            detail = ("the matrix is prepared from all reporting rows as fitting rows although only the first train_rows are fit: a level that "
                      "occurs only among the calibration rows gets a dummy that is constant on the fitted rows")
            if arg[0] == "setattr" and arg[2] == "iloc" and arg[3][0] == "setitem" and arg[3][2][0] == "tuple" and len(arg[3][2][1]) == 2:
                rows, colpos = arg[3][2][1]
                col_ok = colpos[0] == "call" and colpos[1][0] == "attr" and colpos[1][2] == "get_loc" and colpos[2] == (("const", "reporting"),)
                rows_ok = rows[0] == "slice" and rows[1] == TR and rows[2] == _A("n_train") and rows[3] == ("const", None)
                zero = arg[3][3] == ("const", 0)
                ok9 = col_ok and rows_ok and zero
                if ok9:
                    detail = "rows train_rows .. n_train (the calibration rows) are marked reporting = 0 before prepare_data: fitting rows = fitted rows"
                else:
                    detail = f"holdout mark is {ir.show(arg[3], maxdepth=4)[:160]}: not 'reporting := 0 on rows [train_rows : n_train]'"
        ctx.ob("C16.R11.fitting-rows", f"{bf.qualname}|featurizer fitting rows = the rows that are fit", ok9, bf.where(), detail)

    # ---- R12 a level absorbed by the intercept needs the intercept --------------------------------------------------
    # prepare_data zeroes the intercept on the rows of every state listed for a separate model.  "Exactly one observed level per fixed
    # effect absorbed by the intercept" (and every row having a constant term at all) then needs those rows to get a constant column of
    # their own: otherwise the rows of a listed state whose level is the dropped one (fixed effect postal_code with that state first;
    # the reference stratum of the strata matrix) are all zero - no intercept, no indicator.
    zs = []
    comp = []
    pdsum = ctx.builder().summarize(pd_, self_cls=cls)
    for _, _, t_, _ in pdsum.assigns:
        for x in ir.walk(t_):
            if x[0] != "setitem":
                continue
            k_, v_ = x[2], x[3]
            if k_[0] == "tuple" and len(k_[1]) == 2 and k_[1][1] == ("const", "intercept") and v_[0] == "const" and v_[1] != 1 and x not in zs:
                zs.append(x)
            elif k_[0] == "fstr" and any(p_[0] == "const" and isinstance(p_[1], str) and "intercept" in p_[1] for p_ in k_[1]) \
                    and any(p_[0] == "elem" for p_ in k_[1]) and x not in comp:
                comp.append(x)
    for z in zs:
        mask = z[2][1][0]
        elems = {e for e in ir.walk(mask) if e[0] == "elem"}
        paired = [c for c in comp if elems & {e for e in ir.walk(c[2]) if e[0] == "elem"}]
        ok12 = bool(paired)
        ctx.ob("C16.R12.absorbed-has-intercept", f"{pd_.qualname}|rows whose intercept is zeroed get a constant column of their own", ok12, pd_.where(),
               "the rows whose intercept is set to 0 receive a state-specific intercept column in the same pass" if ok12 else
               f"the intercept is set to 0 where {ir.show(mask, maxdepth=5)} and nothing replaces it: rows of a listed state that fall in the level "
               f"dropped 'for the intercept' (fixed_effects=['postal_code'] with that state first in order; the reference stratum of the strata "
               f"matrix) have neither intercept nor indicator")
    if not zs:
        ctx.ob("C16.R12.absorbed-has-intercept", f"{pd_.qualname}|the intercept is 1 on every row", True, pd_.where(),
               "the intercept column is not zeroed anywhere: every dropped level is absorbed by it")
