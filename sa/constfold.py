"""Constant folding of def-use terms over literal lists / dicts / strings (no execution of repo code).

Supports exactly the operations the configuration helpers use: dict lookup with defaultdict(list) semantics,
slices, list +, set(), list(), sorted(.., key=lambda x: CONST_LIST.index(x)), `in`, ==, len, string startswith,
or / and, ifexp / phi on decidable conditions. Anything else -> AnalysisError.
"""
from __future__ import annotations

from . import ir
from .model import AnalysisError


class Folder:
    def __init__(self, repo, builder, env=None, defaultdicts=()):
        self.repo = repo
        self.b = builder
        self.env = env or {}
        self.defaultdicts = set(defaultdicts)

    def ev(self, t):
        if t in self.env:
            return self.env[t]
        k = t[0]
        if k == "const":
            return t[1]
        if k == "global":
            if ":" in t[1]:
                mod, name = t[1].split(":")
                try:
                    return self.repo.const_value(mod, name)
                except AnalysisError:
                    pass
            raise AnalysisError(f"global {t[1]} is not a literal constant")
        if k in ("list", "tuple"):
            return [self.ev(x) for x in t[1]]
        if k == "set":
            return set(self.ev(x) for x in t[1])
        if k == "dict":
            return {self.ev(a): self.ev(b) for a, b in t[1]}
        if k == "sub":
            base = self.ev(t[1])
            idx = t[2]
            if idx[0] == "slice":
                lo, hi, st = (None if x == ("const", None) else self.ev(x) for x in idx[1:])
                return base[slice(lo, hi, st)]
            i = self.ev(idx)
            if isinstance(base, dict):
                if i in base:
                    return base[i]
                if t[1][0] == "global" and t[1][1] in self.defaultdicts:
                    return []
                raise AnalysisError(f"key {i!r} not in constant dict")
            return base[i]
        if k == "bin":
            a, b = self.ev(t[2]), self.ev(t[3])
            if t[1] == "+":
                return a + b
            if t[1] == "-":
                return a - b
            if t[1] == "&":
                return a & b
            if t[1] == "|":
                return a | b
        if k == "cmp":
            a, b = self.ev(t[2]), self.ev(t[3])
            return {"in": lambda: a in b, "not in": lambda: a not in b, "==": lambda: a == b, "!=": lambda: a != b,
                    "<": lambda: a < b, ">": lambda: a > b, "<=": lambda: a <= b, ">=": lambda: a >= b,
                    "is": lambda: a is b, "is not": lambda: a is not b}[t[1]]()
        if k == "bool":
            vals = [self.ev(x) for x in t[2]]
            if t[1] == "and":
                r = True
                for v in vals:
                    r = v
                    if not v:
                        break
                return r
            r = False
            for v in vals:
                r = v
                if v:
                    break
            return r
        if k == "un" and t[1] == "not":
            return not self.ev(t[2])
        if k in ("phi", "ifexp"):
            return self.ev(t[2]) if self.ev(t[1]) else self.ev(t[3])
        if k == "loopout":
            it = self.ev(t[5]) if len(t) > 5 else None
            if it is not None and len(it) == 0:
                return self.ev(t[3])  # loop over an empty collection: the initial value
            raise AnalysisError(f"loop over a non-empty collection is not constant-foldable: {ir.show(t, maxdepth=2)}")
        if k == "loopin":
            return self.ev(t[3])
        if k == "comp":
            return self._comp(t)
        if k == "attr" and t[2] in ("T",):
            return self.ev(t[1])
        if k == "call":
            f = t[1]
            if f[0] == "global" and f[1] in ("list", "set", "len", "sorted", "tuple"):
                arg = self.ev(t[2][0])
                if f[1] == "list":
                    return sorted(arg, key=repr) if isinstance(arg, set) else list(arg)
                if f[1] == "tuple":
                    return tuple(arg)
                if f[1] == "set":
                    return set(arg)
                if f[1] == "len":
                    return len(arg)
                if f[1] == "sorted":
                    key = dict(t[3]).get("key")
                    if key is None:
                        return sorted(arg)
                    if key[0] == "lambda":
                        kf = lambda x: self._apply(key, x)  # noqa: E731
                        return sorted(arg, key=kf)
                    raise AnalysisError("sorted key not a lambda")
            if f[0] == "global" and f[1] in ("any", "all", "next", "isinstance", "min", "max"):
                if f[1] == "isinstance":
                    v = self.ev(t[2][0])
                    ty = t[2][1]
                    names = {"list": list, "dict": dict, "str": str, "tuple": tuple, "set": set, "int": int, "float": float}
                    if ty[0] == "global" and ty[1] in names:
                        return isinstance(v, names[ty[1]])
                    raise AnalysisError("isinstance against a non-builtin type")
                arg = self.ev(t[2][0])
                if f[1] == "any":
                    return any(arg)
                if f[1] == "all":
                    return all(arg)
                if f[1] == "next":
                    arg = list(arg)
                    if arg:
                        return arg[0]
                    if len(t[2]) > 1:
                        return self.ev(t[2][1])
                    raise AnalysisError("next() on an empty iterator without default")
                return (min if f[1] == "min" else max)(arg)
            if f[0] == "attr" and f[2] in ("keys", "values", "items") and not t[2]:
                recv = self.ev(f[1])
                if isinstance(recv, dict):
                    return list(getattr(recv, f[2])())
            if f[0] == "attr" and f[2] in ("index", "startswith", "get", "endswith"):
                recv = self.ev(f[1])
                args = [self.ev(a) for a in t[2]]
                if f[2] == "get" and isinstance(recv, dict):
                    return recv.get(args[0], args[1] if len(args) > 1 else None)
                return getattr(recv, f[2])(*args)
        raise AnalysisError(f"not constant-foldable: {ir.show(t, maxdepth=3)}")

    def _apply(self, lam, x):
        body = self.b.lambda_apply(lam, [("const", x)])
        return self.ev(body)

    def _comp(self, t):
        kind, elt, gens, cid = t[1], t[2], t[3], t[4]
        out = []

        def rec(i, env):
            if i == len(gens):
                sub = Folder(self.repo, self.b, env, self.defaultdicts)
                out.append(sub.ev(elt))
                return
            var, it, conds = gens[i]
            sub = Folder(self.repo, self.b, env, self.defaultdicts)
            for x in sub.ev(it):
                e2 = dict(env)
                el = ir.I(("elem", it, cid))
                e2[el] = x
                # tuple targets: elem[i]
                if isinstance(x, (tuple, list)):
                    for j, xj in enumerate(x):
                        e2[ir.I(("sub", el, ("const", j)))] = xj
                s2 = Folder(self.repo, self.b, e2, self.defaultdicts)
                if all(s2.ev(c) for c in conds):
                    rec(i + 1, e2)

        rec(0, dict(self.env))
        if kind == "dict":
            return {a: b_ for a, b_ in out}
        if kind == "set":
            return set(out)
        return out
