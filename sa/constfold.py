"""Constant folding of def-use terms over literal lists / dicts / strings (no execution of repo code).

Supports exactly the operations the configuration helpers use: dict lookup with defaultdict(list) semantics,
slices, list +, set(), list(), sorted(.., key=lambda x: CONST_LIST.index(x)), `in`, ==, len, string startswith,
or / and, ifexp / phi on decidable conditions. Anything else -> AnalysisError.
"""
from __future__ import annotations

from . import ir
from .model import AnalysisError


class Folder:
    def __init__(self, repo, builder, env=None, defaultdicts=()):
        self.repo = repo
        self.b = builder
        self.env = env or {}
        self.defaultdicts = set(defaultdicts)

    def ev(self, t):
        if t in self.env:
            return self.env[t]
        k = t[0]
        if k == "const":
            return t[1]
        if k == "global":
            if ":" in t[1]:
                mod, name = t[1].split(":")
                try:
                    return self.repo.const_value(mod, name)
                except AnalysisError:
                    pass
            raise AnalysisError(f"global {t[1]} is not a literal constant")
        if k in ("list", "tuple"):
            return [self.ev(x) for x in t[1]]
        if k == "set":
            return set(self.ev(x) for x in t[1])
        if k == "dict":
            return {self.ev(a): self.ev(b) for a, b in t[1]}
        if k == "sub":
            base = self.ev(t[1])
            idx = t[2]
            if idx[0] == "slice":
                lo, hi, st = (None if x == ("const", None) else self.ev(x) for x in idx[1:])
                return base[slice(lo, hi, st)]
            i = self.ev(idx)
            if isinstance(base, dict):
                if i in base:
                    return base[i]
                if t[1][0] == "global" and t[1][1] in self.defaultdicts:
                    return []
                raise AnalysisError(f"key {i!r} not in constant dict")
            return base[i]
        if k == "bin":
            a, b = self.ev(t[2]), self.ev(t[3])
            if t[1] == "+":
                return a + b
            if t[1] == "-":
                return a - b
            if t[1] == "&":
                return a & b
            if t[1] == "|":
                return a | b
        if k == "cmp":
            a, b = self.ev(t[2]), self.ev(t[3])
            return {"in": lambda: a in b, "not in": lambda: a not in b, "==": lambda: a == b, "!=": lambda: a != b,
                    "<": lambda: a < b, ">": lambda: a > b, "<=": lambda: a <= b, ">=": lambda: a >= b,
                    "is": lambda: a is b, "is not": lambda: a is not b}[t[1]]()
        if k == "bool":
            vals = [self.ev(x) for x in t[2]]
            if t[1] == "and":
                r = True
                for v in vals:
                    r = v
                    if not v:
                        break
                return r
            r = False
            for v in vals:
                r = v
                if v:
                    break
            return r
        if k == "un" and t[1] == "not":
            return not self.ev(t[2])
        if k in ("phi", "ifexp"):
            return self.ev(t[2]) if self.ev(t[1]) else self.ev(t[3])
        if k == "call":
            f = t[1]
            if f[0] == "global" and f[1] in ("list", "set", "len", "sorted", "tuple"):
                arg = self.ev(t[2][0])
                if f[1] == "list":
                    return sorted(arg, key=repr) if isinstance(arg, set) else list(arg)
                if f[1] == "tuple":
                    return tuple(arg)
                if f[1] == "set":
                    return set(arg)
                if f[1] == "len":
                    return len(arg)
                if f[1] == "sorted":
                    key = dict(t[3]).get("key")
                    if key is None:
                        return sorted(arg)
                    if key[0] == "lambda":
                        kf = lambda x: self._apply(key, x)  # noqa: E731
                        return sorted(arg, key=kf)
                    raise AnalysisError("sorted key not a lambda")
            if f[0] == "attr" and f[2] in ("index", "startswith", "get", "endswith"):
                recv = self.ev(f[1])
                args = [self.ev(a) for a in t[2]]
                if f[2] == "get" and isinstance(recv, dict):
                    return recv.get(args[0], args[1] if len(args) > 1 else None)
                return getattr(recv, f[2])(*args)
        raise AnalysisError(f"not constant-foldable: {ir.show(t, maxdepth=3)}")

    def _apply(self, lam, x):
        body = self.b.lambda_apply(lam, [("const", x)])
        return self.ev(body)
