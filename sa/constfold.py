"""Constant folding of def-use terms over literal lists / dicts / strings (no execution of repo code).

Supports exactly the operations the configuration helpers use: dict lookup with defaultdict(list) semantics,
slices, list +, set(), list(), sorted(.., key=lambda x: CONST_LIST.index(x)), `in`, ==, len, string startswith,
or / and, ifexp / phi on decidable conditions. Anything else -> AnalysisError.
"""
from __future__ import annotations

from . import ir
from .model import AnalysisError


class Folder:
    def __init__(self, repo, builder, env=None, defaultdicts=()):
        self.repo = repo
        self.b = builder
        self.env = env or {}
        self.defaultdicts = set(defaultdicts)

    def ev(self, t):
        if t in self.env:
            return self.env[t]
        k = t[0]
        if k == "const":
            return t[1]
        if k == "global":
            if ":" in t[1]:
                mod, name = t[1].split(":")
                try:
                    return self.repo.const_value(mod, name)
                except AnalysisError:
                    pass
            raise AnalysisError(f"global {t[1]} is not a literal constant")
        if k in ("list", "tuple"):
            return [self.ev(x) for x in t[1]]
        if k == "set":
            return set(self.ev(x) for x in t[1])
        if k == "dict":
            return {self.ev(a): self.ev(b) for a, b in t[1]}
        if k == "sub":
            base = self.ev(t[1])
            idx = t[2]
            if idx[0] == "slice":
                lo, hi, st = (None if x == ("const", None) else self.ev(x) for x in idx[1:])
                return base[slice(lo, hi, st)]
            i = self.ev(idx)
            if isinstance(base, dict):
                if i in base:
                    return base[i]
                if t[1][0] == "global" and t[1][1] in self.defaultdicts:
                    return []
                raise AnalysisError(f"key {i!r} not in constant dict")
            return base[i]
        if k == "bin":
            a, b = self.ev(t[2]), self.ev(t[3])
            if t[1] == "+":
                return a + b
            if t[1] == "-":
                return a - b
            if t[1] == "&":
                return a & b
            if t[1] == "|":
                return a | b
        if k == "mut" and t[2] in ("append", "extend") and len(t[3]) == 1 and not t[4]:
            base = self.ev(t[1])  # x.append(v) / x.extend(y) build the same list as x + [v] / x + list(y)
            if isinstance(base, list):
                return base + ([self.ev(t[3][0])] if t[2] == "append" else list(self.ev(t[3][0])))
        if k == "cmp":
            a, b = self.ev(t[2]), self.ev(t[3])
            return {"in": lambda: a in b, "not in": lambda: a not in b, "==": lambda: a == b, "!=": lambda: a != b,
                    "<": lambda: a < b, ">": lambda: a > b, "<=": lambda: a <= b, ">=": lambda: a >= b,
                    "is": lambda: a is b, "is not": lambda: a is not b}[t[1]]()
        if k == "bool":
            vals = [self.ev(x) for x in t[2]]
            if t[1] == "and":
                r = True
                for v in vals:
                    r = v
                    if not v:
                        break
                return r
            r = False
            for v in vals:
                r = v
                if v:
                    break
            return r
        if k == "un" and t[1] == "not":
            return not self.ev(t[2])
        if k in ("phi", "ifexp"):
            return self.ev(t[2]) if self.ev(t[1]) else self.ev(t[3])
        if k == "loopout":
            it = self.ev(t[5]) if len(t) > 5 else None
            if it is not None and len(it) == 0:
                return self.ev(t[3])  # loop over an empty collection: the initial value
            raise AnalysisError(f"loop over a non-empty collection is not constant-foldable: {ir.show(t, maxdepth=2)}")
        if k == "loopin":
            return self.ev(t[3])
        if k == "comp":
            return self._comp(t)
        if k == "attr" and t[2] in ("T",):
            return self.ev(t[1])
        if k == "call":
            f = t[1]
            if f[0] == "global" and f[1] in ("list", "set", "len", "sorted", "tuple"):
                arg = self.ev(t[2][0])
                if f[1] == "list":
                    return sorted(arg, key=repr) if isinstance(arg, set) else list(arg)
                if f[1] == "tuple":
                    return tuple(arg)
                if f[1] == "set":
                    return set(arg)
                if f[1] == "len":
                    return len(arg)
                if f[1] == "sorted":
                    key = dict(t[3]).get("key")
                    if key is None:
                        return sorted(arg)
                    if key[0] in ("lambda", "closure"):
                        kf = lambda x: self._apply(key, x)  # noqa: E731
                        return sorted(arg, key=kf)
                    raise AnalysisError("sorted key not a lambda")
            if f[0] == "global" and f[1] in ("any", "all", "next", "isinstance", "min", "max"):
                if f[1] == "isinstance":
                    v = self.ev(t[2][0])
                    ty = t[2][1]
                    names = {"list": list, "dict": dict, "str": str, "tuple": tuple, "set": set, "int": int, "float": float}
                    if ty[0] == "global" and ty[1] in names:
                        return isinstance(v, names[ty[1]])
                    raise AnalysisError("isinstance against a non-builtin type")
                arg = self.ev(t[2][0])
                if f[1] == "any":
                    return any(arg)
                if f[1] == "all":
                    return all(arg)
                if f[1] == "next":
                    arg = list(arg)
                    if arg:
                        return arg[0]
                    if len(t[2]) > 1:
                        return self.ev(t[2][1])
                    raise AnalysisError("next() on an empty iterator without default")
                return (min if f[1] == "min" else max)(arg)
            if f[0] == "attr" and f[2] in ("keys", "values", "items") and not t[2]:
                recv = self.ev(f[1])
                if isinstance(recv, dict):
                    return list(getattr(recv, f[2])())
            if f[0] == "attr" and f[2] in ("index", "startswith", "get", "endswith"):
                recv = self.ev(f[1])
                args = [self.ev(a) for a in t[2]]
                if f[2] == "get" and isinstance(recv, dict):
                    return recv.get(args[0], args[1] if len(args) > 1 else None)
                return getattr(recv, f[2])(*args)
        raise AnalysisError(f"not constant-foldable: {ir.show(t, maxdepth=3)}")

    def _apply(self, lam, x):
        if lam[0] == "closure":
            fi, env, _ = self.b.closures[lam[1]]
            return _Interp(self, env).call(fi.node, [x])
        body = self.b.lambda_apply(lam, [("const", x)])
        return self.ev(body)

    def _comp(self, t):
        kind, elt, gens, cid = t[1], t[2], t[3], t[4]
        out = []

        def rec(i, env):
            if i == len(gens):
                sub = Folder(self.repo, self.b, env, self.defaultdicts)
                out.append(sub.ev(elt))
                return
            var, it, conds = gens[i]
            sub = Folder(self.repo, self.b, env, self.defaultdicts)
            for x in sub.ev(it):
                e2 = dict(env)
                el = ir.I(("elem", it, cid))
                e2[el] = x
                # tuple targets: elem[i]
                if isinstance(x, (tuple, list)):
                    for j, xj in enumerate(x):
                        e2[ir.I(("sub", el, ("const", j)))] = xj
                s2 = Folder(self.repo, self.b, e2, self.defaultdicts)
                if all(s2.ev(c) for c in conds):
                    rec(i + 1, e2)

        rec(0, dict(self.env))
        if kind == "dict":
            return {a: b_ for a, b_ in out}
        if kind == "set":
            return set(out)
        return out


class _Return(Exception):
    def __init__(self, value):
        self.value = value


class _Interp:
    """Partial evaluation of a PURE nested function on constant arguments (a sort key written as a def instead of a lambda): straight-line
    code, if / for / return over constants, comparisons, string tests, len / enumerate / range / min / max. Free names are folded from the
    defining scope's terms. Anything else is 'not foldable'."""
    _BUILTINS = {"len": len, "enumerate": enumerate, "range": range, "min": min, "max": max, "any": any, "all": all, "list": list, "tuple": tuple,
                 "sorted": sorted, "str": str, "int": int, "abs": abs, "zip": zip, "next": next, "bool": bool, "reversed": reversed}
    _METHODS = {"startswith", "endswith", "index", "split", "lower", "upper", "strip", "count", "find", "get", "keys", "values", "items", "join"}

    def __init__(self, folder, env_terms):
        self.f = folder
        self.env_terms = env_terms
        self.steps = 0

    def call(self, node, args):
        import ast
        a = node.args
        if a.vararg or a.kwarg or a.kwonlyargs or len(a.args) != len(args):
            raise AnalysisError("key function signature not foldable")
        env = {p.arg: v for p, v in zip(a.args, args)}
        try:
            self.block(node.body, env)
        except _Return as r:
            return r.value
        return None

    def block(self, stmts, env):
        import ast
        for st in stmts:
            self.steps += 1
            if self.steps > 20000:
                raise AnalysisError("key function: too many steps")
            if isinstance(st, ast.Return):
                raise _Return(self.ev(st.value, env) if st.value is not None else None)
            elif isinstance(st, ast.Expr) and isinstance(st.value, ast.Constant):
                continue
            elif isinstance(st, ast.Assign) and len(st.targets) == 1:
                self.bind(st.targets[0], self.ev(st.value, env), env)
            elif isinstance(st, ast.If):
                self.block(st.body if self.ev(st.test, env) else st.orelse, env)
            elif isinstance(st, ast.For) and not st.orelse:
                for x in self.ev(st.iter, env):
                    self.bind(st.target, x, env)
                    self.block(st.body, env)
            elif isinstance(st, ast.Pass):
                continue
            else:
                raise AnalysisError(f"key function statement not foldable: {type(st).__name__}")

    def bind(self, tgt, v, env):
        import ast
        if isinstance(tgt, ast.Name):
            env[tgt.id] = v
        elif isinstance(tgt, (ast.Tuple, ast.List)):
            v = list(v)
            if len(v) != len(tgt.elts):
                raise AnalysisError("unpacking")
            for t_, x in zip(tgt.elts, v):
                self.bind(t_, x, env)
        else:
            raise AnalysisError("key function stores to a non-local")

    def ev(self, e, env):
        import ast
        import operator as op
        if isinstance(e, ast.Constant):
            return e.value
        if isinstance(e, ast.Name):
            if e.id in env:
                return env[e.id]
            if e.id in self.env_terms:
                return self.f.ev(self.env_terms[e.id])
            if e.id in ("True", "False", "None"):
                return {"True": True, "False": False, "None": None}[e.id]
            raise AnalysisError(f"key function reads {e.id}: not a constant")
        if isinstance(e, (ast.List, ast.Tuple)):
            v = [self.ev(x, env) for x in e.elts]
            return v if isinstance(e, ast.List) else tuple(v)
        if isinstance(e, ast.Compare):
            left = self.ev(e.left, env)
            ops = {ast.Eq: op.eq, ast.NotEq: op.ne, ast.Lt: op.lt, ast.LtE: op.le, ast.Gt: op.gt, ast.GtE: op.ge, ast.Is: op.is_, ast.IsNot: op.is_not,
                   ast.In: lambda a, b: a in b, ast.NotIn: lambda a, b: a not in b}
            for o, r in zip(e.ops, e.comparators):
                right = self.ev(r, env)
                if not ops[type(o)](left, right):
                    return False
                left = right
            return True
        if isinstance(e, ast.BoolOp):
            v = None
            for x in e.values:
                v = self.ev(x, env)
                if isinstance(e.op, ast.And) and not v:
                    return v
                if isinstance(e.op, ast.Or) and v:
                    return v
            return v
        if isinstance(e, ast.UnaryOp):
            v = self.ev(e.operand, env)
            return {ast.Not: lambda x: not x, ast.USub: lambda x: -x, ast.UAdd: lambda x: +x, ast.Invert: lambda x: ~x}[type(e.op)](v)
        if isinstance(e, ast.BinOp):
            ops = {ast.Add: op.add, ast.Sub: op.sub, ast.Mult: op.mul, ast.FloorDiv: op.floordiv, ast.Mod: op.mod}
            if type(e.op) not in ops:
                raise AnalysisError("key function operator not foldable")
            return ops[type(e.op)](self.ev(e.left, env), self.ev(e.right, env))
        if isinstance(e, ast.IfExp):
            return self.ev(e.body if self.ev(e.test, env) else e.orelse, env)
        if isinstance(e, ast.Subscript):
            v = self.ev(e.value, env)
            if isinstance(e.slice, ast.Slice):
                lo, hi, st = (self.ev(x, env) if x is not None else None for x in (e.slice.lower, e.slice.upper, e.slice.step))
                return v[slice(lo, hi, st)]
            return v[self.ev(e.slice, env)]
        if isinstance(e, ast.JoinedStr):
            out = ""
            for p_ in e.values:
                if isinstance(p_, ast.Constant):
                    out += p_.value
                elif isinstance(p_, ast.FormattedValue) and p_.conversion == -1 and p_.format_spec is None:
                    out += str(self.ev(p_.value, env))
                else:
                    raise AnalysisError("key function f-string not foldable")
            return out
        if isinstance(e, (ast.GeneratorExp, ast.ListComp)) and len(e.generators) == 1:
            g = e.generators[0]
            out = []
            for x in self.ev(g.iter, env):
                e2 = dict(env)
                self.bind(g.target, x, e2)
                if all(self.ev(c, e2) for c in g.ifs):
                    out.append(self.ev(e.elt, e2))
            return out
        if isinstance(e, ast.Call) and not any(k.arg is None for k in e.keywords):
            args = [self.ev(a, env) for a in e.args]
            kws = {k.arg: self.ev(k.value, env) for k in e.keywords}
            if isinstance(e.func, ast.Name) and e.func.id in self._BUILTINS and e.func.id not in env:
                r = self._BUILTINS[e.func.id](*args, **kws)
                return list(r) if e.func.id in ("enumerate", "zip", "reversed", "range") else r
            if isinstance(e.func, ast.Attribute) and e.func.attr in self._METHODS:
                recv = self.ev(e.func.value, env)
                if isinstance(recv, (str, list, tuple, dict)):
                    return getattr(recv, e.func.attr)(*args, **kws)
        raise AnalysisError(f"key function expression not foldable: {type(e).__name__}")
