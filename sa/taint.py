"""Row-locality / non-interference taint over def-use terms.

Sources  : reads of partial-count columns on a frame that contains not-yet-reporting rows.
Row-local: element-wise arithmetic, clip, maximum/minimum, where, masks, reshape, reductions along the draw axis (axis=1/-1),
           keyed merges, per-row apply.
Cross-row: solver fits, least squares, random draws, reductions along the row axis (mean/sum/std/max/min/quantile/cumsum/
           argsort/unique ...), matrix products, groupby on a tainted frame.
A tainted value reaching a cross-row operation means another unit's estimate can depend on this unit's partial count.
Two taint kinds: 'val' (values aligned with the nonreporting rows) and 'rows' (a row selection made with a tainted mask).
"""
from __future__ import annotations

import ast

from . import ir
from .model import FuncInfo

REDUCERS = {"mean", "sum", "std", "var", "median", "max", "min", "quantile", "cumsum", "cumprod", "argsort", "sort_values", "unique",
            "nunique", "nanmean", "nanstd", "nanmax", "nanmin", "nansum", "percentile", "corrcoef", "cov", "average", "argmax", "argmin",
            "any", "all", "count", "value_counts", "rank", "mode", "prod", "describe", "idxmax", "idxmin"}
FITS = {"fit", "lstsq", "solve"}
FRAME_PRESERVING = {"copy", "reset_index", "merge", "assign", "rename", "fillna", "drop", "drop_duplicates", "sort_values", "loc", "iloc",
                    "astype", "query", "head", "sample", "dropna", "round"}


def partial_name(t):
    if t[0] == "const" and isinstance(t[1], str):
        n = t[1]
        return n.startswith(("results_", "raw_results")) or n in ("turnout_factor", "percent_expected_vote")
    if t[0] == "fstr":
        p = t[1][0]
        return p[0] == "const" and p[1].startswith(("results_", "raw_results"))
    if t[0] == "list":
        return any(partial_name(x) for x in t[1])
    return False


class Finding:
    def __init__(self, func, key, where, why, kinds):
        self.func, self.key, self.where, self.why, self.kinds = func, key, where, why, kinds


class CrossRow:
    def __init__(self, ctx, builder, nframe_pred=None, max_depth=4):
        self.ctx = ctx
        self.b = builder
        self.max_depth = max_depth
        self.findings = []
        self.sources_seen = []
        self.sinks_seen = 0
        self._done = set()

    # -----------------------------------------------------------------------------------------------
    def analyze(self, func, self_cls, nframes, tainted_params=frozenset(), depth=0, bindings=None):
        key = (func, frozenset(nframes), frozenset(tainted_params), tuple(sorted((bindings or {}).items(), key=str)))
        if key in self._done or depth > self.max_depth:
            return
        self._done.add(key)
        s = self.b.summarize(func, bindings or {}, self_cls=self_cls)
        nterms = {("param", p) for p in nframes}
        tparams = {("param", p) for p in tainted_params}
        memo = {}
        frame_memo = {}

        def has_n(t):
            """frame term may contain nonreporting rows"""
            if t in frame_memo:
                return frame_memo[t]
            frame_memo[t] = False
            r = False
            if t in nterms:
                r = True
            elif t[0] in ("setitem", "setattr", "mut", "loopin", "loopout", "phi", "attr", "sub", "call"):
                if t[0] == "sub" and t[2][0] == "slice":
                    r = has_n(t[1]) and not self._slice_excludes_n(t, nterms)
                elif t[0] == "call":
                    f_ = t[1]
                    if f_[0] == "attr" and f_[2] in FRAME_PRESERVING | {"groupby", "apply", "agg"}:
                        r = has_n(f_[1]) or (f_[2] == "merge" and t[2] and has_n(t[2][0]))
                    elif f_[0] == "global" and f_[1].endswith(("concat", "merge")):
                        r = any(has_n(x) for a in t[2] for x in (a[1] if a[0] == "list" else (a,)))
                    else:
                        r = False
                else:
                    r = any(has_n(c) for c in ir.children(t)[:1])
            frame_memo[t] = r
            return r

        def taint(t):
            if t in memo:
                return memo[t]
            memo[t] = frozenset()
            r = _taint(t)
            memo[t] = r
            return r

        def _taint(t):
            k = t[0]
            if t in tparams:
                return frozenset({"val"})
            if k in ("const", "param", "global", "lambda", "closure", "unknown"):
                return frozenset()
            if k == "elem" and t[1][0] == "call" and t[1][1][0] == "attr" and t[1][1][2] == "unique" and not t[1][2]:
                # a loop over the distinct values of an identifier column (for state in frame.postal_code.unique()): the loop variable is a
                # key, not a count; what is done per key is judged where it is done (the closure form of this loop was never seen as a flow)
                cr_ = ir.column_ref(t[1][1][1])
                if cr_ is not None and not partial_name(("const", cr_[1])):
                    return frozenset()
            if k == "sub":
                base, idx = t[1], t[2]
                if idx[0] in ("const", "fstr", "list") and partial_name(idx) and has_n(base):
                    self.sources_seen.append((func, t))
                    return frozenset({"val"}) | taint(base)
                out = taint(base)
                if idx[0] not in ("const", "fstr", "slice"):
                    ti = taint(idx)
                    if ti:
                        out = out | {"rows"}
                return out
            if k == "attr":
                if t[1] != ("param", "self") and partial_name(("const", t[2])) and has_n(t[1]):
                    self.sources_seen.append((func, t))
                    return frozenset({"val"}) | taint(t[1])
                if t[1] == ("param", "self"):
                    return frozenset()
                return taint(t[1])
            out = frozenset()
            for c in ir.children(t):
                out |= taint(c)
            return out

        def axis_is_draws(t):
            ax = dict(t[3]).get("axis")
            return ax in (("const", 1), ("const", -1))

        seen = set()
        tops = [t for _, _, t, _ in s.assigns] + [t for _, t, _ in s.effects] + [t for _, t, _ in s.returns]
        for top in tops:
            for x in ir.walk(top):
                if x in seen:
                    continue
                seen.add(x)
                if x[0] == "bin" and x[1] == "@":
                    tk = taint(x[2]) | taint(x[3])
                    self.sinks_seen += 1
                    if tk:
                        self._report(func, x, "matrix product mixes the rows", tk)
                    continue
                if x[0] != "call":
                    continue
                f_ = x[1]
                name = f_[2] if f_[0] == "attr" else (f_[1].split(".")[-1].split(":")[-1] if f_[0] == "global" else None)
                args = list(x[2]) + [v for kk, v in x[3] if kk != "#new"]
                if name in FITS and f_[0] == "attr":
                    self.sinks_seen += 1
                    tk = frozenset().union(*[taint(a) for a in args]) if args else frozenset()
                    if tk:
                        self._report(func, x, f"argument of {name}()", tk)
                elif f_[0] == "attr" and f_[1][0] == "attr" and f_[1][2] == "rng":
                    self.sinks_seen += 1
                    tk = frozenset().union(*[taint(a) for a in args]) if args else frozenset()
                    if tk:
                        self._report(func, x, f"argument of the random draw rng.{name}", tk)
                elif name in REDUCERS:
                    self.sinks_seen += 1
                    operand = f_[1] if f_[0] == "attr" else (x[2][0] if x[2] else None)
                    if operand is None:
                        continue
                    tk = taint(operand)
                    if tk and not axis_is_draws(x):
                        self._report(func, x, f"{name}() across rows", tk)
                elif name == "groupby" and f_[0] == "attr":
                    self.sinks_seen += 1
                    tk = taint(f_[1]) - {"val"}
                    keys_t = frozenset().union(*[taint(a) for a in x[2]]) if x[2] else frozenset()
                    if keys_t:
                        self._report(func, x, "grouping key derived from partial counts", keys_t)
                # interprocedural: repo callees receiving N-frames or tainted values
                loc = self.b.loc.get(x)
                if loc and isinstance(loc[1], ast.Call):
                    for g in self.ctx.resolver.resolve_call(loc[0], loc[1], self_cls):
                        if not isinstance(g, FuncInfo) or g is func:
                            continue
                        method = g.cls is not None and g.params[:1] in (["self"], ["cls"])
                        bind = ir.bind_args(g, x[2], x[3], method=method) or {}
                        nf = {p for p, a in bind.items() if isinstance(a, tuple) and has_n(a)}
                        tp = {p for p, a in bind.items() if isinstance(a, tuple) and taint(a) and p not in nf}
                        consts = {p: a for p, a in bind.items() if isinstance(a, tuple) and a[0] == "const" and isinstance(a[1], str)}
                        if nf or tp:
                            self.analyze(g, self_cls if g.cls is not None and self_cls is not None and g.cls in self_cls.mro() else g.cls,
                                         nf, tp, depth + 1, consts)
                # nested functions applied per group / per row
                for a in args:
                    if a[0] == "closure" and f_[0] == "attr" and has_n(f_[1]):
                        fi, env, scls = self.b.closures[a[1]]
                        self.analyze(fi, scls, set(fi.params[:1]), frozenset(), depth + 1)

    def _slice_excludes_n(self, t, nterms):
        """x[:n_R] on concat([R, N, ..]) keeps only reporting rows"""
        from .aggmodel import Indicator, concat_order, FRAME_NAMES
        base, sl = t[1], t[2]
        order = None
        for x in ir.walk(base):
            o = concat_order(x)
            if o is not None:
                order = o
                break
        if order is None or sl[3] != ("const", None) or sl[1] != ("const", None) or sl[2] == ("const", None):
            return False
        c = Indicator.count(sl[2])
        if c is None:
            return False
        first = order[0]
        return first not in nterms and set(k for k, v in c.items() if v) == {FRAME_NAMES.get(first, "?")}

    def _report(self, func, term, what, kinds):
        loc = self.b.loc.get(term)
        where = loc[0].where(loc[1]) if loc else func.where()
        stmt = loc[1] if loc else None
        from .util import stmt_text
        key = f"{func.qualname}|{stmt_text(stmt, 110) if stmt is not None else ir.show(term, maxdepth=3)}"
        if any(f.key == key for f in self.findings):
            return
        fd = Finding(func, key, where, what, sorted(kinds))
        from .util import anon_locals
        fd.anon = anon_locals(func, key)
        self.findings.append(fd)
