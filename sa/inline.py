"""AST-level inlining of extracted helpers (a normalisation applied to the parsed package before anything is analysed).

A function whose NAME did not exist when the rules were written (sa/known_functions.txt) is new code: no rule can have been written about
it. The most common behaviour-preserving change - "extract these statements into a helper" - moves constructs the rules are anchored on
(writes, calls, guards, returns) into such a function, where call-graph, CFG and site rules no longer find them in the function they name.
This pass undoes the extraction: a call of a new helper is replaced by the helper's body (parameters bound to the arguments, locals renamed
where they collide, `return` turned into the assignment / return / nothing the call site asks for), and a helper no call refers to any
more is dropped. What the engines analyse is then the program with the helper's statements back in their callers - the same program.

Only calls that can be resolved without guessing are inlined (`self.h(..)` within the class family, a bare `h(..)` of the same module or
imported by name, `x.h(..)` when exactly one class of the package defines `h`); everything else is left to the def-use engine's own
look-through (ir._is_new_function).  Unsupported shapes (generators, *args, returns inside loops when a value is needed ..) are left alone.
"""
import ast
import builtins
import copy
import itertools
import re

_SCOPES = (ast.FunctionDef, ast.AsyncFunctionDef, ast.Lambda, ast.ClassDef)
_BUILTINS = set(dir(builtins))
# names of methods of third-party objects (frames, arrays, containers): `x.<name>(..)` with a receiver other than self is never taken for
# a helper of this package when the name is one of these
_FOREIGN = set(dir(dict)) | set(dir(list)) | set(dir(str)) | set(dir(set)) | set(dir(tuple)) | {
    "sum", "mean", "min", "max", "apply", "map", "merge", "groupby", "fit", "predict", "transform", "sample", "query", "assign", "drop",
    "fillna", "astype", "reshape", "values", "to_numpy", "agg", "aggregate", "rename", "head", "tail", "isin", "any", "all", "dot", "round",
}


class Unsupported(Exception):
    pass


def _body_nodes(stmts):
    for st in stmts:
        yield st
        if isinstance(st, _SCOPES):
            continue
        for c in ast.iter_child_nodes(st):
            yield from _body_nodes([c])


def _docless(body):
    if body and isinstance(body[0], ast.Expr) and isinstance(body[0].value, ast.Constant) and isinstance(body[0].value.value, str):
        return body[1:]
    return body


def _has_return(stmts):
    return any(isinstance(n, ast.Return) for n in _body_nodes(stmts))


def _stored_names(stmts):
    """names bound in this scope by the statements (assignment targets, loop targets, with / except names, nested def names, imports)"""
    out = set()
    comp_targets = {id(m) for st in stmts for c in ast.walk(st) if isinstance(c, ast.comprehension) for m in ast.walk(c.target)}
    for n in _body_nodes(stmts):
        if isinstance(n, ast.Name) and isinstance(n.ctx, (ast.Store, ast.Del)) and id(n) not in comp_targets:
            out.add(n.id)
        elif isinstance(n, (ast.FunctionDef, ast.AsyncFunctionDef, ast.ClassDef)):
            out.add(n.name)
        elif isinstance(n, ast.ExceptHandler) and n.name:
            out.add(n.name)
        elif isinstance(n, ast.alias):
            out.add((n.asname or n.name).split(".")[0])
    return out


def _all_names(node):
    out = set()
    for n in ast.walk(node):
        if isinstance(n, ast.Name):
            out.add(n.id)
        elif isinstance(n, ast.arg):
            out.add(n.arg)
        elif isinstance(n, (ast.FunctionDef, ast.AsyncFunctionDef, ast.ClassDef)):
            out.add(n.name)
        elif isinstance(n, ast.ExceptHandler) and n.name:
            out.add(n.name)
    return out


def _inner_bound(stmts):
    """names bound by nested scopes inside the statements (parameters of nested functions / lambdas, comprehension targets)"""
    out = set()
    for st in stmts:
        for n in ast.walk(st):
            if isinstance(n, (ast.FunctionDef, ast.AsyncFunctionDef, ast.Lambda)):
                a = n.args
                out |= {x.arg for x in a.posonlyargs + a.args + a.kwonlyargs}
                if a.vararg:
                    out.add(a.vararg.arg)
                if a.kwarg:
                    out.add(a.kwarg.arg)
            elif isinstance(n, ast.comprehension):
                out |= {m.id for m in ast.walk(n.target) if isinstance(m, ast.Name)}
    return out


class Helper:
    def __init__(self, node, modname, cls, enclosing):
        self.node = node
        self.name = node.name
        self.modname = modname
        self.cls = cls  # ClassDef or None
        self.enclosing = enclosing  # FunctionDef the helper is nested in, or None
        self.static = any(isinstance(d, ast.Name) and d.id == "staticmethod" for d in node.decorator_list)
        self.is_method = cls is not None and not self.static
        self.body = _docless(list(node.body))
        a = node.args
        self.params = [x.arg for x in a.posonlyargs + a.args]
        self.kwonly = [x.arg for x in a.kwonlyargs]
        self.defaults = dict(zip(self.params[len(self.params) - len(a.defaults):], a.defaults))
        self.defaults.update({k.arg: d for k, d in zip(a.kwonlyargs, a.kw_defaults) if d is not None})
        self.npos = len(a.posonlyargs)
        self.kwarg = a.kwarg.arg if a.kwarg else None
        self.uses = 0

    def eligible(self):
        n = self.node
        if not isinstance(n, ast.FunctionDef):
            return False
        if any(not (isinstance(d, ast.Name) and d.id == "staticmethod") for d in n.decorator_list):
            return False
        if n.args.vararg:
            return False
        if n.args.kwarg:
            # **options is fine when the helper only hands it on as **options: the extra keywords of the call site take its place
            kw = n.args.kwarg.arg
            for x in ast.walk(n):
                if isinstance(x, ast.Name) and x.id == kw:
                    par = getattr(x, "_kwparent", None)
                    if par is None:
                        for c in ast.walk(n):
                            if isinstance(c, ast.keyword) and c.arg is None and c.value is x:
                                par = c
                    if par is None:
                        return False
        if self.is_method and not self.params:
            return False
        self.generator = False
        for x in _body_nodes(self.body):
            if isinstance(x, (ast.Await, ast.Global, ast.Nonlocal, ast.Match)):
                return False
            if isinstance(x, (ast.Yield, ast.YieldFrom)):
                self.generator = True
        if self.generator and any(isinstance(x, ast.Return) and x.value is not None for x in _body_nodes(self.body)):
            return False  # a generator that returns a value: `yield from` would have to deliver it
        for x in ast.walk(n):
            if (isinstance(x, ast.Name) and x.id == self.name) or (isinstance(x, ast.Attribute) and x.attr == self.name):
                return False  # recursive
        locs = set(self.params) | set(self.kwonly) | _stored_names(self.body)
        if locs & _inner_bound(self.body):
            return False  # a nested scope re-binds one of the helper's names: renaming would need real scoping
        return True

    def expression(self):
        """the helper is `return <expr>` and nothing else"""
        if len(self.body) == 1 and isinstance(self.body[0], ast.Return) and self.body[0].value is not None:
            return self.body[0].value
        return None


class _Subst(ast.NodeTransformer):
    def __init__(self, ren):
        self.ren = ren  # name -> new name (str) | expression node (only substituted for loads)

    def visit_Name(self, n):
        r = self.ren.get(n.id)
        if r is None:
            return n
        if isinstance(r, str):
            return ast.copy_location(ast.Name(id=r, ctx=n.ctx), n)
        if not isinstance(n.ctx, ast.Load):
            raise Unsupported("store to a substituted parameter")
        return ast.copy_location(copy.deepcopy(r), n)

    def visit_Constant(self, n):
        # frame.query("col >= @name") reads a local variable by its name
        if isinstance(n.value, str) and "@" in n.value:
            def sub(m):
                r = self.ren.get(m.group(1))
                if isinstance(r, str):
                    return "@" + r
                if isinstance(r, ast.Name):
                    return "@" + r.id
                if r is not None:
                    raise Unsupported("a query string names a substituted parameter")
                return m.group(0)
            new = re.sub(r"@([A-Za-z_]\w*)", sub, n.value)
            if new != n.value:
                return ast.copy_location(ast.Constant(value=new), n)
        return n

    def visit_FunctionDef(self, n):
        r = self.ren.get(n.name)
        if isinstance(r, str):
            n.name = r
        return self.generic_visit(n)

    def visit_ExceptHandler(self, n):
        r = self.ren.get(n.name) if n.name else None
        if isinstance(r, str):
            n.name = r
        return self.generic_visit(n)

    def visit_alias(self, n):
        k = (n.asname or n.name)
        r = self.ren.get(k)
        if isinstance(r, str):
            n.asname = r
        return n


_SIMPLE = (ast.Name, ast.Constant)


def _bind(helper, call, receiver):
    """[(param, argument expression)] in parameter order; raises Unsupported for star arguments / unknown keywords"""
    if any(isinstance(a, ast.Starred) for a in call.args) or any(k.arg is None for k in call.keywords):
        raise Unsupported("star arguments")
    params = list(helper.params)
    bound = {}
    if helper.is_method:
        if receiver is None:
            raise Unsupported("method without receiver")
        bound[params[0]] = receiver
        pos = params[1:]
    else:
        pos = params
    if len(call.args) > len(pos):
        raise Unsupported("too many positional arguments")
    for p, a in zip(pos, call.args):
        bound[p] = a
    extra = []
    for k in call.keywords:
        if k.arg not in bound and k.arg not in params + helper.kwonly and helper.kwarg:
            extra.append(k)
            continue
        if k.arg in bound or k.arg not in params + helper.kwonly or k.arg in params[:helper.npos]:
            raise Unsupported("keyword does not bind")
        bound[k.arg] = k.value
    helper._extra = extra
    out = []
    for p in params + helper.kwonly:
        if p in bound:
            out.append((p, bound[p]))
        elif p in helper.defaults:
            out.append((p, helper.defaults[p]))
        else:
            raise Unsupported(f"parameter {p} unbound")
    return out


class Inliner:
    def __init__(self, trees, known_bare):
        self.trees = trees
        self.known = known_bare
        self.counter = itertools.count(1)
        self.log = []  # (helper, caller, line)
        self.skipped = []  # (helper, caller, why not)
        self.helpers = {}  # bare name -> [Helper]
        self.bindings = {m: self._bindings(t, m) for m, t in trees.items()}
        self.classes = {}  # bare class name -> [(modname, ClassDef)]
        for m, t in trees.items():
            for n in ast.walk(t):
                if isinstance(n, ast.ClassDef):
                    self.classes.setdefault(n.name, []).append((m, n))
        self.defcount = {}
        for m, t in trees.items():
            for n in ast.walk(t):
                if isinstance(n, (ast.FunctionDef, ast.AsyncFunctionDef)):
                    self.defcount[n.name] = self.defcount.get(n.name, 0) + 1
        for m, t in trees.items():
            self._collect(t.body, m, None, None)

    # ---- inventory ------------------------------------------------------------------------------------------------------------------
    def _is_new(self, name):
        return name not in self.known and not (name.startswith("__") and name.endswith("__"))

    def _collect(self, body, modname, cls, enclosing):
        for st in body:
            if isinstance(st, (ast.FunctionDef, ast.AsyncFunctionDef)):
                if self._is_new(st.name):
                    h = Helper(st, modname, cls, enclosing)
                    if h.eligible():
                        self.helpers.setdefault(st.name, []).append(h)
                for x in _body_nodes(st.body):
                    if isinstance(x, (ast.FunctionDef, ast.AsyncFunctionDef)) and self._is_new(x.name):
                        h = Helper(x, modname, None, st)
                        if h.eligible():
                            self.helpers.setdefault(x.name, []).append(h)
            elif isinstance(st, ast.ClassDef):
                self._collect(st.body, modname, st, None)

    @staticmethod
    def _bindings(tree, modname):
        """module-level name -> what it is bound to ('import numpy', 'from a.b import c', 'local <module>')"""
        out = {}
        for st in tree.body:
            if isinstance(st, ast.Import):
                for a in st.names:
                    out[(a.asname or a.name).split(".")[0]] = "import " + (a.name if a.asname else a.name.split(".")[0])
            elif isinstance(st, ast.ImportFrom):
                for a in st.names:
                    out[a.asname or a.name] = f"from {'.' * st.level}{st.module or ''} import {a.name}"
            elif isinstance(st, (ast.FunctionDef, ast.AsyncFunctionDef, ast.ClassDef)):
                out[st.name] = f"from {modname} import {st.name}"
            elif isinstance(st, (ast.Assign, ast.AnnAssign)):
                for tg in (st.targets if isinstance(st, ast.Assign) else [st.target]):
                    for n in ast.walk(tg):
                        if isinstance(n, ast.Name):
                            out[n.id] = f"from {modname} import {n.id}"
        return out

    def _family(self, modname, cls):
        """the class and its bases, as far as they are classes of the package with a unique bare name"""
        out, todo, seen = [], [(modname, cls)], set()
        while todo:
            m, c = todo.pop(0)
            if id(c) in seen:
                continue
            seen.add(id(c))
            out.append((m, c))
            for b in c.bases:
                bn = b.id if isinstance(b, ast.Name) else (b.attr if isinstance(b, ast.Attribute) else None)
                cands = self.classes.get(bn, [])
                if len(cands) == 1:
                    todo.append(cands[0])
        return out

    def _free_names_ok(self, helper, caller_mod):
        if helper.modname == caller_mod:
            return True
        locs = set(helper.params) | set(helper.kwonly) | _stored_names(helper.body) | _inner_bound(helper.body)
        hb, cb = self.bindings[helper.modname], self.bindings[caller_mod]
        for st in helper.body:
            for n in ast.walk(st):
                if isinstance(n, ast.Name) and n.id not in locs:
                    if n.id in hb:
                        if cb.get(n.id) != hb[n.id]:
                            return False
                    elif n.id not in _BUILTINS:
                        return False
        return True

    def resolve(self, call, ctx):
        """(Helper, receiver expression or None) for a call that certainly runs a new helper, else None"""
        f = call.func
        if isinstance(f, ast.Name):
            cands = self.helpers.get(f.id, [])
            # nested helper of the calling function (closure): same enclosing function
            for h in cands:
                if h.enclosing is not None and h.enclosing is ctx["outer"]:
                    return h, None
            cands = [h for h in cands if h.cls is None and h.enclosing is None]
            if len(cands) != 1:
                return None
            h = cands[0]
            bind = self.bindings[ctx["mod"]].get(f.id)
            if bind != f"from {h.modname} import {h.name}":
                return None
            if f.id in ctx["locals"]:
                return None  # shadowed by a local
            return (h, None) if self._free_names_ok(h, ctx["mod"]) else None
        if isinstance(f, ast.Attribute):
            cands = [h for h in self.helpers.get(f.attr, []) if h.cls is not None]
            if not cands:
                return None
            all_defs = self.defcount.get(f.attr, 0)
            recv = f.value
            if isinstance(recv, ast.Name) and recv.id == ctx["self"] and ctx["cls"] is not None:
                fam = self._family(ctx["mod"], ctx["cls"])
                for m, c in fam:
                    for h in cands:
                        if h.cls is c:
                            if all_defs != 1:
                                return None  # overridden somewhere: dynamic dispatch, not ours to decide
                            return (h, None if h.static else recv) if self._free_names_ok(h, ctx["mod"]) else None
                return None
            if len(cands) == 1 and all_defs == 1 and f.attr not in _FOREIGN:
                h = cands[0]
                if isinstance(recv, ast.Name) and recv.id in self.classes and h.static:
                    return (h, None) if self._free_names_ok(h, ctx["mod"]) else None
                if h.static:
                    return None
                return (h, recv) if self._free_names_ok(h, ctx["mod"]) else None
        return None

    # ---- expansion ------------------------------------------------------------------------------------------------------------------
    def _expand_expr(self, helper, call, receiver):
        """expression helper: the call becomes the returned expression with the arguments in place of the parameters"""
        expr = helper.expression()
        if helper.kwarg:
            raise Unsupported("**options in an expression helper")
        binds = _bind(helper, call, receiver)
        ren = {}
        inner = _inner_bound([ast.Expr(expr)])
        for p, a in binds:
            loads = sum(1 for n in ast.walk(expr) if isinstance(n, ast.Name) and n.id == p)
            simple = isinstance(a, _SIMPLE) or (isinstance(a, ast.Attribute) and isinstance(a.value, ast.Name))
            if loads > 1 and not simple:
                raise Unsupported("argument would be duplicated")
            if _all_names(a) & inner:
                raise Unsupported("capture")
            ren[p] = a
        return _Subst(ren).visit(copy.deepcopy(expr))

    def _dead_after(self, call, ctx):
        """names the calling function reads nowhere but in this call's arguments (and the call is not in a loop): a helper that
        re-binds its parameter may then re-bind the caller's variable itself"""
        outer = ctx["outer"]
        inside = {id(n) for n in ast.walk(call)}
        in_loop = False
        for n in ast.walk(outer):
            if isinstance(n, (ast.For, ast.While, ast.AsyncFor)) and any(id(x) in inside for x in ast.walk(n)):
                in_loop = True
        if in_loop:
            return set()
        read_elsewhere = {n.id for n in ast.walk(outer) if isinstance(n, ast.Name) and isinstance(n.ctx, ast.Load) and id(n) not in inside}
        nested_reads = set()
        return {n.id for n in ast.walk(call) if isinstance(n, ast.Name)} - read_elsewhere - nested_reads

    def _expand_body(self, helper, call, receiver, caller_names, keep=(), dead=()):
        """(prologue statements binding the parameters, the helper's body with parameters / locals renamed)"""
        n = next(self.counter)
        binds = _bind(helper, call, receiver)
        stored = _stored_names(helper.body)
        arg_names = set()
        for _, a in binds:
            arg_names |= _all_names(a)
        ren, pro = {}, []
        for p, a in binds:
            if p not in stored and isinstance(a, _SIMPLE):
                ren[p] = a
            elif isinstance(a, ast.Name) and a.id in dead and sum(1 for _, a2 in binds for x in ast.walk(a2) if isinstance(x, ast.Name) and x.id == a.id) == 1 \
                    and a.id not in (stored - {p}) and a.id not in (set(helper.params) | set(helper.kwonly)) - {p}:
                ren[p] = a.id  # the caller's variable is dead after the call: the helper's parameter IS that variable
            else:
                new = f"{p}_inl{n}" if (p in caller_names or p in arg_names) and p not in keep else p
                ren[p] = new
                pro.append(ast.copy_location(ast.Assign(targets=[ast.Name(id=new, ctx=ast.Store())], value=copy.deepcopy(a), lineno=call.lineno), call))
        for loc in stored:
            if loc not in ren:
                ren[loc] = f"{loc}_inl{n}" if ((loc in caller_names and loc not in keep) or loc in arg_names) else loc
        body = [_Subst(ren).visit(copy.deepcopy(st)) for st in helper.body]
        if helper.kwarg:
            extra = getattr(helper, "_extra", [])
            for st in body:
                for c in ast.walk(st):
                    if isinstance(c, ast.Call):
                        new = []
                        for k in c.keywords:
                            if k.arg is None and isinstance(k.value, ast.Name) and k.value.id == helper.kwarg:
                                new += [ast.keyword(arg=x.arg, value=copy.deepcopy(x.value)) for x in extra]
                            else:
                                new.append(k)
                        c.keywords = new
        return pro, body

    def _tailify(self, stmts, emit):
        """the statement list with every `return e` replaced by emit(e); statements after an `if` that returns on some paths move into
        the paths that do not. Returns (statements, all paths terminated)."""
        out = []
        for i, st in enumerate(stmts):
            if isinstance(st, ast.Return):
                out += emit(st.value)
                return out, True
            if isinstance(st, ast.If) and _has_return([st]):
                rest = stmts[i + 1:]
                b, bt = self._tailify(st.body, emit)
                if not bt:
                    rb, bt = self._tailify(copy.deepcopy(rest), emit)
                    b += rb
                e, et = self._tailify(st.orelse, emit)
                if not et:
                    re_, et = self._tailify(copy.deepcopy(rest), emit)
                    e += re_
                new = ast.copy_location(ast.If(test=st.test, body=b or [ast.copy_location(ast.Pass(), st)], orelse=e), st)
                out.append(new)
                return out, bt and et
            if not isinstance(st, _SCOPES) and _has_return([st]):
                raise Unsupported("return inside a loop / try / with where a value is needed")
            out.append(st)
        return out, False

    # ---- rewriting a function -------------------------------------------------------------------------------------------------------
    def _own_exprs(self, st):
        """the expressions a statement evaluates itself (not its nested blocks); (field, index or None)"""
        if isinstance(st, (ast.If, ast.While)):
            return [("test", None)]
        if isinstance(st, (ast.For, ast.AsyncFor)):
            return [("iter", None)]
        if isinstance(st, (ast.With, ast.AsyncWith)):
            return [("items", i) for i in range(len(st.items))]
        if isinstance(st, (ast.Try, ast.FunctionDef, ast.AsyncFunctionDef, ast.ClassDef)) or (hasattr(ast, "TryStar") and isinstance(st, ast.TryStar)):
            return []
        return [(None, None)]

    def _calls_in(self, node, ctx):
        """inlineable calls under node, innermost first, each with the list of its ancestors"""
        found = []

        def rec(n, anc):
            for c in ast.iter_child_nodes(n):
                rec(c, anc + [n])
            if isinstance(n, ast.Call) and not getattr(n, "_no_inline", False):
                r = self.resolve(n, ctx)
                if r is not None:
                    found.append((n, anc, r))
        rec(node, [])
        return found

    @staticmethod
    def _replace(root, old, new):
        for p in ast.walk(root):
            for fld, val in ast.iter_fields(p):
                if val is old:
                    setattr(p, fld, new)
                    return True
                if isinstance(val, list):
                    for i, v in enumerate(val):
                        if v is old:
                            val[i] = new
                            return True
        return False

    def _rewrite_stmt(self, st, ctx):
        """list of statements replacing st (st itself, possibly modified, last) - or None when nothing was inlined"""
        changed = False
        pre = []
        for _ in range(20):  # one call per round
            roots = []
            for fld, idx in self._own_exprs(st):
                if fld is None:
                    roots.append(st)
                elif idx is None:
                    roots.append(getattr(st, fld))
                else:
                    roots.append(st.items[idx])
            cand = None
            for r in roots:
                cs = self._calls_in(r, ctx)
                if cs:
                    cand = cs[0]
                    break
            if cand is None:
                break
            call, anc, (h, recv) = cand
            try:
                res = self._inline_call(st, call, anc, h, recv, ctx)
            except Unsupported as e_:
                call._no_inline = True
                res = None
                self.skipped.append((h.name, ctx["fq"], str(e_)))
            if res is None:
                # mark so that resolve skips it next round
                call._no_inline = True
                continue
            changed = True
            h.uses += 1
            self.log.append((f"{h.modname}:{(h.cls.name + '.') if h.cls else ''}{h.name}", ctx["fq"], getattr(call, "lineno", 0)))
            kind, stmts = res
            for x in stmts:
                ctx["names"] |= _all_names(x)
                for y in ast.walk(x):
                    if isinstance(y, (ast.stmt, ast.ExceptHandler)) and not hasattr(y, "_src") and hasattr(st, "_src"):
                        y._src = st._src
            if kind == "replace":
                return pre + stmts
            pre += stmts
        return (pre + [st]) if changed else None

    @staticmethod
    def _expand_star_args(call, ctx):
        """f(a, *cols) with `cols` a name bound once in the calling function to a tuple / list display: the explicit arguments"""
        if not any(isinstance(a, ast.Starred) for a in call.args):
            return
        outer = ctx["outer"]
        new = []
        for a in call.args:
            if isinstance(a, ast.Starred) and isinstance(a.value, ast.Name):
                nm = a.value.id
                defs = [n.value for n in ast.walk(outer) if isinstance(n, ast.Assign) and len(n.targets) == 1 and isinstance(n.targets[0], ast.Name) and n.targets[0].id == nm]
                stores = sum(1 for n in ast.walk(outer) if isinstance(n, ast.Name) and n.id == nm and not isinstance(n.ctx, ast.Load))
                if len(defs) == 1 and stores == 1 and isinstance(defs[0], (ast.Tuple, ast.List)) and not any(isinstance(e, ast.Starred) for e in defs[0].elts):
                    new += [copy.deepcopy(e) for e in defs[0].elts]
                    continue
            elif isinstance(a, ast.Starred) and isinstance(a.value, (ast.Tuple, ast.List)):
                new += list(a.value.elts)
                continue
            new.append(a)
        call.args = new

    def _inline_call(self, st, call, anc, h, recv, ctx):
        if getattr(call, "_no_inline", False):
            return None
        self._expand_star_args(call, ctx)
        names = ctx["names"]
        if getattr(h, "generator", False):
            # `yield from helper(..)` as a statement: the helper's yields are the caller's yields (a bare `return` ends the delegation only,
            # so it is accepted only as the helper's last statement)
            if not (isinstance(st, ast.Expr) and isinstance(st.value, ast.YieldFrom) and st.value.value is call):
                raise Unsupported("generator helper outside `yield from`")
            pro, body = self._expand_body(h, call, recv, names, dead=self._dead_after(call, ctx))
            if any(isinstance(x, ast.Return) for b_ in body[:-1] for x in _body_nodes([b_])) or (body and isinstance(body[-1], ast.Return) is False and any(isinstance(x, ast.Return) for x in _body_nodes([body[-1]]))):
                raise Unsupported("early return in a generator helper")
            if body and isinstance(body[-1], ast.Return):
                body = body[:-1]
            return "replace", self._fix(pro + body, call) or [ast.copy_location(ast.Pass(), st)]
        expr = h.expression()
        if expr is not None:
            try:
                new = self._expand_expr(h, call, recv)
                if self._replace(st, call, new):
                    return "pre", []
            except Unsupported:
                pass
        # statement mode: not from inside a nested scope, a comprehension, a short-circuit, a conditional expression or a loop test
        for a in anc:
            if isinstance(a, (ast.Lambda, ast.ListComp, ast.SetComp, ast.DictComp, ast.GeneratorExp, ast.IfExp)):
                raise Unsupported("call inside a nested evaluation context")
            if isinstance(a, ast.BoolOp) and not any(call is n for n in ast.walk(a.values[0])):
                raise Unsupported("call behind a short-circuit")
        if isinstance(st, ast.While):
            raise Unsupported("call in a loop test")
        if isinstance(st, ast.Expr) and st.value is call:
            pro, body = self._expand_body(h, call, recv, names, dead=self._dead_after(call, ctx))
            body, _ = self._tailify(body, lambda v: ([ast.Expr(value=v)] if v is not None and any(isinstance(x, ast.Call) for x in ast.walk(v)) else []))
            return "replace", self._fix(pro + body, call) or [ast.copy_location(ast.Pass(), st)]
        if isinstance(st, ast.Return) and st.value is call:
            pro, body = self._expand_body(h, call, recv, names, dead=self._dead_after(call, ctx))
            try:
                _, done = self._tailify(copy.deepcopy(body), lambda v: [])
            except Unsupported:
                done = bool(body) and isinstance(body[-1], (ast.Return, ast.Raise))
            if not done:
                body = body + [ast.Return(value=ast.Constant(value=None))]
            return "replace", self._fix(pro + body, call)
        if isinstance(st, ast.Assign) and st.value is call:
            keep = {st.targets[0].id} if len(st.targets) == 1 and isinstance(st.targets[0], ast.Name) and st.targets[0].id not in {x for a in call.args for x in _all_names(a)} | {x for k in call.keywords for x in _all_names(k.value)} else set()
            pro, body = self._expand_body(h, call, recv, names, keep=keep, dead=self._dead_after(call, ctx))

            def emit(v, st=st):
                v = v if v is not None else ast.Constant(value=None)
                if len(st.targets) == 1 and isinstance(st.targets[0], ast.Name) and isinstance(v, ast.Name) and v.id == st.targets[0].id:
                    return []
                return [ast.copy_location(ast.Assign(targets=copy.deepcopy(st.targets), value=v, lineno=st.lineno), st)]
            body, done = self._tailify(body, emit)
            if not done:
                body += emit(None)
            return "replace", self._fix(pro + body, call)
        if isinstance(st, (ast.AnnAssign, ast.AugAssign)) and st.value is call:
            pro, body = self._expand_body(h, call, recv, names, dead=self._dead_after(call, ctx))

            def emit2(v, st=st):
                new = copy.deepcopy(st)
                new.value = v if v is not None else ast.Constant(value=None)
                return [new]
            body, done = self._tailify(body, emit2)
            if not done:
                body += emit2(None)
            return "replace", self._fix(pro + body, call)
        # hoist
        r = f"_inl_r{next(self.counter)}"
        pro, body = self._expand_body(h, call, recv, names | {r}, dead=self._dead_after(call, ctx))

        def emit3(v):
            return [ast.Assign(targets=[ast.Name(id=r, ctx=ast.Store())], value=v if v is not None else ast.Constant(value=None), lineno=call.lineno)]
        body, done = self._tailify(body, emit3)
        if not done:
            body += emit3(None)
        if not self._replace(st, call, ast.copy_location(ast.Name(id=r, ctx=ast.Load()), call)):
            raise Unsupported("call site not found")
        ctx["names"].add(r)
        return "pre", self._fix(pro + body, call)

    @staticmethod
    def _fix(stmts, at):
        for s in stmts:
            for n in ast.walk(s):
                if not hasattr(n, "lineno") and isinstance(n, (ast.stmt, ast.expr)):
                    ast.copy_location(n, at)
            ast.fix_missing_locations(s)
        return stmts

    def _rewrite_block(self, stmts, ctx):
        changed = False
        i = 0
        while i < len(stmts):
            st = stmts[i]
            if isinstance(st, (ast.FunctionDef, ast.AsyncFunctionDef, ast.ClassDef)):
                i += 1
                continue  # nested functions are rewritten as functions of their own
            new = self._rewrite_stmt(st, ctx)
            if new is not None:
                stmts[i:i + 1] = new
                changed = True
                continue  # look at the inlined statements again (helpers calling helpers)
            for fld in ("body", "orelse", "finalbody"):
                blk = getattr(st, fld, None)
                if isinstance(blk, list) and blk and isinstance(blk[0], ast.stmt):
                    changed |= self._rewrite_block(blk, ctx)
            for hd in getattr(st, "handlers", []) or []:
                changed |= self._rewrite_block(hd.body, ctx)
            i += 1
        return changed

    def run(self):
        if not self.helpers:
            return
        for _ in range(6):
            changed = False
            for m, t in self.trees.items():
                for fn, cls, outer in self._functions(t):
                    a = fn.args
                    first = (a.posonlyargs + a.args)[0].arg if (a.posonlyargs + a.args) else None
                    static = any(isinstance(d, ast.Name) and d.id in ("staticmethod",) for d in fn.decorator_list)
                    ctx = {"mod": m, "cls": cls, "self": first if cls is not None and not static else None, "outer": fn,
                           "names": _all_names(outer), "locals": _stored_names(fn.body) | {x.arg for x in a.posonlyargs + a.args + a.kwonlyargs},
                           "fq": f"{m}:{(cls.name + '.') if cls else ''}{fn.name}"}
                    changed |= self._rewrite_block(fn.body, ctx)
            if not changed:
                break
        self._drop_unused()

    def _functions(self, tree):
        """(function, class it is a method of or None, outermost enclosing function) for every function of the module"""
        out = []

        def rec(body, cls, outer):
            for st in body:
                if isinstance(st, (ast.FunctionDef, ast.AsyncFunctionDef)):
                    out.append((st, cls if outer is None else None, outer or st))
                    rec([x for x in _body_nodes(st.body) if isinstance(x, (ast.FunctionDef, ast.AsyncFunctionDef, ast.ClassDef))], None, outer or st)
                elif isinstance(st, ast.ClassDef):
                    rec(st.body, st, outer)
        rec(tree.body, None, None)
        # nested functions see their class through self only if they are methods: keep cls for methods only
        return out

    def _drop_unused(self):
        used = [h for hs in self.helpers.values() for h in hs if h.uses]
        if not used:
            return
        for h in used:
            refs = 0
            for t in self.trees.values():
                for n in ast.walk(t):
                    if (isinstance(n, ast.Name) and n.id == h.name) or (isinstance(n, ast.Attribute) and n.attr == h.name):
                        refs += 1
                    elif isinstance(n, ast.alias) and n.name == h.name:
                        refs += 0  # an import of the name alone keeps nothing alive
            if refs:
                continue
            for t in self.trees.values():
                for p in ast.walk(t):
                    body = getattr(p, "body", None)
                    if isinstance(body, list) and h.node in body:
                        body.remove(h.node)
                        if not body:
                            body.append(ast.copy_location(ast.Pass(), h.node))


def known_bare_names():
    import os
    p = os.path.join(os.path.dirname(os.path.abspath(__file__)), "known_functions.txt")
    try:
        return {l.strip().split(":")[-1].split(".")[-1] for l in open(p) if l.strip() and not l.startswith("const ")}
    except OSError:
        return set()


def inline_new_helpers(trees, known_bare=None, dry=False):
    """trees: {module name: ast.Module}; known_bare: the bare function names of the inventory. Returns the log of what was inlined
    (dry: only whether there is any candidate helper at all)."""
    if known_bare is None:
        known_bare = known_bare_names()
    if not known_bare:
        return []
    inl = Inliner(trees, known_bare)
    if dry:
        return bool(inl.helpers)
    inl.run()
    return inl.log


def tag_sources(parsed):
    """every node remembers the file and line it was written at: _src = (relative path, line)"""
    for rel, tree in parsed.values():
        for n in ast.walk(tree):
            if hasattr(n, "lineno"):
                n._src = (rel, n.lineno)


def reposition(tree):
    """(source, tree) of the normalised module with consistent positions; _src of every statement carried over (expressions take the
    line of their statement)"""
    ast.fix_missing_locations(tree)
    src = ast.unparse(tree)
    new = ast.parse(src)
    old_st = [n for n in ast.walk(tree) if isinstance(n, (ast.stmt, ast.ExceptHandler))]
    new_st = [n for n in ast.walk(new) if isinstance(n, (ast.stmt, ast.ExceptHandler))]
    if len(old_st) != len(new_st) or any(type(a) is not type(b) for a, b in zip(old_st, new_st)):
        raise RuntimeError("normalised module does not re-parse to the same statements")
    for a, b in zip(old_st, new_st):
        s_ = getattr(a, "_src", None)
        if s_ is None:
            continue
        b._src = s_
    for b in new_st:  # expressions: the statement they belong to
        s_ = getattr(b, "_src", None)
        if s_ is None:
            continue
        todo = [c for c in ast.iter_child_nodes(b) if not isinstance(c, (ast.stmt, ast.ExceptHandler))]
        while todo:
            c = todo.pop()
            c._src = s_
            todo.extend(x for x in ast.iter_child_nodes(c) if not isinstance(x, (ast.stmt, ast.ExceptHandler)))
    return src, new


# ---- loops over a literal tuple of objects ------------------------------------------------------------------------------------------
def _ref_chain(e):
    """self.a.b / name -> the expression is a plain reference to an object (no call, no subscript)"""
    while isinstance(e, ast.Attribute):
        e = e.value
    return isinstance(e, ast.Name)


def _stores_to(stmts, exprs):
    """does the block re-bind one of the references (x = .., self.a = .., del ..)"""
    want = {ast.dump(_as_load(e)) for e in exprs}
    for st in stmts:
        for n in ast.walk(st):
            if isinstance(n, (ast.Name, ast.Attribute)) and isinstance(n.ctx, (ast.Store, ast.Del)) and ast.dump(_as_load(n)) in want:
                return True
    return False


def _as_load(e):
    e = copy.deepcopy(e)
    for n in ast.walk(e):
        if hasattr(n, "ctx"):
            n.ctx = ast.Load()
        for a in ("lineno", "col_offset", "end_lineno", "end_col_offset"):
            if hasattr(n, a):
                delattr(n, a)
    return e


class _Alias(ast.NodeTransformer):
    def __init__(self, name, expr):
        self.name, self.expr = name, expr

    def visit_Name(self, n):
        if n.id == self.name and isinstance(n.ctx, ast.Load):
            return ast.copy_location(copy.deepcopy(self.expr), n)
        return n


class _AliasMany(ast.NodeTransformer):
    def __init__(self, mapping):
        self.mapping = mapping

    def visit_Name(self, n):
        if n.id in self.mapping and isinstance(n.ctx, ast.Load):
            return ast.copy_location(copy.deepcopy(self.mapping[n.id]), n)
        return n


def _literal_ok(e):
    """what may stand in place of a loop variable: an object reference, a constant, a display of constants / references"""
    if isinstance(e, ast.Constant) or _ref_chain(e):
        return True
    if isinstance(e, ast.JoinedStr):  # a name template over plain references: f"results_{estimand}"
        return all(isinstance(p, ast.Constant) or (isinstance(p, ast.FormattedValue) and p.conversion == -1 and p.format_spec is None and _ref_chain(p.value))
                   for p in e.values)
    if isinstance(e, ast.BoolOp):  # a pure test over references and constants: `flag and "margin" in self.estimands`
        return all(_literal_ok(v) for v in e.values)
    if isinstance(e, ast.UnaryOp) and isinstance(e.op, ast.Not):
        return _literal_ok(e.operand)
    if isinstance(e, ast.Compare):
        return _literal_ok(e.left) and all(_literal_ok(c) for c in e.comparators)
    if isinstance(e, ast.Dict):
        return all(k is not None and isinstance(k, ast.Constant) and _literal_ok(v) for k, v in zip(e.keys, e.values))
    if isinstance(e, (ast.Tuple, ast.List)):
        return all(_literal_ok(x) for x in e.elts)
    return False


def _iterations(st, stmts, i):
    """[{loop variable: expression}] for a loop over a literal collection of objects - a tuple / list display, a dict display's
    .items() / .keys() / .values(), possibly through a name bound once (in this block) to the display - else None"""
    it = st.iter
    how = "seq"
    if isinstance(it, ast.Call) and isinstance(it.func, ast.Attribute) and it.func.attr in ("items", "keys", "values") and not it.args and not it.keywords:
        how, it = it.func.attr, it.func.value
    if isinstance(it, ast.Name):
        defs = [p.value for p in stmts[:i] if isinstance(p, ast.Assign) and len(p.targets) == 1 and isinstance(p.targets[0], ast.Name) and p.targets[0].id == it.id]
        stores = sum(1 for p in stmts for n in ast.walk(p) if isinstance(n, ast.Name) and n.id == it.id and not isinstance(n.ctx, ast.Load))
        mutated = any(isinstance(n, ast.Attribute) and isinstance(n.value, ast.Name) and n.value.id == it.id and n.attr in ("update", "pop", "setdefault", "append", "extend", "clear", "insert", "remove")
                      for p in stmts for n in ast.walk(p)) or any(
            isinstance(n, ast.Subscript) and isinstance(n.value, ast.Name) and n.value.id == it.id and not isinstance(n.ctx, ast.Load) for p in stmts for n in ast.walk(p))
        it = defs[0] if len(defs) == 1 and stores == 1 and not mutated else None
    if it is None:
        return None
    if isinstance(it, ast.Dict):
        if any(k is None for k in it.keys) or not all(isinstance(k, ast.Constant) for k in it.keys) or not all(_literal_ok(v) for v in it.values):
            return None
        if how == "seq":
            how = "keys"
        elems = [ast.Tuple(elts=[k, v], ctx=ast.Load()) for k, v in zip(it.keys, it.values)] if how == "items" else (list(it.keys) if how == "keys" else list(it.values))
    elif isinstance(it, (ast.Tuple, ast.List)) and how == "seq":
        elems = list(it.elts)
        # a loop over a literal list of plain constants is unrolled when the constants build names (they occur inside an f-string, a
        # concatenation or a subscript of the body); a loop that only compares or prints them stays a loop
        if all(isinstance(e, ast.Constant) for e in elems) and elems:
            v = st.target.id if isinstance(st.target, ast.Name) else None
            builds = v is not None and all(isinstance(e.value, str) for e in elems) and any(
                isinstance(n, (ast.JoinedStr, ast.BinOp)) and any(isinstance(m, ast.Name) and m.id == v for m in ast.walk(n))
                for b_ in st.body for n in ast.walk(b_))
            if not builds:
                return None
    else:
        return None
    if not (1 <= len(elems) <= 6) or not all(_literal_ok(e) for e in elems):
        return None
    out = []
    for e in elems:
        if isinstance(st.target, ast.Name):
            out.append({st.target.id: e})
        elif isinstance(st.target, (ast.Tuple, ast.List)) and all(isinstance(x, ast.Name) for x in st.target.elts) \
                and isinstance(e, (ast.Tuple, ast.List)) and len(e.elts) == len(st.target.elts):
            out.append({x.id: y for x, y in zip(st.target.elts, e.elts)})
        else:
            return None
    return out


def unroll_object_loops(trees):
    """`for u in (self.a, self.b): u[k] = u[r]` writes to self.a and to self.b through an alias; the def-use engine follows names, not
    aliases. A loop over a literal collection of objects (a tuple / list display, the items of a dict display) is replaced by one copy of
    its body per element, with the element in place of the loop variable (no break / continue / else, the variables and the references
    not re-bound, the variables not read after the loop)."""
    log = []

    def block(stmts, fq):
        i = 0
        while i < len(stmts):
            st = stmts[i]
            for fld in ("body", "orelse", "finalbody"):
                blk = getattr(st, fld, None)
                if isinstance(blk, list) and blk and isinstance(blk[0], ast.stmt) and not isinstance(st, (ast.FunctionDef, ast.AsyncFunctionDef, ast.ClassDef)):
                    block(blk, fq)
            for hd in getattr(st, "handlers", []) or []:
                block(hd.body, fq)
            its = _iterations(st, stmts, i) if isinstance(st, ast.For) and not st.orelse else None
            if its:
                names = set(its[0])
                inner = [n for b in st.body for n in ast.walk(b)]
                refs = [x for m in its for e in m.values() for x in ast.walk(e) if isinstance(x, (ast.Name, ast.Attribute)) and _ref_chain(x)]
                refs += [p.value for m in its for e in m.values() for j_ in ast.walk(e) if isinstance(j_, ast.JoinedStr) for p in j_.values if isinstance(p, ast.FormattedValue)]
                bad = any(isinstance(n, (ast.Break, ast.Continue, ast.Return, ast.FunctionDef, ast.Lambda, ast.AsyncFunctionDef, ast.Global, ast.Nonlocal)) for n in inner) \
                    or any(isinstance(n, ast.Name) and n.id in names and not isinstance(n.ctx, ast.Load) for n in inner) \
                    or any(isinstance(n, ast.comprehension) and any(isinstance(m, ast.Name) and m.id in names for m in ast.walk(n.target)) for n in inner) \
                    or (refs and _stores_to(st.body, refs))
                later = [n for s_ in stmts[i + 1:] for n in ast.walk(s_) if isinstance(n, ast.Name) and n.id in names]
                if not bad and not later:
                    new = []
                    for m in its:
                        mp = {k: _as_load(v) for k, v in m.items()}
                        for b in st.body:
                            nb = _AliasMany(mp).visit(copy.deepcopy(b))
                            _expand_star_dicts(nb)
                            ast.fix_missing_locations(ast.copy_location(nb, b))
                            for y in ast.walk(nb):
                                if not hasattr(y, "lineno") and isinstance(y, (ast.expr, ast.stmt)):
                                    ast.copy_location(y, b)
                            new.append(nb)
                    stmts[i:i + 1] = new
                    log.append((fq, getattr(st, "lineno", 0)))
                    continue
            i += 1

    for m, t in trees.items():
        block(t.body, f"{m}:<module>")
        for n in ast.walk(t):
            if isinstance(n, (ast.FunctionDef, ast.AsyncFunctionDef)):
                block(n.body, f"{m}:{n.name}")
    return log


def _expand_star_dicts(node):
    """f(**{"a": x}) is f(a=x)"""
    for c in ast.walk(node):
        if isinstance(c, ast.Call):
            new = []
            for k in c.keywords:
                if k.arg is None and isinstance(k.value, ast.Dict) and k.value.keys and all(isinstance(q, ast.Constant) and isinstance(q.value, str) and q.value.isidentifier() for q in k.value.keys):
                    new += [ast.keyword(arg=q.value, value=v_) for q, v_ in zip(k.value.keys, k.value.values)]
                else:
                    new.append(k)
            c.keywords = new


# ---- list-building loops ---------------------------------------------------------------------------------------------------------
def loops_to_comprehensions(trees):
    """`acc = []` .. `for x in L: [if c:] acc.append(e)` is the list `[e for x in L if c]`: one canonical spelling (the comprehension).
    Only when the loop body is that single statement, the accumulator is a plain name that is fresh (assigned the empty list right
    before the loop, nothing in between mentions it) and is not read by the loop's own expressions."""
    log = []

    def empty_list(v):
        return (isinstance(v, ast.List) and not v.elts) or (isinstance(v, ast.Call) and isinstance(v.func, ast.Name) and v.func.id == "list" and not v.args and not v.keywords)

    def block(stmts, fq):
        i = 0
        while i < len(stmts):
            st = stmts[i]
            if not isinstance(st, (ast.FunctionDef, ast.AsyncFunctionDef, ast.ClassDef)):
                for fld in ("body", "orelse", "finalbody"):
                    blk = getattr(st, fld, None)
                    if isinstance(blk, list) and blk and isinstance(blk[0], ast.stmt):
                        block(blk, fq)
                for hd in getattr(st, "handlers", []) or []:
                    block(hd.body, fq)
            if isinstance(st, ast.For) and not st.orelse and len(st.body) == 1 and i > 0:
                inner = st.body[0]
                cond = None
                if isinstance(inner, ast.If) and not inner.orelse and len(inner.body) == 1:
                    cond, inner = inner.test, inner.body[0]
                if (isinstance(inner, ast.Expr) and isinstance(inner.value, ast.Call) and isinstance(inner.value.func, ast.Attribute)
                        and inner.value.func.attr == "append" and isinstance(inner.value.func.value, ast.Name)
                        and len(inner.value.args) == 1 and not inner.value.keywords):
                    acc = inner.value.func.value.id
                    prev = stmts[i - 1]
                    fresh = (isinstance(prev, ast.Assign) and len(prev.targets) == 1 and isinstance(prev.targets[0], ast.Name)
                             and prev.targets[0].id == acc and empty_list(prev.value))
                    exprs = [st.iter, st.target, inner.value.args[0]] + ([cond] if cond is not None else [])
                    reads = any(isinstance(n, ast.Name) and n.id == acc for e in exprs for n in ast.walk(e))
                    tnames = {n.id for n in ast.walk(st.target) if isinstance(n, ast.Name)}
                    later = any(isinstance(n, ast.Name) and n.id in tnames for s_ in stmts[i + 1:] for n in ast.walk(s_))
                    walrus = any(isinstance(n, (ast.NamedExpr, ast.Yield, ast.YieldFrom, ast.Await)) for e in exprs for n in ast.walk(e))
                    if fresh and not reads and not later and not walrus:
                        comp = ast.ListComp(elt=inner.value.args[0], generators=[ast.comprehension(target=st.target, iter=st.iter, ifs=[cond] if cond is not None else [], is_async=0)])
                        new = ast.Assign(targets=[ast.Name(id=acc, ctx=ast.Store())], value=comp, lineno=st.lineno)
                        ast.copy_location(new, st)
                        ast.copy_location(comp, st)
                        ast.fix_missing_locations(new)
                        if hasattr(st, "_src"):
                            new._src = st._src
                        stmts[i - 1:i + 1] = [new]
                        log.append((fq, getattr(st, "lineno", 0)))
                        continue
            i += 1

    for m, t in trees.items():
        for n in ast.walk(t):
            if isinstance(n, (ast.FunctionDef, ast.AsyncFunctionDef)):
                block(n.body, f"{m}:{n.name}")
    return log


# ---- guard clauses in loops ----------------------------------------------------------------------------------------------------------
def _negate(test):
    swap = {ast.In: ast.NotIn, ast.NotIn: ast.In, ast.Is: ast.IsNot, ast.IsNot: ast.Is, ast.Eq: ast.NotEq, ast.NotEq: ast.Eq}
    if isinstance(test, ast.UnaryOp) and isinstance(test.op, ast.Not):
        return test.operand
    if isinstance(test, ast.Compare) and len(test.ops) == 1 and type(test.ops[0]) in swap:
        return ast.copy_location(ast.Compare(left=test.left, ops=[swap[type(test.ops[0])]()], comparators=test.comparators), test)
    return ast.copy_location(ast.UnaryOp(op=ast.Not(), operand=test), test)


def continue_guards_to_conditionals(trees):
    """In a loop body, `if c: [A;] continue` followed by REST is `if c: A else: REST` (`if not c: REST` when A is empty): the guard
    clause and the conditional block are one program; the conditional is the canonical spelling, because there the condition is on the
    path of every statement it governs."""
    log = []

    def fix(body, fq):
        for i, st in enumerate(body):
            if isinstance(st, ast.If) and st.body and isinstance(st.body[-1], ast.Continue) and not any(
                    isinstance(n, ast.Continue) for b in st.body[:-1] + st.orelse for n in ast.walk(b)):
                rest = st.orelse + body[i + 1:]
                fix(rest, fq)
                head = st.body[:-1]
                if head:
                    new = ast.If(test=st.test, body=head, orelse=rest)
                elif rest:
                    new = ast.If(test=_negate(st.test), body=rest, orelse=[])
                else:
                    new = None
                if new is not None:
                    ast.copy_location(new, st)
                    if hasattr(st, "_src"):
                        new._src = st._src
                    ast.fix_missing_locations(new)
                body[i:] = [new] if new is not None else []
                log.append((fq, getattr(st, "lineno", 0)))
                return

    def block(stmts, fq):
        for st in stmts:
            if isinstance(st, (ast.FunctionDef, ast.AsyncFunctionDef, ast.ClassDef)):
                continue
            for fld in ("body", "orelse", "finalbody"):
                blk = getattr(st, fld, None)
                if isinstance(blk, list) and blk and isinstance(blk[0], ast.stmt):
                    block(blk, fq)
            for hd in getattr(st, "handlers", []) or []:
                block(hd.body, fq)
            if isinstance(st, (ast.For, ast.While)):
                fix(st.body, fq)
                if not st.body:
                    st.body.append(ast.copy_location(ast.Pass(), st))

    for m, t in trees.items():
        for n in ast.walk(t):
            if isinstance(n, (ast.FunctionDef, ast.AsyncFunctionDef)):
                block(n.body, f"{m}:{n.name}")
    return log


# ---- conditional expressions as whole values ------------------------------------------------------------------------------------------
def lower_conditional_values(trees):
    """`return a if c else b` / `x = a if c else b` is `if c: return a else: return b` / `if c: x = a else: x = b`: the statement form is
    the canonical spelling (its condition is then a branch condition the CFG and the path conditions see)."""
    log = []

    def block(stmts, fq):
        i = 0
        while i < len(stmts):
            st = stmts[i]
            if not isinstance(st, (ast.FunctionDef, ast.AsyncFunctionDef, ast.ClassDef)):
                for fld in ("body", "orelse", "finalbody"):
                    blk = getattr(st, fld, None)
                    if isinstance(blk, list) and blk and isinstance(blk[0], ast.stmt):
                        block(blk, fq)
                for hd in getattr(st, "handlers", []) or []:
                    block(hd.body, fq)
            val = st.value if isinstance(st, (ast.Return, ast.Assign)) else None
            if isinstance(val, ast.IfExp) and not any(isinstance(n, (ast.NamedExpr, ast.Yield, ast.YieldFrom, ast.Await)) for n in ast.walk(val)) \
                    and (isinstance(st, ast.Return) or (len(st.targets) == 1 and (
                        (isinstance(st.targets[0], ast.Name) and not any(isinstance(n, ast.Name) and n.id == st.targets[0].id for n in ast.walk(val.test)))
                        or (isinstance(st.targets[0], ast.Attribute) and isinstance(st.targets[0].value, ast.Name)
                            and not any(isinstance(n, ast.Attribute) and n.attr == st.targets[0].attr for n in ast.walk(val.test)))))):
                def mk(v):
                    new = copy.copy(st)
                    new.value = v
                    if isinstance(st, ast.Assign):
                        new.targets = copy.deepcopy(st.targets)
                    return new
                node = ast.If(test=val.test, body=[mk(val.body)], orelse=[mk(val.orelse)])
                ast.copy_location(node, st)
                if hasattr(st, "_src"):
                    node._src = st._src
                stmts[i] = node
                log.append((fq, getattr(st, "lineno", 0)))
                continue  # nested conditional expressions in the branches
            i += 1

    for m, t in trees.items():
        for n in ast.walk(t):
            if isinstance(n, (ast.FunctionDef, ast.AsyncFunctionDef)):
                block(n.body, f"{m}:{n.name}")
    return log


# ---- dispatch through a literal dict ----------------------------------------------------------------------------------------------
def expand_dispatch_dicts(trees):
    """`if k in D: x = D[k](args)` with D a literal dict {"a": A, "b": B} of names (module level or bound once in the function) is
    `x = A(args) if k == "a" else B(args)`: under the membership test the lookup can only give one of the listed values. The call graph and
    the def-use engine then see the constructors / functions that are actually called."""
    log = []

    def literal_dict(name, module_tree, fn):
        cands = []
        for scope in ([fn] if fn is not None else []) + [module_tree]:
            for st in scope.body:
                if isinstance(st, ast.Assign) and len(st.targets) == 1 and isinstance(st.targets[0], ast.Name) and st.targets[0].id == name:
                    cands.append(st.value)
            if cands:
                break
        if len(cands) != 1 or not isinstance(cands[0], ast.Dict) or not cands[0].keys:
            return None
        d = cands[0]
        if not all(isinstance(k, ast.Constant) and isinstance(v, (ast.Name, ast.Attribute)) for k, v in zip(d.keys, d.values)):
            return None
        return list(zip(d.keys, d.values))

    class _Sub(ast.NodeTransformer):
        def __init__(self, dname, key_dump, value):
            self.dname, self.key_dump, self.value, self.hits = dname, key_dump, value, 0

        def visit_Subscript(self, n):
            self.generic_visit(n)
            if isinstance(n.value, ast.Name) and n.value.id == self.dname and isinstance(n.ctx, ast.Load) and ast.dump(n.slice) == self.key_dump:
                self.hits += 1
                return ast.copy_location(copy.deepcopy(self.value), n)
            return n

    def rewrite(stmts, t, fn, fq):
        for idx, node in enumerate(stmts):
            for fld in ("body", "orelse", "finalbody"):
                blk = getattr(node, fld, None)
                if isinstance(blk, list) and blk and isinstance(blk[0], ast.stmt) and not isinstance(node, (ast.FunctionDef, ast.AsyncFunctionDef, ast.ClassDef)):
                    rewrite(blk, t, fn, fq)
            for hd in getattr(node, "handlers", []) or []:
                rewrite(hd.body, t, fn, fq)
            if isinstance(node, ast.If) and isinstance(node.test, ast.Compare) and len(node.test.ops) == 1 and isinstance(node.test.ops[0], ast.In) \
                    and isinstance(node.test.comparators[0], ast.Name):
                dname = node.test.comparators[0].id
                items = literal_dict(dname, t, fn)
                if not items or len(items) > 6:
                    continue
                key = node.test.left
                uses = sum(1 for b in node.body for n in ast.walk(b) if isinstance(n, ast.Subscript) and isinstance(n.value, ast.Name) and n.value.id == dname
                           and ast.dump(n.slice) == ast.dump(key))
                stores = any(isinstance(n, ast.Name) and n.id in {x.id for x in ast.walk(key) if isinstance(x, ast.Name)} and not isinstance(n.ctx, ast.Load)
                             for b in node.body for n in ast.walk(b))
                if not uses or stores:
                    continue
                # if k in D: BODY(D[k])   ->   if k == "a": BODY(A) elif k == "b": BODY(B) [else: the original else]
                chain = node.orelse
                for k_, v_ in reversed(items):
                    tr = _Sub(dname, ast.dump(key), v_)
                    body_i = [tr.visit(copy.deepcopy(b)) for b in node.body]
                    test = ast.Compare(left=copy.deepcopy(key), ops=[ast.Eq()], comparators=[copy.deepcopy(k_)])
                    new = ast.If(test=test, body=body_i, orelse=chain)
                    ast.copy_location(new, node)
                    if hasattr(node, "_src"):
                        new._src = node._src
                    ast.fix_missing_locations(new)
                    chain = [new]
                stmts[idx] = chain[0]
                log.append((fq, getattr(node, "lineno", 0)))

    for m, t in trees.items():
        for fn in [n for n in ast.walk(t) if isinstance(n, (ast.FunctionDef, ast.AsyncFunctionDef))]:
            rewrite(fn.body, t, fn, f"{m}:{fn.name}")
    return log
